package larking

import (
	"sync"
	"sync/atomic"
)

func init() {
	vfHarnesses["VerifH_sched_selftest"] = VerifH_sched_selftest
}

// VerifH_sched_selftest validates the engine's goroutine model on textbook cases: a counter
// incremented under a mutex by two goroutines always ends at 2; an unbuffered channel hands over
// exactly the values sent, in order; a read-modify-write made of an atomic load and an atomic
// store CAN lose an update (the engine must find that schedule: cover label "lost-update").
func VerifH_sched_selftest() {
	var mu sync.Mutex
	var wg sync.WaitGroup
	n := 0
	for i := 0; i < 2; i++ {
		wg.Add(1)
		go func() {
			defer wg.Done()
			mu.Lock()
			v := n
			vfYield()
			n = v + 1
			mu.Unlock()
		}()
	}
	wg.Wait()
	vfCheck(n == 2, "mutex does not protect the counter")

	ch := make(chan int)
	done := make(chan struct{})
	var got []int
	go func() {
		for v := range ch {
			got = append(got, v)
		}
		close(done)
	}()
	ch <- 1
	ch <- 2
	close(ch)
	<-done
	vfCheck(len(got) == 2 && got[0] == 1 && got[1] == 2, "unbuffered channel did not hand over the values in order")

	var a atomic.Int32
	var wg2 sync.WaitGroup
	for i := 0; i < 2; i++ {
		wg2.Add(1)
		go func() {
			defer wg2.Done()
			v := a.Load()
			a.Store(v + 1)
		}()
	}
	wg2.Wait()
	if a.Load() == 1 {
		vfCover("lost-update")
	} else {
		vfCheck(a.Load() == 2, "impossible counter value")
		vfCover("no-lost-update")
	}
}

func init() {
	vfHarnesses["VerifH_race_selftest_clean"] = VerifH_race_selftest_clean
	vfHarnesses["VerifH_race_selftest_racy"] = VerifH_race_selftest_racy
}

// VerifH_race_selftest_clean: accesses ordered by a mutex, a channel, a WaitGroup and an atomic flag
// must NOT be reported by the engine's race detector.
func VerifH_race_selftest_clean() {
	vfRaceDetect()
	var mu sync.Mutex
	var wg sync.WaitGroup
	shared := 0
	for i := 0; i < 2; i++ {
		wg.Add(1)
		go func() {
			defer wg.Done()
			mu.Lock()
			shared++
			mu.Unlock()
		}()
	}
	wg.Wait()
	vfCheck(shared == 2, "counter")
	data := 0
	ch := make(chan struct{})
	go func() {
		data = 7
		close(ch)
	}()
	<-ch
	vfCheck(data == 7, "channel does not order the write")
	var flag atomic.Bool
	payload := 0
	done := make(chan struct{})
	go func() {
		payload = 9
		flag.Store(true)
		close(done)
	}()
	if flag.Load() {
		vfCheck(payload == 9, "atomic flag does not order the write")
	}
	<-done
	vfCover("clean")
}

// VerifH_race_selftest_racy: two goroutines increment a plain variable; the detector must report it.
func VerifH_race_selftest_racy() {
	vfRaceDetect()
	var wg sync.WaitGroup
	x := 0
	for i := 0; i < 2; i++ {
		wg.Add(1)
		go func() {
			defer wg.Done()
			x++
		}()
	}
	wg.Wait()
	_ = x
}
