package larking

import (
	"context"
	"io"
	"net/http"
	"net/url"
	"strconv"

	spb "google.golang.org/genproto/googleapis/rpc/status"
	"google.golang.org/grpc"
	"google.golang.org/grpc/codes"
	"google.golang.org/grpc/metadata"
	"google.golang.org/grpc/status"
	"google.golang.org/protobuf/proto"
	"google.golang.org/protobuf/reflect/protoreflect"
	"google.golang.org/protobuf/types/known/anypb"
)

func init() {
	vfHarnesses["VerifH_proxy"] = VerifH_proxy
}

// ---- the backend application -----------------------------------------------------------------------
// One backend handler, written against a byte-level stream, runs in both worlds: natively behind a
// real grpc.Server (vfBackendConn), under the engine behind an in-memory stream made of channels
// (vfConnNewStream / vfConnInvoke replace grpc-go's client transport).

// ---- engine side: in-memory transport ------------------------------------------------------------

type vfMemCall struct {
	ctx      context.Context // the backend handler's context (incoming metadata)
	c2s      chan []byte
	s2c      chan []byte
	final    error
	noMore   bool // c2s closed
	sent     int
	oneReply bool // not server-streaming
	oneShot  bool // not client-streaming: the first SendMsg half-closes
	grpc.ClientStream
}

func (c *vfMemCall) Context() context.Context { return c.ctx }
func (c *vfMemCall) RecvBytes() ([]byte, error) {
	b, ok := <-c.c2s
	if !ok {
		return nil, io.EOF
	}
	return b, nil
}
func (c *vfMemCall) SendBytes(b []byte) error { c.s2c <- b; return nil }

// client half (what larking's proxy handler holds)
func vfDynBytes(m interface{}) []byte {
	pm, ok := m.(proto.Message)
	if !ok {
		panic("verif: not a proto message")
	}
	return append([]byte(nil), pm.ProtoReflect().GetUnknown()...)
}

func (c *vfMemCall) SendMsg(m interface{}) error {
	vfYield()
	if c.noMore {
		return io.EOF
	}
	if c.sent > 0 {
		// Assumption of the model: the FIRST SendMsg after NewStream never observes the end of the
		// call (on a real transport that takes a network round trip, far longer than the time between
		// the two calls); later ones may.
		select {
		case <-c.doneCh():
			return io.EOF // the call has ended: the status is delivered by RecvMsg
		default:
		}
	}
	c.sent++
	c.c2s <- vfDynBytes(m)
	if c.oneShot {
		c.noMore = true
		close(c.c2s)
	}
	return nil
}
func (c *vfMemCall) doneCh() chan struct{} { return vfMemDone[c] }

var vfMemDone = map[*vfMemCall]chan struct{}{}

func (c *vfMemCall) CloseSend() error {
	vfYield()
	if !c.noMore {
		c.noMore = true
		close(c.c2s)
	}
	return nil
}
func (c *vfMemCall) RecvMsg(m interface{}) error {
	vfYield()
	b, ok := <-c.s2c
	if !ok {
		if c.final == nil {
			return io.EOF
		}
		return c.final
	}
	m.(proto.Message).ProtoReflect().SetUnknown(protoreflect.RawFields(b))
	if c.oneReply {
		// grpc-go: the RecvMsg of a call without server streaming returns only when the call has ended,
		// and returns the status if that is an error
		<-c.doneCh()
		if c.final != nil {
			return c.final
		}
	}
	return nil
}
func (c *vfMemCall) Header() (metadata.MD, error) { return nil, nil }
func (c *vfMemCall) Trailer() metadata.MD         { return nil }

func vfConnNewStream(cc *grpc.ClientConn, ctx context.Context, desc *grpc.StreamDesc, method string) (grpc.ClientStream, error) {
	be := vfProxyTable[cc]
	if be == nil {
		return nil, status.Error(codes.Unavailable, "verif: unknown backend")
	}
	sctx := context.Background()
	if md, ok := metadata.FromOutgoingContext(ctx); ok {
		sctx = metadata.NewIncomingContext(sctx, md)
	}
	c := &vfMemCall{ctx: sctx, c2s: make(chan []byte, 8), s2c: make(chan []byte, 8), oneShot: !desc.ClientStreams, oneReply: !desc.ServerStreams}
	done := make(chan struct{})
	vfMemDone[c] = done
	go func() {
		c.final = vfBackendRun(be.script, be.obs, desc.ClientStreams, c)
		close(done)
		close(c.s2c)
	}()
	return c, nil
}

func vfConnInvoke(cc *grpc.ClientConn, ctx context.Context, method string, args, reply interface{}) error {
	cs, err := vfConnNewStream(cc, ctx, &grpc.StreamDesc{}, method)
	if err != nil {
		return err
	}
	if err := cs.SendMsg(args); err != nil && err != io.EOF {
		return err
	}
	if err := cs.RecvMsg(reply); err != nil {
		if err == io.EOF {
			return status.Error(codes.Internal, "verif: backend returned no reply")
		}
		return err
	}
	// the status follows the reply
	if err := cs.RecvMsg(reply); err != io.EOF {
		if err == nil {
			return status.Error(codes.Internal, "verif: backend sent two replies to a unary call")
		}
		return err
	}
	return nil
}

// ---- native side: the same handler behind a real grpc.Server -----------------------------------------

// ---- the codec of the client -> larking leg ----------------------------------------------------------

// vfDualCodec: under the engine a message's bytes are opaque and travel as the dynamic message's
// unknown fields; natively the real protobuf codec runs on the real dynamic messages.
type vfDualCodec struct{}

func (vfDualCodec) Name() string { return "dual" }
func (c vfDualCodec) Marshal(v interface{}) ([]byte, error) {
	return c.MarshalAppend(nil, v)
}
func (vfDualCodec) MarshalAppend(b []byte, v interface{}) ([]byte, error) {
	m, ok := v.(proto.Message)
	if !ok {
		return nil, errVfCodec
	}
	if vfSymbolic() {
		return append(b, m.ProtoReflect().GetUnknown()...), nil
	}
	return proto.MarshalOptions{}.MarshalAppend(b, m)
}
func (vfDualCodec) Unmarshal(data []byte, v interface{}) error {
	m, ok := v.(proto.Message)
	if !ok {
		return errVfCodec
	}
	if vfSymbolic() {
		m.ProtoReflect().SetUnknown(protoreflect.RawFields(append([]byte(nil), data...)))
		return nil
	}
	return proto.Unmarshal(data, m)
}

// vfHoldBody is a request body whose client does not end its stream: after the data, Read blocks
// until the body is closed (what net/http does when the handler returns or the call is reset).
type vfHoldBody struct {
	data   []byte
	pos    int
	hold   bool
	closed chan struct{}
}

func (b *vfHoldBody) Read(p []byte) (int, error) {
	vfYield()
	if b.pos < len(b.data) {
		n := copy(p, b.data[b.pos:])
		b.pos += n
		return n, nil
	}
	if !b.hold {
		return 0, io.EOF
	}
	<-b.closed
	return 0, http.ErrBodyReadAfterClose
}
func (b *vfHoldBody) Close() error {
	select {
	case <-b.closed:
	default:
		close(b.closed)
	}
	return nil
}

func vfProtoStr(field byte, s string) []byte {
	return append([]byte{field<<3 | 2, byte(len(s))}, s...)
}

// VerifH_proxy (C10): a gRPC call through larking to a backend registered with RegisterConn, for
// the four streaming shapes: the backend must receive exactly the client's request messages and its
// metadata, the client exactly the backend's replies in order followed by the backend's final
// status - also when the backend fails before, during or after the stream, when it only replies
// after the client's end-of-stream, and when the client keeps its stream open until the call ends.
func VerifH_proxy() {
	defer vfCloseBackends()
	vfRaceDetect()
	vfPreemptions(vfBound(1, 2))
	shape := vfChoice(4) // 0 unary, 1 client stream, 2 server stream, 3 bidi
	name := []string{"U", "CS", "SS", "BD"}[shape]
	cs := shape == 1 || shape == 3
	ss := shape == 2 || shape == 3
	sc := &vfBackendScript{}
	obs := &vfBackendObs{}
	fail := vfBool()
	withDetails := false
	failMsg := ""
	if fail {
		switch fc := vfChoice(4); fc {
		case 3:
			// a status with details and an EMPTY message
			sc.final = status.FromProto(&spb.Status{Code: int32(codes.FailedPrecondition), Details: []*anypb.Any{{TypeUrl: "type.googleapis.com/vf.D", Value: []byte{8, 1}}}}).Err()
			withDetails = true
			vfCover("status-with-details")
		default:
			// the Unavailable status carries a message with a literal '%' followed by hex digits
			failMsg = []string{"be", "be", "b%41 50%25"}[fc]
			sc.final = status.Error([]codes.Code{codes.NotFound, codes.Canceled, codes.Unavailable}[fc], failMsg)
		}
		if ss {
			sc.failAt = vfChoice(3)
		} else if vfBool() {
			sc.failAt = 2
		}
	}
	nreplies := 1
	if ss {
		nreplies = vfLen(2)
	}
	if !ss && fail {
		nreplies = 0 // a single-reply call fails INSTEAD of replying
	}
	for i := 0; i < nreplies; i++ {
		sc.replies = append(sc.replies, vfProtoStr(1, "r"+strconv.Itoa(i)))
	}
	if cs {
		sc.drain = vfChoice(3)
	}
	nreq := 1
	if cs {
		nreq = vfLen(2)
	}
	// does the backend wait for the client's end-of-stream on the path it takes?
	waitsForEOF := cs && sc.drain != 2
	if fail && sc.failAt == 0 {
		waitsForEOF = false
	}
	if fail && sc.failAt == 1 && nreplies > 0 && sc.drain != 0 {
		waitsForEOF = false
	}
	drained := waitsForEOF // then it has read every request
	hold := cs && vfBool() // the client does not end its stream before the call has ended
	if hold && waitsForEOF {
		hold = false // such a call never ends, directly or proxied
	}
	mdv := "v0"
	grpcKey := false
	mdvals := []string{mdv}
	if vfBool() {
		mdvals = []string{mdv, "second", "third"} // a metadata key with several values: all of them, in order
		vfCover("multi-valued-metadata")
		grpcKey = true // and a key that starts with "grpc-" without being one of the protocol's own
	}
	// a client that neither sends a message nor ends its stream: the proxy handler is still waiting
	// for the first message when nothing else can happen; covered by F-D37's description, not explored
	vfAssume(!(hold && nreq == 0))
	// known findings (see known_findings.json): violations inside these regions are reported as
	// KNOWN-FINDING, everything outside them is a violation
	vfKnown("F-D37", cs && nreq == 0)
	vfKnown("F-D36", hold && !fail)

	cc := vfBackendConn([]vfSvcSpec{vfSvcP})
	vfProxyTable[cc] = &vfProxyBackend{script: sc, obs: obs}
	mux, err := NewMux(CodecOption("application/dual", vfDualCodec{}))
	if err != nil {
		vfFail("NewMux failed")
	}
	if err := mux.RegisterConn(context.Background(), cc); err != nil {
		vfFail("RegisterConn failed: " + err.Error())
	}
	var reqs [][]byte
	var body []byte
	for i := 0; i < nreq; i++ {
		p := vfProtoStr(1, "q"+strconv.Itoa(i))
		reqs = append(reqs, p)
		body = append(body, 0, 0, 0, 0, byte(len(p)))
		body = append(body, p...)
	}
	// the front end: gRPC, or - for a succeeding unary call - plain HTTP (POST /Service/Method with
	// the message as body, the implicit binding): the same backend must see the same call
	httpFront := shape == 0 && !fail && vfBool()
	if httpFront {
		body = reqs[0]
		vfCover("http-front")
	}
	hb := &vfHoldBody{data: body, hold: hold, closed: make(chan struct{})}
	r := &http.Request{Method: "POST", URL: &url.URL{Path: "/vf.P/" + name},
		Header: http.Header{"Content-Type": []string{"application/grpc+dual"}, "Te": []string{"trailers"}, "X-Md": mdvals},
		Body:   hb, ContentLength: -1, ProtoMajor: 2}
	if httpFront {
		r.Header = http.Header{"Content-Type": []string{"application/dual"}, "Accept": []string{"application/dual"}, "X-Md": mdvals}
		r.ContentLength = int64(len(body))
		r.ProtoMajor, r.ProtoMinor = 1, 1
	}
	if grpcKey {
		r.Header["Grpc-Previous-Rpc-Attempts"] = []string{"2"}
		r.Header["X-Tok-Bin"] = []string{"3q2+7w=="} // binary metadata written WITH base64 padding (non-Go clients)
	}
	w := newFakeRW()
	vfWatchdog(func() {
		mux.ServeHTTP(w, r)
		hb.Close() // net/http closes the body when the handler returns
	})
	w.finish()

	if httpFront {
		vfCheck(w.status == 200 && vfBytesEq(w.body, sc.replies[0]), "an HTTP client of a proxied unary call did not receive exactly the backend's reply")
		vfCheck(obs.calls == 1 && len(obs.reqs) == 1 && vfBytesEq(obs.reqs[0], reqs[0]), "the backend of a proxied unary call made over HTTP did not receive exactly the client's message")
		vfCheck(len(obs.md) == len(mdvals), "the backend did not receive the HTTP client's request metadata (all values of the key)")
		for i := range mdvals {
			vfCheck(i < len(obs.md) && obs.md[i] == mdvals[i], "the backend did not receive the HTTP client's request metadata values in order")
		}
		if grpcKey {
			vfCheck(len(obs.mdBin) == 1 && obs.mdBin[0] == "\xde\xad\xbe\xef", "binary request metadata of an HTTP client did not reach the backend byte-exact")
		}
		vfCover(name)
		vfCover("succeeds")
		return
	}
	// what the client received
	var got [][]byte
	bodyOK := true
	for off := 0; off < len(w.body); {
		if off+5 > len(w.body) || w.body[off] != 0 {
			bodyOK = false
			break
		}
		n := int(w.body[off+4])
		if off+5+n > len(w.body) {
			bodyOK = false
			break
		}
		got = append(got, w.body[off+5:off+5+n])
		off += 5 + n
	}
	vfCheck(bodyOK, "the response body is not a sequence of gRPC frames")
	want := sc.replies
	if fail && sc.failAt == 0 {
		want = nil
	} else if fail && sc.failAt == 1 && len(want) > 1 {
		want = want[:1]
	}
	vfCheck(len(got) == len(want), "the client did not receive exactly the backend's reply messages")
	for i := range want {
		vfCheck(i < len(got) && vfBytesEq(got[i], want[i]), "a reply message reached the client altered or out of order")
	}
	gs, _ := w.trailer("Grpc-Status")
	wantCode := "0"
	if fail {
		wantCode = strconv.Itoa(int(status.Code(sc.final)))
	}
	vfCheck(len(gs) == 1 && gs[0] == wantCode, "the client did not receive the backend's final status code")
	if fail && !withDetails {
		gm, _ := w.trailer("Grpc-Message")
		vfCheck(len(gm) == 1, "the client did not receive the backend's status message")
		if len(gm) == 1 {
			dec, ok := refPercentDecode(gm[0])
			vfCheck(ok && string(dec) == failMsg, "the status message the client decodes differs from the backend's")
		}
	}
	if withDetails {
		db, _ := w.trailer("Grpc-Status-Details-Bin")
		vfCheck(len(db) == 1, "the client did not receive the backend's status details")
		if len(db) == 1 {
			raw, ok := refProtoJSONBytes(db[0])
			c, m, ds, pok := refParseRPCStatus(raw)
			vfCheck(ok && pok && c == int64(codes.FailedPrecondition) && m == "" && len(ds) == 1 && ds[0].url == "type.googleapis.com/vf.D" && vfBytesEq(ds[0].val, []byte{8, 1}), "the status details the client received differ from the backend's")
		}
	}
	// what the backend received
	vfCheck(obs.calls == 1, "the backend was not called exactly once")
	vfCheck(len(obs.md) == len(mdvals), "the backend did not receive the client's request metadata (all values of the key)")
	for i := range mdvals {
		vfCheck(i < len(obs.md) && obs.md[i] == mdvals[i], "the backend did not receive the client's request metadata values in order")
	}
	if grpcKey {
		vfCheck(len(obs.mdGrpc) == 1 && obs.mdGrpc[0] == "2", "request metadata under a key starting with grpc- (not a protocol header) did not reach the backend")
		vfCheck(len(obs.mdBin) == 1 && obs.mdBin[0] == "\xde\xad\xbe\xef", "binary request metadata (padded base64 on the wire) did not reach the backend byte-exact")
	}
	if drained || (!cs && !(fail && sc.failAt == 0)) {
		// the backend read the whole request stream
		vfCheck(len(obs.reqs) == len(reqs), "the backend did not receive exactly the client's request messages")
	}
	for i := range obs.reqs {
		vfCheck(i < len(reqs) && vfBytesEq(obs.reqs[i], reqs[i]), "a request message reached the backend altered or out of order")
	}
	switch {
	case fail && sc.failAt == 0:
		vfCover("fails-before")
	case fail && sc.failAt == 1:
		vfCover("fails-during")
	case fail:
		vfCover("fails-after")
	default:
		vfCover("succeeds")
	}
	vfCover(name)
	if hold {
		vfCover("client-keeps-stream-open")
	}
	if cs && sc.drain == 0 && !(fail && sc.failAt == 0) {
		vfCover("replies-after-end-of-stream")
	}
	if cs && sc.drain == 2 {
		vfCover("returns-without-reading-all")
	}
}

func init() {
	vfHarnesses["VerifH_proxy_intercept"] = VerifH_proxy_intercept
}

// VerifH_proxy_intercept (C18): calls to a PROXIED backend (RegisterConn) pass through the configured
// unary / stream interceptor exactly once with the full method name and the method's streaming
// flags, the stats handler sees one begin and one end carrying the call's error, and the
// client-visible outcome is the same with the options on and off.
func VerifH_proxy_intercept() {
	defer vfCloseBackends()
	vfPreemptions(1)
	shape := vfChoice(4)
	name := []string{"U", "CS", "SS", "BD"}[shape]
	cs := shape == 1 || shape == 3
	ss := shape == 2 || shape == 3
	sc := &vfBackendScript{replies: [][]byte{vfProtoStr(1, "r0")}}
	fail := vfBool()
	if fail {
		sc.final = status.Error(codes.NotFound, "be")
		sc.replies = nil
		sc.failAt = 2
	}
	obs := &vfBackendObs{}
	withOpts := vfBool()
	replace := 0
	rewriteMD := false
	if withOpts && !cs && !ss && !fail {
		replace = vfChoice(3)
		rewriteMD = replace != 2 && vfBool()
	}
	var ucalls, scalls int
	var umethod, smethod string
	var sClient, sServer bool
	st := &fakeStats{}
	opts := []MuxOption{CodecOption("application/dual", vfDualCodec{})}
	if withOpts {
		opts = append(opts, StatsOption(st),
			UnaryServerInterceptorOption(func(ctx context.Context, req interface{}, info *grpc.UnaryServerInfo, handler grpc.UnaryHandler) (interface{}, error) {
				ucalls++
				umethod = info.FullMethod
				if rewriteMD {
					// an auth interceptor: strips one key, adds another; the handler (the backend) must see
					// the metadata the interceptor passed on
					md, _ := metadata.FromIncomingContext(ctx)
					md = md.Copy()
					delete(md, "x-md")
					md.Set("grpc-previous-rpc-attempts", "7")
					ctx = metadata.NewIncomingContext(ctx, md)
				}
				if replace == 2 {
					// answers from a cache: the handler (the backend) is not called
					m2 := req.(proto.Message).ProtoReflect().New().Interface()
					vfDualCodec{}.Unmarshal(vfProtoStr(1, "zz"), m2)
					return m2, nil
				}
				resp, err := handler(ctx, req)
				if replace == 1 && err == nil {
					// replaces the reply: what the interceptor returns is what the client gets
					m2 := resp.(proto.Message).ProtoReflect().New().Interface()
					vfDualCodec{}.Unmarshal(vfProtoStr(1, "zz"), m2)
					return m2, nil
				}
				return resp, err
			}),
			StreamServerInterceptorOption(func(srv interface{}, stream grpc.ServerStream, info *grpc.StreamServerInfo, handler grpc.StreamHandler) error {
				scalls++
				smethod = info.FullMethod
				sClient, sServer = info.IsClientStream, info.IsServerStream
				return handler(srv, stream)
			}))
	}
	cc := vfBackendConn([]vfSvcSpec{vfSvcP})
	vfProxyTable[cc] = &vfProxyBackend{script: sc, obs: obs}
	mux, err := NewMux(opts...)
	if err != nil {
		vfFail("NewMux failed")
	}
	if err := mux.RegisterConn(context.Background(), cc); err != nil {
		vfFail("RegisterConn failed: " + err.Error())
	}
	p := vfProtoStr(1, "q0")
	body := append([]byte{0, 0, 0, 0, byte(len(p))}, p...)
	hb := &vfHoldBody{data: body, closed: make(chan struct{})}
	r := &http.Request{Method: "POST", URL: &url.URL{Path: "/vf.P/" + name},
		Header: http.Header{"Content-Type": []string{"application/grpc+dual"}, "Te": []string{"trailers"}, "X-Md": []string{"v0"}},
		Body:   hb, ContentLength: -1, ProtoMajor: 2}
	w := newFakeRW()
	vfWatchdog(func() {
		mux.ServeHTTP(w, r)
		hb.Close()
	})
	w.finish()
	gs, _ := w.trailer("Grpc-Status")
	wantCode := "0"
	if fail {
		wantCode = "5"
	}
	vfCheck(len(gs) == 1 && gs[0] == wantCode, "the outcome of a proxied call depends on the interceptor / stats options")
	if replace != 0 {
		zz := vfProtoStr(1, "zz")
		vfCheck(vfBytesEq(w.body, append([]byte{0, 0, 0, 0, byte(len(zz))}, zz...)), "the client of a proxied unary call did not get the reply its interceptor returned")
		vfCheck(obs.calls == 2-replace, "an interceptor that answers without calling the handler still reached the backend (or a calling one did not)")
		vfCover("interceptor-replaces-reply")
	} else {
		vfCheck(obs.calls == 1, "the backend was not called exactly once")
		if !fail && !ss {
			r0 := vfProtoStr(1, "r0")
			vfCheck(vfBytesEq(w.body, append([]byte{0, 0, 0, 0, byte(len(r0))}, r0...)), "the client did not get the backend's reply")
		}
	}
	if rewriteMD {
		vfCheck(len(obs.md) == 0 && len(obs.mdGrpc) == 1 && obs.mdGrpc[0] == "7", "the backend of a proxied unary call did not receive the metadata its interceptor passed on")
		vfCover("interceptor-rewrites-metadata")
	} else if obs.calls == 1 {
		vfCheck(len(obs.md) == 1 && obs.md[0] == "v0", "the backend did not receive the client's request metadata")
	}
	if !withOpts {
		vfCover("options-off")
		return
	}
	if !cs && !ss {
		vfCheck(ucalls == 1 && scalls == 0 && umethod == "/vf.P/"+name, "a proxied unary call did not pass through the unary interceptor exactly once with its full method name")
		vfCover("unary-interceptor")
	} else {
		vfCheck(scalls == 1 && ucalls == 0 && smethod == "/vf.P/"+name, "a proxied streaming call did not pass through the stream interceptor exactly once with its full method name")
		vfCheck(sClient == cs && sServer == ss, "the stream interceptor of a proxied call saw wrong streaming flags")
		vfCover("stream-interceptor")
	}
	n := len(st.events)
	vfCheck(n >= 3 && st.events[0] == "tag" && st.events[n-1] == "end" && st.ends == 1, "stats events of a proxied call do not start with tag and end with exactly one end")
	if fail {
		vfCheck(st.endErr != nil && status.Code(st.endErr) == codes.NotFound, "the End stats event of a failing proxied call does not carry the backend's error")
		vfCover("failing")
	} else {
		vfCheck(st.endErr == nil, "the End stats event of a succeeding proxied call carries an error")
	}
}
