package larking

import (
	"context"
	"io"
)

func init() {
	vfHarnesses["VerifH_readAll"] = VerifH_readAll
	vfHarnesses["VerifH_writeAll"] = VerifH_writeAll
	vfHarnesses["VerifH_grpc_recv"] = VerifH_grpc_recv
	vfHarnesses["VerifH_grpc_send"] = VerifH_grpc_send
}

// VerifH_readAll (C08): unary HTTP bodies: a body within the limit is read completely, a larger
// one fails; for every read partition and buffer capacity.
func VerifH_readAll() {
	limit := vfInt(1, 6)
	o := &muxOptions{maxReceiveMessageSize: limit}
	n := vfLen(vfBound(7, 9))
	body := vfBytes(n)
	r := &vfFragReader{data: body}
	buf := make([]byte, 0, vfCapMenu())
	b, err := o.readAll(buf, r)
	if n <= limit {
		vfCheck(err == io.EOF, "body within the receive limit was refused")
		vfCheck(vfBytesEq(b, body), "body bytes lost or altered")
		if n == limit {
			vfCover("at-limit")
		}
		vfCover("within")
	} else {
		vfCheck(err != nil && err != io.EOF, "body larger than the receive limit was accepted")
		vfCheck(len(b) <= limit, "more bytes than the receive limit were returned")
		vfCover("over")
	}
}

// VerifH_writeAll (C08): unary HTTP replies: within the send limit written once and whole,
// larger refused before anything is written.
func VerifH_writeAll() {
	limit := vfInt(1, 6)
	o := &muxOptions{maxSendMessageSize: limit}
	n := vfLen(8)
	b := vfBytes(n)
	w := &vfSink{}
	err := o.writeAll(w, b)
	if n <= limit {
		vfCheck(err == nil, "reply within the send limit was refused")
		vfCheck(w.writes == 1 && vfBytesEq(w.buf, b), "reply bytes not written exactly once")
		vfCover("within")
	} else {
		vfCheck(err != nil, "reply larger than the send limit was sent")
		vfCheck(w.writes == 0, "bytes were written although the reply exceeds the send limit")
		vfCover("over")
	}
}

// VerifH_grpc_recv (C08, C06, C09): one gRPC frame with a symbolic flag and a symbolic 32-bit
// length, a symbolic receive limit, optional (fake) decompression to an arbitrary length.
func VerifH_grpc_recv() {
	limit := vfInt(1, 6)
	avail := vfLen(vfBound(7, 8)) // payload bytes actually present after the 5-byte header
	hdr := vfBytes(5)
	payload := vfBytes(avail)
	wire := append(append([]byte{}, hdr...), payload...)
	codec := &fakeCodec{name: "fake"}
	codec.failNext = vfBool() // the payload may be undecodable
	var comp Compressor
	var fc *fakeCompressor
	if vfBool() {
		fc = &fakeCompressor{out: vfBytes(vfLen(vfBound(8, 10)))}
		comp = fc
	}
	r := &vfFragReader{data: wire, greedy: true}
	if vfBool() {
		r.maxChunk = 1 + vfChoice(3)
	}
	s := &streamGRPC{
		opts:  muxOptions{maxReceiveMessageSize: limit},
		ctx:   context.Background(),
		codec: codec,
		comp:  comp,
		r:     r,
	}
	var st *fakeStats
	if vfBool() {
		st = &fakeStats{}
		s.opts.statsHandler = st
	}
	msg := newFakeMsg(schemaRoute())
	// known finding F-D39 (C08): a compressed frame LONGER than the receive limit around a message
	// within it is refused (the size is "measured after decompression": such a message is within the
	// limit); violations inside this region are reported as KNOWN-FINDING, see known_findings.json
	size0 := uint32(hdr[1])<<24 | uint32(hdr[2])<<16 | uint32(hdr[3])<<8 | uint32(hdr[4])
	vfKnown("F-D39", hdr[0] == 1 && fc != nil && !codec.failNext && uint64(size0) > uint64(limit) && uint64(size0) <= uint64(avail) && len(fc.out) <= limit)
	err := s.RecvMsg(msg)
	if st != nil {
		// stats never change the outcome (C18); one in-payload event per decoded message, true length
		if err == nil {
			vfCheck(len(st.inLen) == 1 && len(codec.unmarshal) == 1 && st.inLen[0] == len(codec.unmarshal[0]), "in-payload stats event missing or with a wrong length")
			vfCover("stats-inpayload")
		} else {
			vfCheck(len(st.inLen) == 0, "in-payload stats event for a message that was not delivered")
		}
	}
	size := uint32(hdr[1])<<24 | uint32(hdr[2])<<16 | uint32(hdr[3])<<8 | uint32(hdr[4])
	compressed := hdr[0] == 1
	// no bypass: whatever reached the codec is within the limit
	for _, u := range codec.unmarshal {
		vfCheck(len(u) <= limit, "a message larger than the receive limit reached the codec")
	}
	if codec.failNext {
		vfCheck(err != nil, "RecvMsg succeeded although the codec rejected the payload")
		vfCover("undecodable")
		return
	}
	if err == nil {
		vfCheck(len(codec.unmarshal) == 1, "RecvMsg succeeded without decoding exactly one message")
		if !compressed {
			vfCheck(uint64(size) <= uint64(avail), "RecvMsg succeeded on a truncated frame")
			vfCheck(vfBytesEq(codec.unmarshal[0], payload[:size]), "decoded payload differs from the frame payload")
			vfCover("delivered")
		} else {
			vfCheck(fc != nil, "compressed frame accepted without a decompressor")
			vfCheck(vfBytesEq(codec.unmarshal[0], fc.out), "decoded payload differs from the decompressed bytes")
			vfCover("delivered-decompressed")
		}
		return
	}
	// no false refusal
	if !compressed && uint64(size) <= uint64(limit) && uint64(size) <= uint64(avail) {
		vfFail("a complete, uncompressed frame within the receive limit was refused")
	}
	if compressed && fc != nil && uint64(size) <= uint64(avail) && len(fc.out) <= limit {
		vfFail("a complete compressed frame whose message is within the receive limit (measured after decompression) was refused")
	}
	if uint64(size) > uint64(limit) {
		vfCover("over-limit")
	}
	if compressed && fc != nil && len(fc.out) > limit && uint64(size) <= uint64(limit) && uint64(size) <= uint64(avail) {
		vfCover("over-limit-after-decompression")
	}
	if uint64(size) > uint64(avail) && uint64(size) <= uint64(limit) {
		vfCheck(err != io.EOF, "a frame cut inside its payload reported as a clean end of stream")
		vfCover("truncated")
	}
}

// VerifH_grpc_send (C08, C06): a reply within the SEND limit is framed and written; a larger one
// is refused; the frame carries flag, big-endian length and the payload.
func VerifH_grpc_send() {
	sendLimit := vfInt(1, 6)
	recvLimit := vfInt(1, 6)
	n := vfLen(8)
	compressed := vfBool()
	if compressed {
		// with a compressor the interesting sizes are 0 (nothing to compress) and those whose
		// compressed form ends in the last bytes of the pooled 64-byte buffer
		sendLimit, recvLimit = 80, 80
		switch vfChoice(3) {
		case 0:
			n = 54 + vfLen(10)
		case 1:
			n = vfLen(3)
		default:
			// around the send limit: the limit applies to the message, not to its compressed form
			// (which is 2 bytes longer here)
			sendLimit = 3 + vfLen(1)
			n = sendLimit - 1 + vfLen(2)
			vfCover("compressed-at-limit")
		}
	}
	reply := newFakeMsg(schemaRoute())
	reply.payload = vfBytes(n)
	codec := &fakeCodec{name: "fake"}
	w := &vfFlushSink{}
	s := &streamGRPC{
		opts:        muxOptions{maxReceiveMessageSize: recvLimit, maxSendMessageSize: sendLimit},
		ctx:         context.Background(),
		codec:       codec,
		w:           w,
		wHeader:     map[string][]string{},
		contentType: "application/grpc+fake",
	}
	if compressed {
		s.comp = &vfMarkCompressor{}
		s.messageEncoding = "zz"
	}
	var st *fakeStats
	if vfBool() {
		st = &fakeStats{}
		s.opts.statsHandler = st
	}
	err := s.SendMsg(reply)
	if st != nil {
		if err == nil {
			vfCheck(len(st.outLen) == 1, "out-payload stats event missing")
			if !compressed {
				vfCheck(st.outLen[0] == n, "out-payload stats event with a wrong length")
			}
			vfCover("stats-outpayload")
		} else {
			vfCheck(len(st.outLen) == 0, "out-payload stats event for a reply that was not sent")
		}
	}
	if compressed && n > sendLimit {
		vfCheck(err != nil && len(w.buf) == 0, "a reply above the send limit was sent through the compressor")
		vfCover("compressed-refused")
		return
	}
	if compressed {
		vfCheck(err == nil, "compressed reply within the limits was refused")
		vfCheck(len(w.buf) >= 5 && w.buf[0] == 1, "reply sent through a compressor is not flagged compressed")
		got := int(uint32(w.buf[1])<<24 | uint32(w.buf[2])<<16 | uint32(w.buf[3])<<8 | uint32(w.buf[4]))
		vfCheck(got == len(w.buf)-5, "frame length prefix differs from the payload length")
		body := w.buf[5:]
		vfCheck(len(body) >= 2 && body[0] == 'Z' && body[1] == ':' && vfBytesEq(body[2:], reply.payload), "compressed frame payload does not decompress to the reply")
		vfCover("compressed")
		if n == 0 {
			vfCover("compressed-empty")
		}
		return
	}
	if n <= sendLimit {
		vfCheck(err == nil, "reply within the send limit was refused")
		vfCheck(len(w.buf) == 5+n, "frame length wrong")
		vfCheck(w.buf[0] == 0, "uncompressed reply flagged as compressed")
		got := uint32(w.buf[1])<<24 | uint32(w.buf[2])<<16 | uint32(w.buf[3])<<8 | uint32(w.buf[4])
		vfCheck(int(got) == n, "frame length prefix differs from the payload length")
		vfCheck(vfBytesEq(w.buf[5:], reply.payload), "frame payload differs from the reply bytes")
		vfCover("sent")
		if n > recvLimit {
			vfCover("sent-above-receive-limit")
		}
	} else {
		vfCheck(err != nil, "reply larger than the send limit was sent")
		vfCover("refused")
	}
}
