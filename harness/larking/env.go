package larking

import (
	"errors"
	"io"
)

// ---------------------------------------------------------------------------------------------
// Adversarial environment objects (DESIGN §3.2 / Appendix C.4).

// vfFragReader is the read-schedule quantifier: it hands out data in every possible partition into
// reads and places io.EOF either together with the last bytes or on the following call. It never
// returns (0, nil) for a non-empty p and never retains p (io.Reader contract).
type vfFragReader struct {
	data     []byte
	pos      int
	reads    int
	eofData  bool // io.EOF was returned together with data
	maxChunk int  // 0 = unlimited
	greedy   bool // no partition choice: always hand out as much as allowed
	sticky   bool // set once EOF has been returned
}

func (r *vfFragReader) Read(p []byte) (int, error) {
	if len(p) == 0 {
		return 0, nil
	}
	rem := len(r.data) - r.pos
	if rem == 0 {
		r.sticky = true
		return 0, io.EOF
	}
	max := len(p)
	if rem < max {
		max = rem
	}
	if r.maxChunk > 0 && r.maxChunk < max {
		max = r.maxChunk
	}
	n := max
	if !r.greedy {
		n = 1 + vfChoice(max)
		if n > max {
			panic("verif: replay tape misaligned (read size beyond the buffer)")
		}
	}
	copy(p, r.data[r.pos:r.pos+n])
	r.pos += n
	r.reads++
	if r.pos == len(r.data) && vfBool() {
		r.eofData = true
		r.sticky = true
		return n, io.EOF
	}
	return n, nil
}

// vfWholeReader returns everything in one read (when p is large enough), EOF on the next call.
type vfWholeReader struct {
	data []byte
	pos  int
}

func (r *vfWholeReader) Read(p []byte) (int, error) {
	if len(p) == 0 {
		return 0, nil
	}
	if r.pos == len(r.data) {
		return 0, io.EOF
	}
	n := copy(p, r.data[r.pos:])
	r.pos += n
	return n, nil
}

var errVfWrite = errors.New("verif: injected write failure")

// vfSink records everything written to it.
type vfSink struct {
	buf     []byte
	writes  int
	flushes int
	failAt  int // fail the failAt-th write (1-based); 0 = never
}

func (w *vfSink) Write(p []byte) (int, error) {
	w.writes++
	if w.failAt > 0 && w.writes == w.failAt {
		return 0, errVfWrite
	}
	w.buf = append(w.buf, p...)
	return len(p), nil
}

func (w *vfSink) Flush() { w.flushes++ }

func vfBytesEq(a, b []byte) bool {
	if len(a) != len(b) {
		return false
	}
	for i := range a {
		if a[i] != b[i] {
			return false
		}
	}
	return true
}

// vfSeedPool puts a buffer of a chosen capacity into larking's byte pool, so that the code under
// test also runs with small recycled buffers (a real sync.Pool may hand back any earlier buffer).
func vfSeedPool() {
	switch vfChoice(3) {
	case 0:
		// fresh pool: Get falls back to New (capacity 64)
	case 1:
		b := make([]byte, 0, 1)
		bytesPool.Put(&b)
	default:
		b := make([]byte, 0, 8)
		bytesPool.Put(&b)
	}
}

// vfPoolScribble does what a concurrent request does to larking's byte pool: it takes a recycled
// buffer, overwrites its whole capacity and puts it back.
func vfPoolScribble() {
	bp := bytesPool.Get().(*[]byte)
	b := (*bp)[:cap(*bp)]
	for i := range b {
		b[i] = 0xEE
	}
	*bp = b[:0]
	bytesPool.Put(bp)
}
