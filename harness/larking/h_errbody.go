package larking

import (
	"net/http"
	"net/url"

	"google.golang.org/grpc/codes"
	"google.golang.org/grpc/status"
)

func init() {
	vfHarnesses["VerifH_error_body_ctype"] = VerifH_error_body_ctype
}

// VerifH_error_body_ctype (C05, C09): a failing transcoded call whose request names a content type no
// codec is registered for (an upload, a form post, text/plain with parameters) and whose Accept is
// absent, admits a registered type, or admits nothing registered: the server still produces the
// documented HTTP status and a google.rpc.Status body labelled with a REGISTERED codec's type.
func VerifH_error_body_ctype() {
	in := schemaRoute()
	out := newFakeMD("vf.Resp", strField("r"))
	rule := vfHTTPRule("POST", "/aa/{f}")
	rule.Body = "*"
	mux, srv, rec := vfMuxWith(rule, in, out)
	code := codes.Code(1 + vfChoice(16))
	srv.err = status.Error(code, "m")
	h := http.Header{}
	switch vfChoice(5) {
	case 1:
		h["Content-Type"] = []string{"application/x"}
	case 2:
		h["Content-Type"] = []string{"image/jpeg"}
	case 3:
		h["Content-Type"] = []string{"text/plain; charset=utf-8"}
	case 4:
		h["Content-Type"] = []string{"application/x-www-form-urlencoded"}
	}
	switch vfChoice(3) {
	case 1:
		h["Accept"] = []string{"application/x"}
	case 2:
		h["Accept"] = []string{"text/html"}
	}
	r := &http.Request{Method: "POST", URL: &url.URL{Path: "/aa/zz"}, Header: h, Body: vfNopCloser{&vfWholeReader{data: []byte("b")}}, ContentLength: 1, ProtoMajor: 1, ProtoMinor: 1}
	w := newFakeRW()
	mux.ServeHTTP(w, r)
	vfCheck(w.committed, "no response was produced")
	if srv.calls == 0 {
		// the request itself was refused (no codec for its body): any error status, but a response
		vfCheck(w.status >= 400 && len(w.body) > 0, "a refused request was not answered with an error status and body")
		ct := w.sentHeader["Content-Type"]
		vfCheck(len(ct) == 1 && (ct[0] == "application/x" || ct[0] == "application/json" || ct[0] == "application/protobuf" || ct[0] == "application/octet-stream" || ct[0] == "text/plain; charset=utf-8"), "the error body of a refused request is labelled with a type no codec produces")
		vfCover("request-refused")
		return
	}
	vfCheck(w.status == refHTTPStatus[int(code)], "HTTP status is not the documented status for the handler's code")
	ct := w.sentHeader["Content-Type"]
	// which registered codec renders the error when nothing was negotiated is the implementation's
	// choice: any registered type is fine, an unregistered one (the request's own) is not
	registered := len(ct) == 1 && (ct[0] == "application/x" || ct[0] == "application/json" || ct[0] == "application/protobuf" || ct[0] == "application/octet-stream")
	vfCheck(registered, "the error body is labelled with a type no registered codec produces")
	vfCheck(len(w.body) > 0, "the error response has no body")
	if len(ct) == 1 && ct[0] == "application/x" {
		vfCheck(len(rec.statuses) >= 1 && codes.Code(rec.statuses[len(rec.statuses)-1].Code) == code && rec.statuses[len(rec.statuses)-1].Message == "m", "google.rpc.Status body does not carry the handler's code and message")
	}
	vfCover("handler-failed")
}
