package larking

import (
	"net/http"
	"net/url"
)

func init() {
	vfHarnesses["VerifH_server_prefix"] = VerifH_server_prefix
}

type vfMarkerHandler struct{ hits []string }

func (h *vfMarkerHandler) ServeHTTP(w http.ResponseWriter, r *http.Request) {
	h.hits = append(h.hits, r.URL.Path)
	w.WriteHeader(299)
	w.Write([]byte("STATIC"))
}

func vfSameResponse(a, b *fakeRW) bool {
	if a.status != b.status || !vfBytesEq(a.body, b.body) || len(a.sentHeader) != len(b.sentHeader) {
		return false
	}
	for k, va := range a.sentHeader {
		vb := b.sentHeader[k]
		if len(va) != len(vb) {
			return false
		}
		for i := range va {
			if va[i] != vb[i] {
				return false
			}
		}
	}
	return true
}

// VerifH_server_prefix (C20): NewServer with MuxHandleOption / HTTPHandlerOption (the real
// net/http.ServeMux, http.StripPrefix and the h2c wrapper interpreted): a request to prefix+path is
// answered exactly (status, headers, body, handler invocations) as the bare mux answers path, for
// the transcoding, Twirp-style error, gRPC and gRPC-web entries; a path outside every prefix does
// not reach the mux; a handler added with HTTPHandlerOption keeps receiving its own pattern.
func VerifH_server_prefix() {
	build := func() (*Mux, *vfServer) {
		mux, srv, _ := vfMuxAllFake()
		return mux, srv
	}
	mounted, msrv := build()
	bare, bsrv := build()
	marker := &vfMarkerHandler{}
	var opts []ServerOption
	var prefixes []string
	switch vfChoice(4) {
	case 0:
		prefixes = []string{""} // default: the mux serves "/"
		vfCover("default-mount")
	case 1:
		opts = append(opts, MuxHandleOption("/api/"))
		prefixes = []string{"/api"}
	case 2:
		opts = append(opts, MuxHandleOption("/api", "/v2/x/"))
		prefixes = []string{"/api", "/v2/x"}
		vfCover("two-prefixes")
	default:
		opts = append(opts, MuxHandleOption("/"))
		prefixes = []string{""}
	}
	marker2 := &vfMarkerHandler{}
	// with extra handlers on disjoint patterns, or with the mux alone (then nothing but the mount
	// patterns is served)
	extra := vfBool()
	if extra {
		opts = append(opts, HTTPHandlerOption("/static/", marker), HTTPHandlerOption("/assets/", marker2))
	} else {
		vfCover("mux-alone")
	}
	hs, err := NewServer(mounted, opts...)
	if err != nil {
		vfFail("NewServer failed: " + err.Error())
	}
	prefix := prefixes[vfChoice(len(prefixes))]

	// the request, as path under the prefix
	var method, path, ct, query string
	major := 1
	var body []byte
	fail, twirp := false, false
	switch vfChoice(5) {
	case 0:
		seg := vfPlainString(2)
		vfAssume(seg != "." && seg != "..") // net/http.ServeMux redirects unclean paths before any handler sees them: unspecified
		method, path, ct = "POST", "/aa/"+seg, "application/x"
		body = []byte("b")
		if vfBool() {
			query = "g=" + vfPlainString(2) // the query string belongs to the request, whatever the mount prefix
			vfCover("query")
		}
		vfCover("transcoding")
	case 1:
		method, path, ct = "POST", "/aa/zz", "application/x"
		fail = true // the handler fails: error rendering must be the same as well
		twirp = vfBool()
		if twirp {
			vfCover("twirp-error")
		} else {
			vfCover("error")
		}
	case 2:
		method, path, ct, major = "POST", "/vf.S/M0", "application/grpc+fake", 2
		body = []byte{0, 0, 0, 0, 1, 'p'}
		vfCover("grpc")
	case 3:
		method, path, ct = "POST", "/vf.S/M0", "application/grpc-web+fake"
		body = []byte{0, 0, 0, 0, 1, 'p'}
		vfCover("grpc-web")
	default:
		seg := vfPlainString(2)
		vfAssume(seg != "." && seg != "..")
		method, path, ct = "GET", "/nope/"+seg, "application/x"
		vfCover("unrouted")
	}
	if fail {
		msrv.err = errVfCodec
		bsrv.err = errVfCodec
	}
	mk := func(p string) *http.Request {
		r := &http.Request{Method: method, URL: &url.URL{Path: p, RawQuery: query}, Host: "h", RequestURI: p,
			Header: http.Header{"Content-Type": []string{ct}, "Accept": []string{"application/x"}},
			Body:   vfNopCloser{&vfWholeReader{data: body}}, ContentLength: int64(len(body)), ProtoMajor: major, ProtoMinor: 1}
		if twirp {
			r.Header["Twirp-Version"] = []string{"v7"}
		}
		return r
	}
	w1, w2 := newFakeRW(), newFakeRW()
	hs.Handler.ServeHTTP(w1, mk(prefix+path))
	w1.finish()
	bare.ServeHTTP(w2, mk(path))
	w2.finish()
	vfCheck(vfSameResponse(w1, w2), "a request under a mount prefix is not answered exactly as the bare mux answers the path")
	vfCheck(msrv.calls == bsrv.calls, "a request under a mount prefix does not reach the handler as it does on the bare mux")
	if msrv.calls == 1 && bsrv.calls == 1 && len(msrv.got) == 1 && len(bsrv.got) == 1 {
		vfCheck(msrv.got[0].str("f") == bsrv.got[0].str("f"), "path variables captured under a mount prefix differ from the bare mux")
		vfCheck(msrv.got[0].str("g") == bsrv.got[0].str("g"), "query parameters under a mount prefix differ from the bare mux")
	}
	vfCheck(len(marker.hits) == 0, "a request under the mux's prefix reached another handler")

	// outside every prefix: not served by the mux
	if prefix != "" {
		w3 := newFakeRW()
		calls := msrv.calls
		hs.Handler.ServeHTTP(w3, mk("/other"+path))
		w3.finish()
		vfCheck(msrv.calls == calls && w3.status == 404, "a path outside every mount prefix was served by the mux")
		vfCover("outside-prefix")
	}
	if !extra {
		// nothing else is mounted: what would be another handler's pattern is not the mux's either
		if prefix != "" {
			w6 := newFakeRW()
			calls := msrv.calls
			r6 := mk("/static/file")
			r6.Method = "GET"
			hs.Handler.ServeHTTP(w6, r6)
			w6.finish()
			vfCheck(msrv.calls == calls && w6.status == 404, "a path outside every mount prefix was served by the mux")
		}
		return
	}
	// the extra handler keeps its pattern
	w4 := newFakeRW()
	r4 := mk("/static/file")
	r4.Method = "GET"
	hs.Handler.ServeHTTP(w4, r4)
	vfCheck(len(marker.hits) == 1 && marker.hits[0] == "/static/file" && w4.status == 299, "a handler added with HTTPHandlerOption does not receive its own pattern")
	w5 := newFakeRW()
	r5 := mk("/assets/a.css")
	r5.Method = "GET"
	hs.Handler.ServeHTTP(w5, r5)
	vfCheck(len(marker2.hits) == 1 && marker2.hits[0] == "/assets/a.css" && w5.status == 299 && len(marker.hits) == 1, "with several HTTPHandlerOption handlers one of them does not receive its own pattern")
}
