package larking

// Plain-Go fakes for the protobuf reflection interfaces larking consumes (DESIGN §3.3). They embed
// the protoreflect interfaces (nil) and override exactly the methods larking calls, so the real
// addRule / match / parseParam / params.set run unchanged, natively and under the engine.

import (
	"context"
	"errors"
	"io"

	spb "google.golang.org/genproto/googleapis/rpc/status"
	"google.golang.org/grpc/stats"

	"google.golang.org/protobuf/proto"
	"google.golang.org/protobuf/reflect/protoreflect"
	"google.golang.org/protobuf/runtime/protoiface"
)

type fakeED struct {
	protoreflect.EnumDescriptor
	full   string
	values []string // value i has number i
}

type fakeEVs struct {
	protoreflect.EnumValueDescriptors
	ed *fakeED
}

type fakeEV struct {
	protoreflect.EnumValueDescriptor
	name string
	num  int32
}

func (e *fakeED) FullName() protoreflect.FullName           { return protoreflect.FullName(e.full) }
func (e *fakeED) Values() protoreflect.EnumValueDescriptors { return &fakeEVs{ed: e} }
func (v *fakeEVs) ByName(n protoreflect.Name) protoreflect.EnumValueDescriptor {
	for i, s := range v.ed.values {
		if s == string(n) {
			return &fakeEV{name: s, num: int32(i)}
		}
	}
	return nil
}
func (v *fakeEVs) ByNumber(n protoreflect.EnumNumber) protoreflect.EnumValueDescriptor {
	if n < 0 || int(n) >= len(v.ed.values) {
		return nil
	}
	return &fakeEV{name: v.ed.values[int(n)], num: int32(n)}
}
func (v *fakeEV) Number() protoreflect.EnumNumber { return protoreflect.EnumNumber(v.num) }
func (v *fakeEV) Name() protoreflect.Name         { return protoreflect.Name(v.name) }

type fakeFD struct {
	protoreflect.FieldDescriptor
	name   string
	json   string
	kind   protoreflect.Kind
	list   bool
	isMap  bool
	msg    *fakeMD
	enum   *fakeED
	num    int
	oneof  *fakeOneof // the oneof this field is a member of (nil: none)
	parent *fakeMD
}

func (f *fakeFD) Name() protoreflect.Name          { return protoreflect.Name(f.name) }
func (f *fakeFD) JSONName() string                 { return f.json }
func (f *fakeFD) Kind() protoreflect.Kind          { return f.kind }
func (f *fakeFD) IsList() bool                     { return f.list }
func (f *fakeFD) IsMap() bool                      { return f.isMap }
func (f *fakeFD) Number() protoreflect.FieldNumber { return protoreflect.FieldNumber(f.num) }
func (f *fakeFD) FullName() protoreflect.FullName {
	return protoreflect.FullName(f.parent.full + "." + f.name)
}
func (f *fakeFD) Parent() protoreflect.Descriptor                   { return f.parent }
func (f *fakeFD) ContainingMessage() protoreflect.MessageDescriptor { return f.parent }
func (f *fakeFD) ContainingOneof() protoreflect.OneofDescriptor {
	if f.oneof == nil {
		return nil
	}
	return f.oneof
}
func (f *fakeFD) IsExtension() bool           { return false }
func (f *fakeFD) IsWeak() bool                { return false }
func (f *fakeFD) IsPacked() bool              { return false }
func (f *fakeFD) IsPlaceholder() bool         { return false }
func (f *fakeFD) HasJSONName() bool           { return f.json != f.name }
func (f *fakeFD) HasOptionalKeyword() bool    { return false }
func (f *fakeFD) HasPresence() bool           { return f.kind == protoreflect.MessageKind && !f.list && !f.isMap }
func (f *fakeFD) HasDefault() bool            { return false }
func (f *fakeFD) TextName() string            { return f.name }
func (f *fakeFD) Index() int                  { return f.num - 1 }
func (f *fakeFD) Syntax() protoreflect.Syntax { return protoreflect.Proto3 }
func (f *fakeFD) Cardinality() protoreflect.Cardinality {
	if f.list || f.isMap {
		return protoreflect.Repeated
	}
	return protoreflect.Optional
}
func (f *fakeFD) Default() protoreflect.Value {
	switch f.kind {
	case protoreflect.StringKind:
		return protoreflect.ValueOfString("")
	case protoreflect.BytesKind:
		return protoreflect.ValueOfBytes(nil)
	case protoreflect.Int32Kind:
		return protoreflect.ValueOfInt32(0)
	case protoreflect.EnumKind:
		return protoreflect.ValueOfEnum(0)
	case protoreflect.BoolKind:
		return protoreflect.ValueOfBool(false)
	}
	return protoreflect.Value{}
}
func (f *fakeFD) Message() protoreflect.MessageDescriptor {
	if f.msg == nil {
		return nil
	}
	return f.msg
}
func (f *fakeFD) Enum() protoreflect.EnumDescriptor {
	if f.enum == nil {
		return nil
	}
	return f.enum
}

type fakeFields struct {
	protoreflect.FieldDescriptors
	list []*fakeFD
}

func (fs *fakeFields) Len() int                               { return len(fs.list) }
func (fs *fakeFields) Get(i int) protoreflect.FieldDescriptor { return fs.list[i] }
func (fs *fakeFields) ByName(n protoreflect.Name) protoreflect.FieldDescriptor {
	for _, f := range fs.list {
		if f.name == string(n) {
			return f
		}
	}
	return nil
}
func (fs *fakeFields) ByNumber(n protoreflect.FieldNumber) protoreflect.FieldDescriptor {
	for _, f := range fs.list {
		if f.num == int(n) {
			return f
		}
	}
	return nil
}
func (fs *fakeFields) ByTextName(n string) protoreflect.FieldDescriptor {
	return fs.ByName(protoreflect.Name(n))
}
func (fs *fakeFields) ByJSONName(n string) protoreflect.FieldDescriptor {
	for _, f := range fs.list {
		if f.json == n {
			return f
		}
	}
	return nil
}

type fakeMD struct {
	protoreflect.MessageDescriptor
	full   string
	fields *fakeFields
}

func (m *fakeMD) FullName() protoreflect.FullName       { return protoreflect.FullName(m.full) }
func (m *fakeMD) Fields() protoreflect.FieldDescriptors { return m.fields }
func (m *fakeMD) IsMapEntry() bool                      { return false }
func (m *fakeMD) IsPlaceholder() bool                   { return false }
func (m *fakeMD) Syntax() protoreflect.Syntax           { return protoreflect.Proto3 }
func (m *fakeMD) Name() protoreflect.Name {
	s := m.full
	for i := len(s) - 1; i >= 0; i-- {
		if s[i] == '.' {
			return protoreflect.Name(s[i+1:])
		}
	}
	return protoreflect.Name(s)
}

func newFakeMD(full string, fields ...*fakeFD) *fakeMD {
	md := &fakeMD{full: full, fields: &fakeFields{list: fields}}
	for i, f := range fields {
		f.parent = md
		if f.num == 0 {
			f.num = i + 1
		}
		if f.json == "" {
			f.json = f.name
		}
	}
	return md
}

type fakeMethod struct {
	protoreflect.MethodDescriptor
	full string // pkg.Svc.Method
	in   *fakeMD
	out  *fakeMD
	cs   bool
	ss   bool
	opts proto.Message
}

func (m *fakeMethod) FullName() protoreflect.FullName        { return protoreflect.FullName(m.full) }
func (m *fakeMethod) Input() protoreflect.MessageDescriptor  { return m.in }
func (m *fakeMethod) Output() protoreflect.MessageDescriptor { return m.out }
func (m *fakeMethod) IsStreamingClient() bool                { return m.cs }
func (m *fakeMethod) IsStreamingServer() bool                { return m.ss }
func (m *fakeMethod) Options() protoreflect.ProtoMessage     { return m.opts }
func (m *fakeMethod) Name() protoreflect.Name {
	s := m.full
	for i := len(s) - 1; i >= 0; i-- {
		if s[i] == '.' {
			return protoreflect.Name(s[i+1:])
		}
	}
	return protoreflect.Name(s)
}

// ---------------------------------------------------------------------------------------------
// Schemas (DESIGN §3.3).

func strField(name string) *fakeFD { return &fakeFD{name: name, kind: protoreflect.StringKind} }

// schemaRoute: the request type of the routing harnesses. String fields f, g and a nested message
// h{k string}.
func schemaRoute() *fakeMD {
	sub := newFakeMD("vf.Sub", strField("k"), strField("c"))
	return newFakeMD("vf.Req",
		strField("f"), strField("g"),
		&fakeFD{name: "h", kind: protoreflect.MessageKind, msg: sub},
		&fakeFD{name: "i", kind: protoreflect.Int32Kind},
	)
}

// schemaTyped: schemaRoute's fields plus a field whose JSON name differs from its proto name and
// a bool, for the typed path-variable harness.
func schemaTyped() *fakeMD {
	sub := newFakeMD("vf.Sub", strField("k"), strField("c"))
	return newFakeMD("vf.ReqT",
		strField("f"), strField("g"),
		&fakeFD{name: "h", kind: protoreflect.MessageKind, msg: sub},
		&fakeFD{name: "i", kind: protoreflect.Int32Kind},
		&fakeFD{name: "long_name", json: "longName", kind: protoreflect.StringKind},
		&fakeFD{name: "bo", kind: protoreflect.BoolKind},
		vfOneofMember("o1", 0), vfOneofMember("o2", 1),
		&fakeFD{name: "wi", kind: protoreflect.MessageKind, msg: vfWKTMD("Int32Value")},
		&fakeFD{name: "wm", kind: protoreflect.MessageKind, msg: vfWKTMD("FieldMask")},
	)
}

var vfTypedOneof = &fakeOneof{name: "choice"}

// vfOneofMember returns the idx-th member (a string field) of schemaTyped's oneof "choice"; the
// descriptor objects are rebuilt per schema instance.
func vfOneofMember(name string, idx int) *fakeFD {
	if idx == 0 {
		vfTypedOneof = &fakeOneof{name: "choice"}
	}
	f := &fakeFD{name: name, kind: protoreflect.StringKind, oneof: vfTypedOneof}
	vfTypedOneof.members = append(vfTypedOneof.members, f)
	return f
}

// schemaBody / schemaOut: request and reply types with DIFFERENT field sets, so that a selector
// resolved against the wrong descriptor is visible.
func schemaBody() *fakeMD {
	inner := newFakeMD("vf.Inner", strField("id"), strField("text"))
	return newFakeMD("vf.BodyReq",
		strField("id"),
		&fakeFD{name: "msg", kind: protoreflect.MessageKind, msg: inner},
		strField("note"),
	)
}

func schemaOut() *fakeMD {
	sub := newFakeMD("vf.OutSub", strField("x"))
	return newFakeMD("vf.BodyResp",
		strField("r"),
		&fakeFD{name: "sub", kind: protoreflect.MessageKind, msg: sub},
	)
}

// ---------------------------------------------------------------------------------------------
// Fake message + recording codec + fake compressor.

type fakeList struct {
	protoreflect.List
	items []protoreflect.Value
}

func (l *fakeList) Append(v protoreflect.Value)  { l.items = append(l.items, v) }
func (l *fakeList) Len() int                     { return len(l.items) }
func (l *fakeList) Get(i int) protoreflect.Value { return l.items[i] }

type fakeMsgType struct{ md *fakeMD }

func (t fakeMsgType) New() protoreflect.Message                  { return newFakeMsg(t.md) }
func (t fakeMsgType) Zero() protoreflect.Message                 { return newFakeMsg(t.md) }
func (t fakeMsgType) Descriptor() protoreflect.MessageDescriptor { return t.md }

type fakeNumbers struct{ protoreflect.FieldNumbers }

func (fakeNumbers) Len() int                          { return 0 }
func (fakeNumbers) Has(protoreflect.FieldNumber) bool { return false }

type fakeOneofs struct{ protoreflect.OneofDescriptors }

func (fakeOneofs) Len() int { return 0 }

type fakeRanges struct{ protoreflect.FieldRanges }

func (fakeRanges) Len() int                          { return 0 }
func (fakeRanges) Has(protoreflect.FieldNumber) bool { return false }

func (m *fakeMD) RequiredNumbers() protoreflect.FieldNumbers { return fakeNumbers{} }
func (m *fakeMD) Oneofs() protoreflect.OneofDescriptors      { return fakeOneofs{} }
func (m *fakeMD) ExtensionRanges() protoreflect.FieldRanges  { return fakeRanges{} }
func (m *fakeMD) ReservedRanges() protoreflect.FieldRanges   { return fakeRanges{} }
func (m *fakeMD) Parent() protoreflect.Descriptor            { return nil }
func (m *fakeMD) Index() int                                 { return 0 }

// fakeMsg implements proto.Message and protoreflect.Message over a fakeMD.
type fakeMsg struct {
	protoreflect.Message
	md      *fakeMD
	vals    map[string]protoreflect.Value
	subs    map[string]*fakeMsg
	lists   map[string]*fakeList
	raw     []byte // bytes handed to the recording codec's Unmarshal
	rawSet  int    // number of Unmarshal calls on this message
	payload []byte // bytes the recording codec's Marshal produces for this message
	sets    int    // number of Set calls (routing / query params)
}

func newFakeMsg(md *fakeMD) *fakeMsg {
	return &fakeMsg{md: md, vals: map[string]protoreflect.Value{}, subs: map[string]*fakeMsg{}, lists: map[string]*fakeList{}}
}

func (m *fakeMsg) ProtoReflect() protoreflect.Message         { return m }
func (m *fakeMsg) Interface() protoreflect.ProtoMessage       { return m }
func (m *fakeMsg) Descriptor() protoreflect.MessageDescriptor { return m.md }
func (m *fakeMsg) IsValid() bool                              { return m != nil }

// Has has proto3 semantics: a singular scalar field without presence is populated only when it
// holds a non-zero value (so a field explicitly set to its zero value reads as not populated).
func (m *fakeMsg) Has(fd protoreflect.FieldDescriptor) bool {
	n := string(fd.Name())
	v, a := m.vals[n]
	_, b := m.subs[n]
	_, c := m.lists[n]
	if a {
		if f, ok := fd.(*fakeFD); ok && f.oneof != nil {
			return true // members of a oneof have presence
		}
		switch fd.Kind() {
		case protoreflect.StringKind:
			return v.String() != ""
		case protoreflect.BytesKind:
			return len(v.Bytes()) != 0
		case protoreflect.BoolKind:
			return v.Bool()
		case protoreflect.EnumKind:
			return v.Enum() != 0
		case protoreflect.Int32Kind, protoreflect.Int64Kind, protoreflect.Sint32Kind, protoreflect.Sint64Kind, protoreflect.Sfixed32Kind, protoreflect.Sfixed64Kind:
			return v.Int() != 0
		case protoreflect.Uint32Kind, protoreflect.Uint64Kind, protoreflect.Fixed32Kind, protoreflect.Fixed64Kind:
			return v.Uint() != 0
		case protoreflect.FloatKind, protoreflect.DoubleKind:
			return v.Float() != 0
		}
		return true
	}
	return b || c
}

// own panics like dynamicpb / generated messages when fd belongs to another message descriptor.
func (m *fakeMsg) own(fd protoreflect.FieldDescriptor) {
	if f, ok := fd.(*fakeFD); !ok || f.parent != m.md {
		panic(string(fd.FullName()) + ": field descriptor does not belong to this message")
	}
}

func (m *fakeMsg) Reset() {
	m.vals, m.subs, m.lists = map[string]protoreflect.Value{}, map[string]*fakeMsg{}, map[string]*fakeList{}
	m.raw = nil
}
func (m *fakeMsg) Clear(fd protoreflect.FieldDescriptor) {
	m.own(fd)
	n := string(fd.Name())
	delete(m.vals, n)
	delete(m.subs, n)
	delete(m.lists, n)
}
func (m *fakeMsg) Range(f func(protoreflect.FieldDescriptor, protoreflect.Value) bool) {
	for _, fd := range m.md.fields.list {
		if m.Has(fd) && !f(fd, m.Get(fd)) {
			return
		}
	}
}
func (m *fakeMsg) ProtoMethods() *protoiface.Methods { return nil }
func (m *fakeMsg) Type() protoreflect.MessageType    { return fakeMsgType{m.md} }
func (m *fakeMsg) NewField(fd protoreflect.FieldDescriptor) protoreflect.Value {
	f := fd.(*fakeFD)
	switch {
	case f.list:
		return protoreflect.ValueOfList(&fakeList{})
	case f.isMap:
		return protoreflect.ValueOfMap(&fakeMap{})
	case f.msg != nil:
		return protoreflect.ValueOfMessage(newFakeMsg(f.msg))
	}
	return f.Default()
}
func (m *fakeMsg) GetUnknown() protoreflect.RawFields { return nil }
func (m *fakeMsg) SetUnknown(protoreflect.RawFields)  {}
func (m *fakeMsg) New() protoreflect.Message          { return newFakeMsg(m.md) }
func (m *fakeMsg) WhichOneof(od protoreflect.OneofDescriptor) protoreflect.FieldDescriptor {
	o, ok := od.(*fakeOneof)
	if !ok {
		return nil
	}
	for _, f := range o.members {
		if _, set := m.vals[f.name]; set {
			return f
		}
	}
	return nil
}

// fakeOneof: a real (non-synthetic) oneof; a member of a oneof has presence and setting it clears
// its siblings.
type fakeOneof struct {
	protoreflect.OneofDescriptor
	name    string
	members []*fakeFD
}

func (o *fakeOneof) Name() protoreflect.Name { return protoreflect.Name(o.name) }
func (o *fakeOneof) IsSynthetic() bool       { return false }

func (m *fakeMsg) Set(fd protoreflect.FieldDescriptor, v protoreflect.Value) {
	m.own(fd)
	m.sets++
	f := fd.(*fakeFD)
	if f.oneof != nil {
		for _, sib := range f.oneof.members {
			delete(m.vals, sib.name)
		}
	}
	switch {
	case f.list:
		if l, ok := v.List().(*fakeList); ok {
			m.lists[f.name] = l
			return
		}
	case f.msg != nil && !f.isMap:
		if sub, ok := v.Message().(*fakeMsg); ok {
			m.subs[f.name] = sub
			return
		}
	}
	m.vals[f.name] = v
}
func (m *fakeMsg) Get(fd protoreflect.FieldDescriptor) protoreflect.Value {
	m.own(fd)
	n := string(fd.Name())
	if v, ok := m.vals[n]; ok {
		return v
	}
	if s, ok := m.subs[n]; ok {
		return protoreflect.ValueOfMessage(s)
	}
	if fd.(*fakeFD).list {
		if l, ok := m.lists[n]; ok {
			return protoreflect.ValueOfList(l)
		}
		return protoreflect.ValueOfList(&fakeList{})
	}
	return fd.(*fakeFD).Default()
}

type fakeMap struct{ protoreflect.Map }

func (m *fakeMsg) Mutable(fd protoreflect.FieldDescriptor) protoreflect.Value {
	m.own(fd)
	f := fd.(*fakeFD)
	n := f.name
	if f.isMap {
		return protoreflect.ValueOfMap(&fakeMap{})
	}
	if f.list {
		l, ok := m.lists[n]
		if !ok {
			l = &fakeList{}
			m.lists[n] = l
		}
		return protoreflect.ValueOfList(l)
	}
	if f.msg == nil {
		panic("verif fake: Mutable on a scalar field " + n)
	}
	if v, ok := m.vals[n]; ok {
		return v // a real (generated) message stored by Set: natively the well-known types
	}
	s, ok := m.subs[n]
	if !ok {
		s = newFakeMsg(f.msg)
		m.subs[n] = s
	}
	return protoreflect.ValueOfMessage(s)
}

func (m *fakeMsg) str(name string) string {
	if v, ok := m.vals[name]; ok {
		return v.String()
	}
	return ""
}

// fakeCodec records what it is asked to decode and produces the message's preset payload.
type fakeCodec struct {
	name      string
	unmarshal [][]byte // every payload handed to Unmarshal, in order
	marshals  int
	failNext  bool
	statuses  []*spb.Status     // google.rpc.Status messages handed to Marshal (error bodies)
	bodySets  map[string]string // fields the decoded body sets (models body content)
	bodyInts  map[string]int32  // int32 fields the decoded body sets
}

var errVfCodec = errors.New("verif: injected codec failure")

func (c *fakeCodec) Name() string { return c.name }
func (c *fakeCodec) Marshal(v interface{}) ([]byte, error) {
	return c.MarshalAppend(nil, v)
}
func (c *fakeCodec) MarshalAppend(b []byte, v interface{}) ([]byte, error) {
	c.marshals++
	if st, ok := v.(*spb.Status); ok {
		c.statuses = append(c.statuses, st)
		return append(b, "STATUS"...), nil
	}
	m, ok := v.(*fakeMsg)
	if !ok {
		return nil, errVfCodec
	}
	return append(b, m.payload...), nil
}
func (c *fakeCodec) Unmarshal(data []byte, v interface{}) error {
	cp := make([]byte, len(data))
	copy(cp, data)
	c.unmarshal = append(c.unmarshal, cp)
	if c.failNext {
		return errVfCodec
	}
	if m, ok := v.(*fakeMsg); ok {
		m.raw = cp
		m.rawSet++
		for k, val := range c.bodySets {
			m.vals[k] = protoreflect.ValueOfString(val)
		}
		for k, val := range c.bodyInts {
			m.vals[k] = protoreflect.ValueOfInt32(val)
		}
	}
	return nil
}

// fakeStreamCodec adds the framing of a real stream codec to the recording codec.
type fakeStreamCodec struct {
	*fakeCodec
	framing StreamCodec
}

func (c fakeStreamCodec) ReadNext(b []byte, r io.Reader, limit int) ([]byte, int, error) {
	return c.framing.ReadNext(b, r, limit)
}
func (c fakeStreamCodec) WriteNext(w io.Writer, b []byte) (int, error) {
	return c.framing.WriteNext(w, b)
}

// fakeCompressor "decompresses" to preset bytes of any length: gzip itself is outside every claim,
// its documented contract (output length unrelated to input length) is what matters for limits.
type fakeCompressor struct {
	out       []byte // what Decompress yields
	compCalls int
}

type vfNopWriteCloser struct{ w io.Writer }

func (n vfNopWriteCloser) Write(p []byte) (int, error) { return n.w.Write(p) }
func (n vfNopWriteCloser) Close() error                { return nil }

func (c *fakeCompressor) Name() string { return "fake" }
func (c *fakeCompressor) Compress(w io.Writer) (io.WriteCloser, error) {
	c.compCalls++
	return vfNopWriteCloser{w}, nil
}
func (c *fakeCompressor) Decompress(r io.Reader) (io.Reader, error) {
	return &vfWholeReader{data: c.out}, nil
}

// fakeStats records the stats events of an RPC.
type fakeStats struct {
	events []string
	inLen  []int
	outLen []int
	endErr error
	ends   int
}

func (s *fakeStats) TagRPC(ctx context.Context, info *stats.RPCTagInfo) context.Context {
	s.events = append(s.events, "tag")
	return ctx
}
func (s *fakeStats) TagConn(ctx context.Context, info *stats.ConnTagInfo) context.Context { return ctx }
func (s *fakeStats) HandleConn(context.Context, stats.ConnStats)                          {}
func (s *fakeStats) HandleRPC(ctx context.Context, st stats.RPCStats) {
	switch e := st.(type) {
	case *stats.InHeader:
		s.events = append(s.events, "inheader")
	case *stats.Begin:
		s.events = append(s.events, "begin")
	case *stats.InPayload:
		s.events = append(s.events, "inpayload")
		s.inLen = append(s.inLen, e.Length)
	case *stats.OutHeader:
		s.events = append(s.events, "outheader")
	case *stats.OutPayload:
		s.events = append(s.events, "outpayload")
		s.outLen = append(s.outLen, e.Length)
	case *stats.OutTrailer:
		s.events = append(s.events, "outtrailer")
	case *stats.End:
		s.events = append(s.events, "end")
		s.endErr = e.Error
		s.ends++
	}
}

// schemaParams: every field shape larking's URL-parameter code distinguishes.
func schemaParams() *fakeMD {
	sub := newFakeMD("vf.PSub", strField("c"))
	en := &fakeED{full: "vf.Color", values: []string{"ZERO", "ONE", "TWO"}}
	return newFakeMD("vf.PReq",
		strField("a"),
		&fakeFD{name: "n", kind: protoreflect.BytesKind},
		&fakeFD{name: "e", kind: protoreflect.EnumKind, enum: en},
		&fakeFD{name: "list", kind: protoreflect.StringKind, list: true},
		&fakeFD{name: "sub", kind: protoreflect.MessageKind, msg: sub},
		&fakeFD{name: "subs", kind: protoreflect.MessageKind, msg: sub, list: true},
		&fakeFD{name: "mp", kind: protoreflect.MessageKind, msg: sub, isMap: true},
		&fakeFD{name: "long_name", json: "longName", kind: protoreflect.StringKind},
		&fakeFD{name: "i", kind: protoreflect.Int32Kind},
		&fakeFD{name: "bo", kind: protoreflect.BoolKind},
		&fakeFD{name: "l", kind: protoreflect.Int64Kind},
		&fakeFD{name: "u", kind: protoreflect.Uint32Kind},
		&fakeFD{name: "fl", kind: protoreflect.FloatKind},
		&fakeFD{name: "db", kind: protoreflect.DoubleKind},
	)
}
