package larking

// Fake file / service descriptors registered in a REAL protoregistry.Files (pure Go, interpreted by
// the engine), a model of http.ResponseWriter, and a fake generated service, so that the real
// NewMux / registerService / ServeHTTP run unchanged.

import (
	"context"
	"errors"
	"net/http"
	"strings"

	"google.golang.org/genproto/googleapis/api/annotations"
	"google.golang.org/grpc"
	"google.golang.org/grpc/metadata"
	"google.golang.org/protobuf/reflect/protoreflect"
	"google.golang.org/protobuf/reflect/protoregistry"
)

// ---- method options carrying a google.api.http annotation ------------------------------------

// fakeOpts stands for descriptorpb.MethodOptions with the google.api.http extension set to rule.
// Natively proto.GetExtension reads it through ProtoReflect().Get(); under the engine
// getExtensionHTTP is answered from the rule field directly (stub contract of DESIGN §2.7).
type fakeOpts struct {
	rule *annotations.HttpRule
}

type fakeOptsRefl struct {
	protoreflect.Message
	o *fakeOpts
}

func (o *fakeOpts) ProtoReflect() protoreflect.Message { return &fakeOptsRefl{o: o} }
func (r *fakeOptsRefl) IsValid() bool                  { return true }
func (r *fakeOptsRefl) Get(fd protoreflect.FieldDescriptor) protoreflect.Value {
	return protoreflect.ValueOfMessage(r.o.rule.ProtoReflect())
}

// ---- descriptor lists -------------------------------------------------------------------------

type fakeEnumList struct{ protoreflect.EnumDescriptors }

func (fakeEnumList) Len() int { return 0 }

type fakeExtList struct {
	protoreflect.ExtensionDescriptors
}

func (fakeExtList) Len() int { return 0 }

type fakeMsgList struct {
	protoreflect.MessageDescriptors
	list []*fakeMD
}

func (l *fakeMsgList) Len() int                                 { return len(l.list) }
func (l *fakeMsgList) Get(i int) protoreflect.MessageDescriptor { return l.list[i] }

type fakeMethodList struct {
	protoreflect.MethodDescriptors
	list []*fakeMethod
}

func (l *fakeMethodList) Len() int                                { return len(l.list) }
func (l *fakeMethodList) Get(i int) protoreflect.MethodDescriptor { return l.list[i] }
func (l *fakeMethodList) ByName(n protoreflect.Name) protoreflect.MethodDescriptor {
	for _, m := range l.list {
		if m.Name() == n {
			return m
		}
	}
	return nil
}

type fakeSvc struct {
	protoreflect.ServiceDescriptor
	full    string
	methods *fakeMethodList
}

func (s *fakeSvc) FullName() protoreflect.FullName         { return protoreflect.FullName(s.full) }
func (s *fakeSvc) Methods() protoreflect.MethodDescriptors { return s.methods }
func (s *fakeSvc) Name() protoreflect.Name {
	return protoreflect.Name(s.full[strings.LastIndexByte(s.full, '.')+1:])
}

type fakeSvcList struct {
	protoreflect.ServiceDescriptors
	list []*fakeSvc
}

func (l *fakeSvcList) Len() int                                 { return len(l.list) }
func (l *fakeSvcList) Get(i int) protoreflect.ServiceDescriptor { return l.list[i] }

type fakeFile struct {
	protoreflect.FileDescriptor
	path string
	pkg  string
	svcs *fakeSvcList
	msgs *fakeMsgList
}

func (f *fakeFile) Path() string                                  { return f.path }
func (f *fakeFile) Package() protoreflect.FullName                { return protoreflect.FullName(f.pkg) }
func (f *fakeFile) Enums() protoreflect.EnumDescriptors           { return fakeEnumList{} }
func (f *fakeFile) Extensions() protoreflect.ExtensionDescriptors { return fakeExtList{} }
func (f *fakeFile) Messages() protoreflect.MessageDescriptors     { return f.msgs }
func (f *fakeFile) Services() protoreflect.ServiceDescriptors     { return f.svcs }

// vfRegistry registers the services in a fresh real protoregistry.Files.
func vfRegistry(svcs ...*fakeSvc) *protoregistry.Files {
	files := new(protoregistry.Files)
	for i, s := range svcs {
		f := &fakeFile{path: s.full + ".proto", pkg: "vf", svcs: &fakeSvcList{list: []*fakeSvc{s}}, msgs: &fakeMsgList{}}
		if err := files.RegisterFile(f); err != nil {
			panic("verif: RegisterFile: " + err.Error())
		}
		_ = i
	}
	return files
}

// ---- http.ResponseWriter model (DESIGN Appendix C.5) ------------------------------------------

type fakeRW struct {
	h           http.Header
	committed   bool
	status      int
	sentHeader  http.Header // snapshot at commit
	announced   []string    // trailer keys announced at commit
	body        []byte
	superfluous int // WriteHeader calls after commit
	flushes     int
	// a connection that goes away: after okWrites successful Write calls every further Write fails
	// (okWrites < 0: never); onFail runs at the first failure (net/http cancels the request context)
	okWrites    int
	writes      int
	failedWrite int
	onFail      func()
}

var errVfConnGone = errors.New("verif: connection gone")

func newFakeRW() *fakeRW { return &fakeRW{h: http.Header{}, okWrites: -1} }

func (w *fakeRW) Header() http.Header { return w.h }

func (w *fakeRW) commit(code int) {
	w.committed = true
	w.status = code
	w.sentHeader = http.Header{}
	for k, vs := range w.h {
		if strings.HasPrefix(k, http.TrailerPrefix) {
			continue
		}
		cp := make([]string, len(vs))
		copy(cp, vs)
		w.sentHeader[k] = cp
	}
	for _, v := range w.h["Trailer"] {
		w.announced = append(w.announced, v)
	}
}

func (w *fakeRW) WriteHeader(code int) {
	if w.committed {
		w.superfluous++
		return
	}
	w.commit(code)
}

func (w *fakeRW) Write(p []byte) (int, error) {
	if !w.committed {
		w.commit(200)
	}
	if w.okWrites >= 0 && w.writes >= w.okWrites {
		if w.failedWrite == 0 && w.onFail != nil {
			w.onFail()
		}
		w.failedWrite++
		return 0, errVfConnGone
	}
	w.writes++
	w.body = append(w.body, p...)
	return len(p), nil
}

func (w *fakeRW) Flush() {
	if !w.committed {
		w.commit(200)
	}
	w.flushes++
}

// finish models the handler returning: net/http commits a 200 response if nothing was written.
func (w *fakeRW) finish() {
	if !w.committed {
		w.commit(200)
	}
}

// trailer returns the client-visible value of a trailer key at handler return.
func (w *fakeRW) trailer(key string) ([]string, bool) {
	for _, a := range w.announced {
		if a == key {
			vs, ok := w.h[key]
			return vs, ok
		}
	}
	vs, ok := w.h[http.TrailerPrefix+key]
	return vs, ok
}

// ---- a fake generated service -----------------------------------------------------------------

// vfServer is the application: it records what it receives and replies as scripted.
type vfServer struct {
	in           *fakeMD
	out          *fakeMD
	got          []*fakeMsg // requests received
	reply        *fakeMsg
	err          error
	calls        int
	setHdr       map[string][]string // metadata the handler sets as header
	setTrail     map[string][]string // and as trailer
	setHdr2      map[string][]string // a second SetHeader call
	setTrail2    map[string][]string // a second SetTrailer call
	ctxSeen      context.Context
	sendHdrFirst bool                // call grpc.SendHeader before returning
	sendHdrWith  map[string][]string // ... with these entries in addition
	hook         func(ctx context.Context)
}

func vfCopyMD(in map[string][]string) metadata.MD {
	out := metadata.MD{}
	for k, v := range in {
		out[k] = append([]string(nil), v...)
	}
	return out
}

// vfScribbleMD: what a handler does when it reuses the metadata.MD it has just handed to SetHeader /
// SetTrailer (overwrite, append, add keys).
func vfScribbleMD(md metadata.MD) {
	for k := range md {
		md[k] = []string{"scribbled"}
	}
	md["x-late"] = []string{"late"}
}

func (s *vfServer) unary(ctx context.Context, req *fakeMsg) (interface{}, error) {
	s.calls++
	s.got = append(s.got, req)
	s.ctxSeen = ctx
	if s.hook != nil {
		s.hook(ctx)
	}
	if s.setHdr != nil {
		md := vfCopyMD(s.setHdr)
		grpc.SetHeader(ctx, md)
		vfScribbleMD(md) // the MD stays the caller's: reusing it must not change what was set
	}
	if s.setTrail != nil {
		md := vfCopyMD(s.setTrail)
		grpc.SetTrailer(ctx, md)
		vfScribbleMD(md)
	}
	if s.setHdr2 != nil {
		grpc.SetHeader(ctx, s.setHdr2)
	}
	if s.setTrail2 != nil {
		grpc.SetTrailer(ctx, s.setTrail2)
	}
	if s.sendHdrFirst {
		md := metadata.MD{"x-sent": []string{"1"}}
		for k, v := range s.sendHdrWith {
			md[k] = v
		}
		grpc.SendHeader(ctx, md)
	}
	if s.err != nil {
		return nil, s.err
	}
	return s.reply, nil
}

// vfUnaryHandler has the shape of a protoc-gen-go-grpc unary handler.
func vfUnaryHandler(srv interface{}, ctx context.Context, dec func(interface{}) error, interceptor grpc.UnaryServerInterceptor) (interface{}, error) {
	s := srv.(*vfServer)
	in := newFakeMsg(s.in)
	if err := dec(in); err != nil {
		return nil, err
	}
	if interceptor == nil {
		return s.unary(ctx, in)
	}
	info := &grpc.UnaryServerInfo{Server: srv, FullMethod: "/vf.S/M0"}
	handler := func(ctx context.Context, req interface{}) (interface{}, error) {
		return s.unary(ctx, req.(*fakeMsg))
	}
	return interceptor(ctx, in, info, handler)
}

// vfStreamSrv is a bidirectional-streaming application: it drains the request stream, then sends
// its scripted replies.
type vfStreamSrv struct {
	in      *fakeMD
	got     [][]byte // raw payload of every request message, in order
	recvErr error    // the error that ended the receive loop
	replies []*fakeMsg
	sendErr error
	err     error
	calls   int
	// afterFirstSend runs between the first and the second reply
	afterFirstSend func()
}

func vfStreamHandler(srv interface{}, stream grpc.ServerStream) error {
	s := srv.(*vfStreamSrv)
	s.calls++
	for i := 0; i < 16; i++ {
		m := newFakeMsg(s.in)
		if err := stream.RecvMsg(m); err != nil {
			s.recvErr = err
			break
		}
		s.got = append(s.got, m.raw)
	}
	for i, r := range s.replies {
		if err := stream.SendMsg(r); err != nil {
			s.sendErr = err
			return err
		}
		if i == 0 && s.afterFirstSend != nil {
			s.afterFirstSend()
		}
	}
	return s.err
}
