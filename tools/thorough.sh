#!/bin/bash
export GOFLAGS=-mod=mod GOPROXY=off GOSUMDB=off GOTOOLCHAIN=local
export VERIF_DIR=$PWD
(cd engine && go build -o ../bin/symgo ./cmd/symgo) || exit 2
for p in "$@"; do
  echo "=== $p"; /usr/bin/time -f "%es %MKB" ./bin/symgo check -prop $p -tier thorough 2>&1 | grep "paths=\|INCON\|VIOL\|exit=\|KB" | cut -c1-300
done
