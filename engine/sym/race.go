package sym

import (
	"fmt"
	"go/token"

	"golang.org/x/tools/go/ssa"
)

// Happens-before race detection for the goroutine model (opt-in per harness: vfRaceDetect).
//
// Every simulated goroutine carries a vector clock; synchronisation operations transfer clocks
// (mutex unlock -> lock, atomic operation -> atomic operation on the same cell, channel send / close
// -> receive, WaitGroup Done -> Wait, Once, Pool Put -> Get, go statement -> child). Loads and stores
// executed by SSA instructions (pointer dereferences, map reads / updates) are checked against a
// shadow record of the last write and of the last read per goroutine of the same cell: two accesses
// to one cell by different goroutines, at least one a write, neither ordered before the other, end
// the path as `violation: data race`. Accesses made inside engine intrinsics (copy, append, the
// models of library functions) are not recorded - the detector can miss races, it does not invent
// them as long as every synchronisation primitive in play is one of the modelled ones.

const maxGors = 16

type vclock [maxGors]uint32

func (a *vclock) join(b *vclock) {
	for i := range a {
		if b[i] > a[i] {
			a[i] = b[i]
		}
	}
}

type shadowCell struct {
	wG   int
	wC   uint32
	wPos token.Pos
	wFn  *ssa.Function
	r    [maxGors]uint32
	rPos [maxGors]token.Pos
}

type raceState struct {
	on     bool
	sync   map[interface{}]*vclock
	shadow map[interface{}]*shadowCell
}

func (m *Machine) raceOn() bool { return m.sch.race.on && len(m.sch.gors) > 1 }

func (m *Machine) hbRelease(key interface{}) {
	if !m.sch.race.on {
		return
	}
	cur := m.sch.cur
	vc := m.sch.race.sync[key]
	if vc == nil {
		vc = &vclock{}
		m.sch.race.sync[key] = vc
	}
	vc.join(&cur.vc)
	cur.vc[cur.id]++
}

func (m *Machine) hbAcquire(key interface{}) {
	if !m.sch.race.on {
		return
	}
	if vc := m.sch.race.sync[key]; vc != nil {
		m.sch.cur.vc.join(vc)
	}
}

func (m *Machine) posString(p token.Pos) string {
	if !p.IsValid() {
		return "?"
	}
	pos := m.Prog.SSA.Fset.Position(p)
	return fmt.Sprintf("%s:%d", pos.Filename, pos.Line)
}

// raceAccess records (and checks) an access to the memory p points to.
func (m *Machine) raceAccess(p Value, write bool, pos token.Pos) {
	if !m.raceOn() {
		return
	}
	switch p := p.(type) {
	case *Value:
		if p != nil {
			m.raceCell(p, write, pos, 0)
		}
	case SymRef:
		for i := range p.Cells {
			m.raceCell(&p.Cells[i], write, pos, 0)
		}
	}
}

func (m *Machine) raceCell(p *Value, write bool, pos token.Pos, depth int) {
	switch v := (*p).(type) {
	case Struct:
		if depth < 4 {
			for i := range v {
				m.raceCell(&v[i], write, pos, depth+1)
			}
			return
		}
	case Array:
		if depth < 4 && len(v) <= 64 {
			for i := range v {
				m.raceCell(&v[i], write, pos, depth+1)
			}
			return
		}
	}
	m.raceKey(p, write, pos)
}

func (m *Machine) raceKey(key interface{}, write bool, pos token.Pos) {
	cur := m.sch.cur
	s := m.sch.race.shadow[key]
	if s == nil {
		s = &shadowCell{wG: -1}
		m.sch.race.shadow[key] = s
	}
	if s.wG >= 0 && s.wG != cur.id && s.wC > cur.vc[s.wG] {
		kind := "read"
		if write {
			kind = "write"
		}
		m.abort("violation", fmt.Sprintf("data race: %s at %s (goroutine %d) is not ordered after the write at %s (goroutine %d)\n%s",
			kind, m.posString(pos), cur.id, m.posString(s.wPos), s.wG, m.stackString()))
	}
	if write {
		for g := 0; g < maxGors; g++ {
			if g != cur.id && s.r[g] > cur.vc[g] {
				m.abort("violation", fmt.Sprintf("data race: write at %s (goroutine %d) is not ordered after the read at %s (goroutine %d)\n%s",
					m.posString(pos), cur.id, m.posString(s.rPos[g]), g, m.stackString()))
			}
		}
		s.wG, s.wC, s.wPos = cur.id, cur.vc[cur.id], pos
		s.r = [maxGors]uint32{}
	} else {
		s.r[cur.id] = cur.vc[cur.id]
		s.rPos[cur.id] = pos
	}
}
