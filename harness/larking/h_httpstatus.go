package larking

import (
	"context"
	"net/http"
	"net/url"

	"google.golang.org/grpc"
	"google.golang.org/grpc/codes"
	"google.golang.org/grpc/metadata"
	"google.golang.org/grpc/status"
)

func init() {
	vfHarnesses["VerifH_serveHTTP_status"] = VerifH_serveHTTP_status
}

// VerifH_serveHTTP_status (C05, C18): a failing (or succeeding) unary call over HTTP transcoding and
// Twirp: documented HTTP status, google.rpc.Status body with equal code and message under the
// negotiated type, Twirp name of the code and message, status written once; interceptor and stats
// observe the call once and do not change the outcome.
func VerifH_serveHTTP_status() {
	in := schemaRoute()
	out := newFakeMD("vf.Resp", strField("r"))
	withStats := vfBool()
	withInterceptor := vfBool()
	var st *fakeStats
	ilog := &vfInterceptorLog{}
	var opts []MuxOption
	if withStats {
		st = &fakeStats{}
		opts = append(opts, StatsOption(st))
	}
	if withInterceptor {
		opts = append(opts, UnaryServerInterceptorOption(func(ctx context.Context, req interface{}, info *grpc.UnaryServerInfo, handler grpc.UnaryHandler) (interface{}, error) {
			ilog.calls++
			ilog.method = info.FullMethod
			return handler(ctx, req)
		}))
	}
	mux, srv, rec := vfMuxWith(vfHTTPRule("GET", "/aa/{f}"), in, out, opts...)
	replyBytes := []byte("REPLY")
	if vfBool() {
		replyBytes = nil // a reply that encodes to zero bytes (shorter than any frame header)
		srv.reply.payload = nil
		vfCover("empty-reply")
	}
	fail := vfBool()
	twirp := fail && vfBool()
	var code codes.Code
	var msg string
	if fail {
		code = codes.Code(vfInt(1, 17))
		msg = vfString(vfLen(2))
		if twirp {
			for i := 0; i < len(msg); i++ {
				vfAssume(vfIsJSONPlain(msg[i]))
			}
		}
		srv.err = status.Error(code, msg)
	}
	if vfBool() {
		srv.sendHdrFirst = true // the handler sends its headers explicitly before replying / failing
		if fail {
			vfCover("header-then-error")
		} else {
			vfCover("header-then-reply")
		}
	}
	hv := vfPlainString(2)
	srv.setHdr = metadata.MD{"x-h": []string{hv}, "content-type": []string{"forged/type"}}
	h := http.Header{"Accept": []string{"application/x"}}
	if twirp {
		h["Twirp-Version"] = []string{"v7"}
	}
	r := &http.Request{Method: "GET", URL: &url.URL{Path: "/aa/zz"}, Header: h, Body: vfNopCloser{&vfWholeReader{}}, ProtoMajor: 1, ProtoMinor: 1}
	w := newFakeRW()
	mux.ServeHTTP(w, r)
	vfCheck(w.committed && w.superfluous == 0, "response status not written exactly once")
	vfCheck(srv.calls == 1, "handler not invoked exactly once")
	if !fail || srv.sendHdrFirst {
		// header metadata set by the handler reaches the HTTP client (on success, or once sent explicitly)
		xh := w.sentHeader["X-H"]
		vfCheck(len(xh) == 1 && xh[0] == hv, "header metadata set by the handler did not reach the HTTP client")
		vfCover("http-header-metadata")
	}
	ct := w.sentHeader["Content-Type"]
	if !fail {
		vfCheck(w.status == 200 && vfBytesEq(w.body, replyBytes), "successful call not answered 200 with the marshalled reply")
		vfCheck(len(ct) == 1 && ct[0] == "application/x", "reply not labelled with the negotiated content type")
		vfCover("ok")
	} else {
		want := 500
		if code <= 16 {
			want = refHTTPStatus[vfConc(int(code))]
		}
		vfCheck(w.status == want, "HTTP status is not the documented status for the handler's code")
		if twirp {
			vfCheck(len(ct) == 1 && ct[0] == "application/json", "Twirp error not labelled application/json")
			if code <= 16 {
				wantBody := `{"code":"` + refTwirpCode[vfConc(int(code))] + `","msg":"` + msg + `","meta":null}`
				vfCheck(string(w.body) == wantBody, "Twirp error body does not carry the Twirp name of the code and the message")
			}
			vfCover("twirp")
		} else {
			vfCheck(len(ct) == 1 && ct[0] == "application/x", "error body not labelled with the negotiated content type")
			vfCheck(vfBytesEq(w.body, []byte("STATUS")), "error body is not the marshalled google.rpc.Status")
			vfCheck(len(rec.statuses) == 1, "google.rpc.Status not marshalled exactly once")
			sp := rec.statuses[0]
			vfCheck(codes.Code(sp.Code) == code && sp.Message == msg, "google.rpc.Status body does not carry the handler's code and message")
			vfCover("status-body")
		}
		if code > 16 {
			vfCover("out-of-range-code")
		}
	}
	if withInterceptor {
		vfCheck(ilog.calls == 1 && ilog.method == "/vf.S/M0", "unary interceptor not invoked exactly once with the full method name")
		vfCover("interceptor")
	}
	if withStats {
		n := len(st.events)
		vfCheck(n >= 4 && st.events[0] == "tag" && st.events[1] == "inheader" && st.events[2] == "begin" && st.events[n-1] == "end", "stats event sequence is not tag, in-header, begin, ..., end")
		vfCheck(st.ends == 1, "End stats event not delivered exactly once")
		if fail {
			vfCheck(st.endErr != nil && status.Code(st.endErr) == code, "End stats event does not carry the handler's error")
			vfCheck(len(st.outLen) == 0, "out-payload stats event although no reply was sent")
		} else {
			vfCheck(st.endErr == nil, "End stats event carries an error for a successful call")
			vfCheck(len(st.outLen) == 1 && st.outLen[0] == len(replyBytes), "out-payload stats event missing or with a wrong length")
		}
		vfCover("stats")
	}
}
