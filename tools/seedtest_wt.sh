#!/bin/bash
# usage: seedtest_wt.sh <patch.diff> <prop> [<prop> ...]
# Like seedtest.sh, but on a scratch worktree of /repo's HEAD (VERIF_REPO) with a scratch output
# directory (VERIF_DIR), so several seeds can be tried in parallel and /verif/evidence is not touched.
# ONLY=<harness> restricts the check to one harness. The registered sweep (seedsweep.sh) uses /repo itself.
patch=$(readlink -f "$1"); shift
export GOFLAGS=-mod=mod GOPROXY=off GOSUMDB=off GOTOOLCHAIN=local
wt=$(mktemp -d /tmp/wt-st-XXXX); rmdir $wt
vd=$(mktemp -d /tmp/vd-st-XXXX)
git -C /repo worktree add -q $wt HEAD || exit 2
trap 'cd /; git -C /repo worktree remove --force $wt; rm -rf $vd' EXIT
git -C $wt apply "$patch" || { echo "patch does not apply"; exit 2; }
mkdir -p $vd/evidence $vd/replays; cp /verif/known_findings.json /verif/properties.jsonl $vd/
for p in "$@"; do
  out=$(cd /verif && VERIF_REPO=$wt VERIF_DIR=$vd VERIF_HARNESS=/verif/harness/larking timeout 1500 ./bin/symgo check -prop $p -tier ${TIER:-quick} ${ONLY:+-only $ONLY} 2>&1)
  echo "$out" | grep -m3 "VIOLATION\|harness=" | cut -c1-260
  echo "$out" | grep "INCONCLUSIVE\|WARNING" | head -3 | cut -c1-260
  echo "$out" | grep "exit=" | tail -1
done
