package larking

import (
	"context"
	"hash"

	"google.golang.org/genproto/googleapis/api/annotations"
	"google.golang.org/genproto/googleapis/api/serviceconfig"
	"google.golang.org/grpc"
	"google.golang.org/protobuf/proto"
	"google.golang.org/protobuf/reflect/protoreflect"
	"google.golang.org/protobuf/types/dynamicpb"
)

func init() {
	vfHarnesses["VerifH_registry"] = VerifH_registry
	vfHarnesses["VerifH_registry_snapshot"] = VerifH_registry_snapshot
	vfHarnesses["VerifH_registry_maporder"] = VerifH_registry_maporder
	vfHarnesses["VerifH_config_vs_annotation"] = VerifH_config_vs_annotation
}

// VerifH_registry_snapshot (C12, sequential premise of copy-on-write): a reader holding the
// snapshot published before a writer runs resolves EVERY request (symbolic path) exactly as before
// the writer ran, and a request resolved against the new snapshot never reaches a backend that is
// not registered any more.
func VerifH_registry_snapshot() {
	fa, fb := vfFakeSvc(vfSvcA), vfFakeSvc(vfSvcB)
	mux, err := NewMux(FilesOption(vfRegistry(fa, fb)))
	if err != nil {
		vfFail("NewMux failed")
	}
	sdA := &grpc.ServiceDesc{ServiceName: "vf.A", Methods: []grpc.MethodDesc{{MethodName: "M1", Handler: vfUnaryHandler}, {MethodName: "M2", Handler: vfUnaryHandler}}}
	sdB := &grpc.ServiceDesc{ServiceName: "vf.B", Methods: []grpc.MethodDesc{{MethodName: "M1", Handler: vfUnaryHandler}, {MethodName: "M2", Handler: vfUnaryHandler}}}
	defer vfCloseBackends()
	c1, c2 := vfBackendConn(nil), vfBackendConn(nil)
	// first writer: populate
	switch vfChoice(3) {
	case 0:
		vfCheck(mux.registerService(sdA, &vfServer{}) == nil && mux.registerService(sdB, &vfServer{}) == nil, "setup")
	case 1:
		vfCheck(vfRegisterConn(mux, c2, &vfReflStream{svcs: []vfSvcSpec{vfSvcA2, vfSvcB2}}) == nil, "setup")
	default:
		vfCheck(vfRegisterConn(mux, c1, &vfReflStream{svcs: []vfSvcSpec{vfSvcA}}) == nil && mux.registerService(sdB, &vfServer{}) == nil, "setup")
	}
	old := mux.loadState()
	route := vfRoute(vfBound(6, 8))
	verb := "GET"
	if vfBool() {
		verb = "PUT"
	}
	m1, ps1, e1 := old.match(route, verb)
	n1 := 0
	if e1 == nil {
		n1 = len(old.handlers[m1.name])
	}
	// second writer
	switch vfChoice(6) {
	case 0:
		mux.registerService(sdA, &vfServer{})
	case 1:
		vfRegisterConn(mux, c1, &vfReflStream{svcs: []vfSvcSpec{vfSvcB}})
	case 2:
		mux.DropConn(nil, c1)
	case 3:
		mux.DropConn(nil, c2)
	case 4:
		vfRegisterConn(mux, c2, &vfReflStream{svcs: []vfSvcSpec{vfSvcA}})
	default:
		mux.registerService(&grpc.ServiceDesc{ServiceName: "vf.Nope", Methods: []grpc.MethodDesc{{MethodName: "M1", Handler: vfUnaryHandler}}}, &vfServer{})
	}
	m2, ps2, e2 := old.match(route, verb)
	vfCheck((e1 == nil) == (e2 == nil), "an earlier snapshot resolves a request differently after a writer ran")
	if e1 == nil {
		vfCheck(m1 == m2 && len(ps1) == len(ps2), "an earlier snapshot resolves a request differently after a writer ran")
		vfCheck(len(old.handlers[m1.name]) == n1, "the handler list of an earlier snapshot changed after a writer ran")
		vfCover("dispatched")
	} else {
		vfCover("not-dispatched")
	}
}

// vfFakeFileByName: what protodesc.NewFile yields under the engine for the descriptor named name.
func vfFakeFileByName(name string) protoreflect.FileDescriptor {
	specs := vfSpecsOfFile(name)
	if len(specs) == 0 {
		return nil
	}
	f := &fakeFile{path: name, pkg: "vf", svcs: &fakeSvcList{}, msgs: &fakeMsgList{}}
	for _, sp := range specs {
		f.svcs.list = append(f.svcs.list, vfFakeSvc(sp))
	}
	return f
}

// vfHash: under the engine crypto/sha256.New is replaced by this injective "hash".
type vfHash struct {
	hash.Hash
	buf []byte
}

func (h *vfHash) Write(p []byte) (int, error) { h.buf = append(h.buf, p...); return len(p), nil }
func (h *vfHash) Sum(b []byte) []byte         { return append(b, h.buf...) }
func vfNewHash() hash.Hash                    { return &vfHash{} }

// ---- the history harness --------------------------------------------------------------------------

type vfBackend struct {
	cc   *grpc.ClientConn
	svcs []vfSvcSpec // what it currently exposes ("" = not registered)
	live bool
}

func vfExposes(svcs []vfSvcSpec, method string) bool {
	for _, sp := range svcs {
		if len(method) > len(sp.full)+1 && method[1:1+len(sp.full)] == sp.full && method[1+len(sp.full)] == '/' {
			return true
		}
	}
	return false
}

// vfRegisterConn makes the backend behind cc expose stream.svcs and calls the REAL
// (*Mux).RegisterConn (under the engine its reflection client is answered by the fake conversation,
// natively cc is a live in-process backend with a real reflection service).
func vfRegisterConn(m *Mux, cc *grpc.ClientConn, stream *vfReflStream) error {
	vfBackendSetSpecs(cc, stream.svcs)
	return m.RegisterConn(context.Background(), cc)
}

// VerifH_registry (C11, C12, C16): every history of up to H register / drop operations over a local
// service and two backend connections; after each step the published state is compared with a
// reference model (method -> number of live backends), every live method's route must dispatch,
// dropped backends must be gone, earlier snapshots must be untouched and a failed operation must
// leave the published snapshot pointer-identical.
func VerifH_registry() {
	vfMapOrder(vfChoice(2)) // the code ranges over maps (trie segments, methods): two iteration orders
	fa, fb := vfFakeSvc(vfSvcA), vfFakeSvc(vfSvcB)
	mux, err := NewMux(FilesOption(vfRegistry(fa, fb)))
	if err != nil {
		vfFail("NewMux failed")
	}
	sdA := &grpc.ServiceDesc{ServiceName: "vf.A", Methods: []grpc.MethodDesc{{MethodName: "M1", Handler: vfUnaryHandler}, {MethodName: "M2", Handler: vfUnaryHandler}}}
	sdB := &grpc.ServiceDesc{ServiceName: "vf.B", Methods: []grpc.MethodDesc{{MethodName: "M1", Handler: vfUnaryHandler}, {MethodName: "M2", Handler: vfUnaryHandler}}}
	defer vfCloseBackends()
	c1 := &vfBackend{cc: vfBackendConn(nil)}
	c2 := &vfBackend{cc: vfBackendConn(nil)}
	unknown := new(grpc.ClientConn)
	localA, localB := 0, 0 // number of local registrations
	var dropped [][]*handler
	steps := 1 + vfLen(vfBound(2, 3))
	for step := 0; step < steps; step++ {
		before := mux.loadState()
		fpBefore := vfFingerprint(before)
		var hdBefore [][]*handler
		for _, me := range vfAllMethods {
			var cp []*handler
			if before != nil {
				cp = append(cp, before.handlers[me.name]...)
			}
			hdBefore = append(hdBefore, cp)
		}
		failed := false
		switch vfChoice(9) {
		case 0:
			vfCheck(mux.registerService(sdA, &vfServer{}) == nil, "registering a (further) local backend for service A failed")
			localA++
			vfCover("register-local")
			if localA > 1 {
				vfCover("register-local-twice")
			}
		case 1:
			vfCheck(mux.registerService(sdB, &vfServer{}) == nil, "registering a local backend for service B failed")
			localB++
		case 2: // c1 exposes {A}
			was := c1.live && len(c1.svcs) == 1 && c1.svcs[0].full == "vf.A"
			if c1.live && !was {
				dropped = append(dropped, mux.loadState().conns[c1.cc].handlers)
			}
			vfCheck(vfRegisterConn(mux, c1.cc, &vfReflStream{svcs: []vfSvcSpec{vfSvcA}}) == nil, "RegisterConn failed")
			c1.live, c1.svcs = true, []vfSvcSpec{vfSvcA}
			if was {
				failed = true // unchanged connection: nothing must change (but a new snapshot may be published)
				vfCover("reregister-unchanged")
			}
			vfCover("register-conn")
		case 3: // c1 changes to {B}
			if c1.live && c1.svcs[0].full == "vf.A" {
				vfCover("reregister-changed")
				dropped = append(dropped, mux.loadState().conns[c1.cc].handlers)
			} else if c1.live {
				failed = true // unchanged
			}
			vfCheck(vfRegisterConn(mux, c1.cc, &vfReflStream{svcs: []vfSvcSpec{vfSvcB}}) == nil, "RegisterConn failed")
			c1.live, c1.svcs = true, []vfSvcSpec{vfSvcB}
		case 4: // c2 exposes {A, B}
			if c2.live {
				failed = true
			}
			vfCheck(vfRegisterConn(mux, c2.cc, &vfReflStream{svcs: []vfSvcSpec{vfSvcA2, vfSvcB2}}) == nil, "RegisterConn failed")
			c2.live, c2.svcs = true, []vfSvcSpec{vfSvcA2, vfSvcB2}
		case 5:
			if c1.live {
				dropped = append(dropped, mux.loadState().conns[c1.cc].handlers)
			}
			ok := mux.DropConn(nil, c1.cc)
			vfCheck(ok == c1.live, "DropConn result does not say whether the connection was registered")
			if !c1.live {
				failed = true
			} else {
				vfCover("drop-conn")
			}
			c1.live, c1.svcs = false, nil
		case 6:
			if c2.live {
				dropped = append(dropped, mux.loadState().conns[c2.cc].handlers)
			}
			ok := mux.DropConn(nil, c2.cc)
			vfCheck(ok == c2.live, "DropConn result does not say whether the connection was registered")
			if !c2.live {
				failed = true
			}
			c2.live, c2.svcs = false, nil
		case 7:
			vfCheck(!mux.DropConn(nil, unknown), "dropping an unknown connection reported success")
			failed = true
			vfCover("drop-unknown")
		default: // a registration that must fail: service not in the registry
			bad := &grpc.ServiceDesc{ServiceName: "vf.Nope", Methods: []grpc.MethodDesc{{MethodName: "M1", Handler: vfUnaryHandler}}}
			vfCheck(mux.registerService(bad, &vfServer{}) != nil, "registering an unknown service succeeded")
			vfCheck(mux.loadState() == before, "a failed registration replaced the published snapshot")
			failed = true
			vfCover("failed-registration")
		}
		// C12: the earlier snapshot is untouched by the writer
		vfCheck(vfFingerprint(before) == fpBefore, "a published snapshot was modified by a later registration / removal")
		for mi, me := range vfAllMethods {
			if before == nil {
				break
			}
			now := before.handlers[me.name]
			vfCheck(len(now) == len(hdBefore[mi]), "the handler list of a published snapshot changed length")
			for k := range hdBefore[mi] {
				vfCheck(k < len(now) && now[k] == hdBefore[mi][k], "the handler list of a published snapshot was modified in place by a later writer")
			}
		}
		cur := mux.loadState()
		if failed {
			vfCheck(vfFingerprint(cur) == fpBefore, "an operation that should change nothing changed the routing state")
		}
		// C11: the published state against the reference model
		for _, me := range vfAllMethods {
			want := 0
			if vfExposes([]vfSvcSpec{vfSvcA}, me.name) {
				want += localA
			}
			if vfExposes([]vfSvcSpec{vfSvcB}, me.name) {
				want += localB
			}
			if c1.live && vfExposes(c1.svcs, me.name) {
				want++
			}
			if c2.live && vfExposes(c2.svcs, me.name) {
				want++
			}
			var hds []*handler
			if cur != nil {
				hds = cur.handlers[me.name]
			}
			vfCheck(len(hds) == want, "the number of backends registered for a method differs from the live set")
			for _, h := range hds {
				vfCheck(h != nil && h.method == me.name, "a method's backend list holds a handler of ANOTHER method (requests would reach the wrong method)")
			}
			for _, old := range dropped {
				for _, oh := range old {
					for _, h := range hds {
						vfCheck(h != oh, "a dropped connection is still registered as a backend")
					}
				}
			}
			// the random pick forks over the handler list: it is exercised after the last step only (a
			// fork at every step would multiply the histories); the lists themselves are checked above
			var hd *handler
			var perr error
			if step == steps-1 {
				hd, perr = cur.pickMethodHandler(me.name)
			} else if want > 0 && len(hds) > 0 {
				hd = hds[0]
			} else {
				perr = errVfCodec
			}
			if want > 0 {
				vfCheck(perr == nil && hd != nil, "a method with a live backend is reported unimplemented")
				m, ps, merr := cur.match(me.route, me.verb)
				vfCheck(merr == nil && m.name == me.name, "the HTTP route of a method with a live backend no longer dispatches to it")
				for _, o := range me.others {
					m2, _, e2 := cur.match(o.route, o.verb)
					vfCheck(e2 == nil && m2.name == me.name, "an additional HTTP binding of a method with a live backend no longer dispatches to it")
				}
				// whichever backend is picked builds the request message from ITS descriptors; the
				// path parameters of the route must be applicable to it (what RecvMsg does)
				for _, h := range hds {
					var args proto.Message
					if fmd, ok := h.desc.Input().(*fakeMD); ok {
						args = newFakeMsg(fmd) // strict about descriptor ownership, like dynamicpb
					} else {
						args = dynamicpb.NewMessage(h.desc.Input()) // native replay: real descriptors of a connection
					}
					vfCheck(ps.set(args) == nil, "path parameters could not be applied to the request message of a live backend")
				}
				vfCover("live-route")
			} else {
				vfCheck(perr != nil, "a method without live backends still has a handler")
				// a stale HTTP route may remain (which of a method's several rules delRule finds first depends on
				// map iteration order); the request then ends Unimplemented, as checked above
				vfCover("dead-method")
			}
		}
	}
}

// VerifH_config_vs_annotation (C19): a rule supplied through ServiceConfigOption for a method's
// full name behaves exactly like the same rule written as the method's annotation: both muxes
// resolve every (symbolic) request path identically.
func VerifH_config_vs_annotation() {
	var verb, tmpl, body string
	switch vfChoice(5) {
	case 0:
		verb, tmpl = "GET", "/c/{f}"
	case 1:
		verb, tmpl, body = "POST", "/c/{f=aa/*}:vv", "*"
	case 3:
		verb, tmpl = "GET", "/c/{nope}" // a rule that does not fit the method: unknown field path
	case 4:
		verb, tmpl, body = "POST", "/c/{f}", "nope" // ... unresolvable body selector
	default:
		verb, tmpl = "*", "/c/xx"
	}
	selector := []string{"vf.A.M1", "vf.A.*", "vf.*", "*"}[vfChoice(4)]
	withOther := vfBool() // a second rule with a named selector next to it
	build := func(viaConfig bool) (*Mux, error) {
		sp := vfSvcSpec{full: "vf.A", file: "vfa.proto", reqName: "ReqA", methods: []vfMethodSpec{{name: "M1", verb: verb, tmpl: tmpl}}}
		svc := vfFakeSvc(sp)
		rule := vfHTTPRule(verb, tmpl)
		rule.Body = body
		var opts []MuxOption
		if viaConfig {
			svc.methods.list[0].opts = &fakeOpts{} // no annotation
			cfg := vfHTTPRule(verb, tmpl)
			cfg.Body = body
			cfg.Selector = selector
			rules := []*annotations.HttpRule{cfg}
			if withOther {
				other := vfHTTPRule("GET", "/never/{f}")
				other.Selector = "vf.A.Other"
				rules = []*annotations.HttpRule{other, cfg}
			}
			opts = append(opts, ServiceConfigOption(&serviceconfig.Service{Http: &annotations.Http{Rules: rules}}))
		} else {
			svc.methods.list[0].opts = &fakeOpts{rule: rule}
		}
		opts = append(opts, FilesOption(vfRegistry(svc)))
		mux, err := NewMux(opts...)
		if err != nil {
			vfFail("NewMux failed")
		}
		sd := &grpc.ServiceDesc{ServiceName: "vf.A", Methods: []grpc.MethodDesc{{MethodName: "M1", Handler: vfUnaryHandler}}}
		if err := mux.registerService(sd, &vfServer{}); err != nil {
			return nil, err
		}
		return mux, nil
	}
	a, ea := build(true)
	b, eb := build(false)
	// a rule is accepted or rejected alike whether it comes as an annotation or through the service
	// config - under an exact selector and under every wildcard shape
	vfCheck((ea != nil) == (eb != nil), "a rule that is rejected as an annotation is accepted as a service-config rule (or the reverse)")
	if ea != nil || eb != nil {
		vfCheck(tmpl == "/c/{nope}" || body == "nope", "registerService failed on a valid rule")
		vfCover("rejected-alike")
		return
	}
	vfCheck(tmpl != "/c/{nope}" && body != "nope", "a rule that does not fit its method was accepted")
	var route string
	if selector == "vf.A.M1" && withOther {
		route = vfRoute(vfBound(8, 10))
	} else {
		// the selector shape does not interact with the path: concrete probes suffice here
		route = []string{"/c/zz", "/c/xx", "/c/aa/z:vv", "/never/q", "/vf.A/M1"}[vfChoice(5)]
	}
	rv := "GET"
	if vfBool() {
		rv = "POST"
	}
	m1, ps1, e1 := a.loadState().match(route, rv)
	m2, ps2, e2 := b.loadState().match(route, rv)
	vfCheck((e1 == nil) == (e2 == nil), "a service-config rule and the same rule as annotation dispatch differently")
	if e1 != nil {
		vfCover("not-dispatched")
		return
	}
	vfCheck(m1.name == m2.name && m1.hasBody == m2.hasBody && len(m1.body) == len(m2.body), "a service-config rule binds differently from the same annotation")
	vfCheck(len(ps1) == len(ps2), "a service-config rule captures differently from the same annotation")
	for i := range ps1 {
		if len(ps1[i].fds) > 0 {
			vfCheck(len(ps2[i].fds) > 0 && vfParamField(ps1[i]) == vfParamField(ps2[i]) && ps1[i].val.String() == ps2[i].val.String(), "a service-config rule captures differently from the same annotation")
		}
	}
	if len(route) > 3 && route[:3] == "/c/" {
		vfCover("dispatched-by-rule")
		if selector == "*" && !withOther {
			vfCover("only-star-selector")
		}
	}
	vfCover("dispatched")
}

// VerifH_registry_maporder (C11): register / drop / register-again histories under an adversarial
// map iteration order (one `range` over a map, chosen by fork, runs in reverse): which of a
// method's several rules delRule meets first must not decide whether its routes survive.
func VerifH_registry_maporder() {
	fa, fb := vfFakeSvc(vfSvcA), vfFakeSvc(vfSvcB)
	mux, err := NewMux(FilesOption(vfRegistry(fa, fb)))
	if err != nil {
		vfFail("NewMux failed")
	}
	defer vfCloseBackends()
	c1 := vfBackendConn(nil)
	var svcs []vfSvcSpec
	switch vfChoice(2) {
	case 0:
		svcs = []vfSvcSpec{vfSvcA}
	default:
		svcs = []vfSvcSpec{vfSvcA2, vfSvcB2}
	}
	vfCheck(vfRegisterConn(mux, c1, &vfReflStream{svcs: svcs}) == nil, "RegisterConn failed")
	vfMapOrder(2)
	vfCheck(mux.DropConn(nil, c1), "DropConn failed")
	vfCheck(vfRegisterConn(mux, c1, &vfReflStream{svcs: svcs}) == nil, "RegisterConn failed")
	vfMapOrder(0)
	cur := mux.loadState()
	for _, me := range vfAllMethods {
		if !vfExposes(svcs, me.name) {
			continue
		}
		vfCheck(len(cur.handlers[me.name]) == 1, "re-registered connection is not the method's only backend")
		m, _, merr := cur.match(me.route, me.verb)
		vfCheck(merr == nil && m.name == me.name, "the HTTP route of a re-registered method no longer dispatches to it")
		for _, o := range me.others {
			m2, _, e2 := cur.match(o.route, o.verb)
			vfCheck(e2 == nil && m2.name == me.name, "an additional HTTP binding of a re-registered method no longer dispatches to it")
		}
	}
	vfCover("reregistered")
}
