package larking

import (
	"net/http"
	"net/url"
)

func init() {
	vfHarnesses["VerifH_serveHTTP_encoding"] = VerifH_serveHTTP_encoding
	vfHarnesses["VerifH_serveGRPC_compressed"] = VerifH_serveGRPC_compressed
}

// VerifH_serveHTTP_encoding (C04, C03): the response Content-Encoding header names the compressor
// that actually wrapped the body (or is absent / identity when the body is plain), for every
// Accept-Encoding value; a request body sent with Content-Encoding reaches the codec decompressed.
func VerifH_serveHTTP_encoding() {
	in := schemaRoute()
	out := newFakeMD("vf.Resp", strField("r"))
	rule := vfHTTPRule("POST", "/aa/{f}")
	rule.Body = "*"
	comp := &vfMarkCompressor{}
	mux, srv, rec := vfMuxWith(rule, in, out, CompressorOption("zz", comp))
	h := http.Header{"Content-Type": []string{"application/x"}, "Accept": []string{"application/x"}}
	switch vfChoice(6) {
	case 0:
	case 1:
		h["Accept-Encoding"] = []string{"zz"}
	case 2:
		h["Accept-Encoding"] = []string{"gzip"}
	case 3:
		h["Accept-Encoding"] = []string{"*"}
	case 4:
		h["Accept-Encoding"] = []string{"zz;q=0, identity"}
	default:
		h["Accept-Encoding"] = []string{vfString(1 + vfLen(2))}
	}
	payload := vfBytes(1 + vfLen(2))
	body := payload
	compressedReq := vfBool()
	if compressedReq {
		h["Content-Encoding"] = []string{"zz"}
		body = append([]byte("Z:"), payload...)
	}
	r := &http.Request{
		Method: "POST", URL: &url.URL{Path: "/aa/zz"}, Header: h,
		Body: vfNopCloser{&vfWholeReader{data: body}}, ContentLength: int64(len(body)), ProtoMajor: 1, ProtoMinor: 1,
	}
	w := newFakeRW()
	mux.ServeHTTP(w, r)
	w.finish()
	vfCheck(srv.calls == 1 && w.status == 200, "request not delivered")
	vfCheck(len(rec.unmarshal) == 1 && vfBytesEq(rec.unmarshal[0], payload), "the codec did not receive the (decompressed) request body")
	ce := w.sentHeader["Content-Encoding"]
	marked := len(w.body) >= 2 && w.body[0] == 'Z' && w.body[1] == ':'
	if marked {
		vfCheck(len(ce) == 1 && ce[0] == "zz", "compressed response body without the matching Content-Encoding header")
		vfCheck(vfBytesEq(w.body[2:], []byte("REPLY")), "compressed response body does not decompress to the reply")
		vfCover("compressed-response")
	} else {
		vfCheck(len(ce) == 0 || (len(ce) == 1 && (ce[0] == "identity" || ce[0] == "")), "Content-Encoding header names a compression that was not applied to the body")
		vfCheck(vfBytesEq(w.body, []byte("REPLY")), "plain response body is not the reply")
		vfCover("plain-response")
	}
	if compressedReq {
		vfCover("compressed-request")
	}
}

// VerifH_serveGRPC_compressed (C06, C08): a unary gRPC call with per-message compression (marking
// compressor negotiated through Grpc-Encoding): the handler receives the decompressed request, the
// client receives a frame flagged compressed whose payload decompresses to the reply, and the
// response announces the encoding; a frame flagged compressed without a negotiated compressor is
// refused.
func VerifH_serveGRPC_compressed() {
	in := schemaRoute()
	out := newFakeMD("vf.Resp", strField("r"))
	comp := &vfMarkCompressor{}
	mux, srv, rec := vfMuxWith(vfHTTPRule("GET", "/aa/{f}"), in, out, CompressorOption("zz", comp), MaxReceiveMessageSizeOption(8))
	payload := vfBytes(vfLen(2))
	negotiated := vfBool()
	flagged := vfBool()
	body := payload
	flag := byte(0)
	if flagged {
		flag = 1
		body = append([]byte("Z:"), payload...)
	}
	frame := append([]byte{flag, 0, 0, 0, byte(len(body))}, body...)
	h := http.Header{"Content-Type": []string{"application/grpc+fake"}}
	if negotiated {
		h["Grpc-Encoding"] = []string{"zz"}
	}
	r := &http.Request{Method: "POST", URL: &url.URL{Path: "/vf.S/M0"}, Header: h, Body: vfNopCloser{&vfWholeReader{data: frame}}, ContentLength: -1, ProtoMajor: 2}
	w := newFakeRW()
	mux.ServeHTTP(w, r)
	w.finish()
	gs, _ := w.trailer("Grpc-Status")
	if flagged && !negotiated {
		vfCheck(srv.calls == 0 || len(rec.unmarshal) == 0, "a frame flagged compressed reached the codec although no compressor was negotiated")
		vfCheck(len(gs) == 1 && gs[0] != "0", "a frame flagged compressed without a negotiated compressor was not refused")
		vfCover("flag-without-encoding")
		return
	}
	vfCheck(srv.calls == 1 && len(gs) == 1 && gs[0] == "0", "compressed call failed")
	vfCheck(len(rec.unmarshal) == 1 && vfBytesEq(rec.unmarshal[0], payload), "the handler did not receive the decompressed request message")
	if negotiated {
		ge := w.sentHeader["Grpc-Encoding"]
		vfCheck(len(ge) == 1 && ge[0] == "zz", "response does not announce the negotiated message encoding")
		want := append([]byte{1, 0, 0, 0, 7}, []byte("Z:REPLY")...)
		vfCheck(vfBytesEq(w.body, want), "reply frame is not flagged compressed with the compressed reply as payload")
		vfCover("compressed-reply")
	} else {
		want := append([]byte{0, 0, 0, 0, 5}, []byte("REPLY")...)
		vfCheck(vfBytesEq(w.body, want), "reply frame of an uncompressed call is not plain")
		vfCover("plain")
	}
	if flagged {
		vfCover("compressed-request")
	}
}
