package larking

import (
	"sync"
	"sync/atomic"
)

func init() {
	vfHarnesses["VerifH_sched_selftest"] = VerifH_sched_selftest
}

// VerifH_sched_selftest validates the engine's goroutine model on textbook cases: a counter
// incremented under a mutex by two goroutines always ends at 2; an unbuffered channel hands over
// exactly the values sent, in order; a read-modify-write made of an atomic load and an atomic
// store CAN lose an update (the engine must find that schedule: cover label "lost-update").
func VerifH_sched_selftest() {
	var mu sync.Mutex
	var wg sync.WaitGroup
	n := 0
	for i := 0; i < 2; i++ {
		wg.Add(1)
		go func() {
			defer wg.Done()
			mu.Lock()
			v := n
			vfYield()
			n = v + 1
			mu.Unlock()
		}()
	}
	wg.Wait()
	vfCheck(n == 2, "mutex does not protect the counter")

	ch := make(chan int)
	done := make(chan struct{})
	var got []int
	go func() {
		for v := range ch {
			got = append(got, v)
		}
		close(done)
	}()
	ch <- 1
	ch <- 2
	close(ch)
	<-done
	vfCheck(len(got) == 2 && got[0] == 1 && got[1] == 2, "unbuffered channel did not hand over the values in order")

	var a atomic.Int32
	var wg2 sync.WaitGroup
	for i := 0; i < 2; i++ {
		wg2.Add(1)
		go func() {
			defer wg2.Done()
			v := a.Load()
			a.Store(v + 1)
		}()
	}
	wg2.Wait()
	if a.Load() == 1 {
		vfCover("lost-update")
	} else {
		vfCheck(a.Load() == 2, "impossible counter value")
		vfCover("no-lost-update")
	}
}
