package larking

import (
	"net/http"
	"net/url"
	"strconv"

	spb "google.golang.org/genproto/googleapis/rpc/status"
	"google.golang.org/grpc/codes"
	"google.golang.org/grpc/status"
	"google.golang.org/protobuf/types/known/anypb"
)

func init() {
	vfHarnesses["VerifH_status_details"] = VerifH_status_details
}

// VerifH_status_details (C05): a handler fails with a status carrying details (1..2 Any values with
// symbolic payload bytes), with an empty or a non-empty message, before or after a reply header:
//   - gRPC: grpc-status, grpc-message and a grpc-status-details-bin trailer whose base64 decodes to
//     a google.rpc.Status with the same code, message and details;
//   - gRPC-web (binary): the same in the trailer frame, or as headers in a trailers-only response;
//   - HTTP transcoding: the google.rpc.Status handed to the codec carries code, message and details.
func VerifH_status_details() {
	in := schemaRoute()
	out := newFakeMD("vf.Resp", strField("r"))
	mux, srv, rec := vfMuxWith(vfHTTPRule("GET", "/aa/{f}"), in, out)
	code := codes.Code(1 + vfChoice(16))
	msg := ""
	if vfBool() {
		msg = "m" + vfPlainString(1)
	}
	nd := 1 + vfLen(1)
	var want []refAny
	p := &spb.Status{Code: int32(code), Message: msg}
	for i := 0; i < nd; i++ {
		a := refAny{url: "type.googleapis.com/vf.D" + string(rune('0'+i)), val: vfBytes(vfLen(2))}
		want = append(want, a)
		p.Details = append(p.Details, &anypb.Any{TypeUrl: a.url, Value: a.val})
	}
	srv.err = status.FromProto(p).Err()
	checkBin := func(enc string, present bool) {
		vfCheck(present, "the status details did not reach the client (no grpc-status-details-bin)")
		raw, ok := refProtoJSONBytes(enc)
		vfCheck(ok, "grpc-status-details-bin is not base64")
		c, m, ds, pok := refParseRPCStatus(raw)
		vfCheck(pok, "grpc-status-details-bin does not decode to a google.rpc.Status")
		vfCheck(c == int64(code) && m == msg, "the Status in grpc-status-details-bin carries another code or message")
		vfCheck(len(ds) == len(want), "the Status in grpc-status-details-bin carries another number of details")
		for i := range want {
			if i < len(ds) {
				vfCheck(ds[i].url == want[i].url && vfBytesEq(ds[i].val, want[i].val), "a status detail was altered on the way to the client")
			}
		}
	}
	switch vfChoice(3) {
	case 0:
		r := vfGRPCRequest("application/grpc+fake", []byte{1}, nil)
		w := newFakeRW()
		mux.ServeHTTP(w, r)
		gs, ok := w.trailer("Grpc-Status")
		vfCheck(ok && len(gs) == 1 && gs[0] == strconv.Itoa(int(code)), "grpc-status trailer is not the handler's code")
		db, ok := w.trailer("Grpc-Status-Details-Bin")
		enc := ""
		if len(db) == 1 {
			enc = db[0]
		}
		checkBin(enc, ok && len(db) == 1)
		vfCover("grpc")
	case 1:
		frame := []byte{0, 0, 0, 0, 1, 1}
		r := &http.Request{Method: "POST", URL: &url.URL{Path: "/vf.S/M0"}, Header: http.Header{"Content-Type": []string{"application/grpc-web+fake"}},
			Body: vfNopCloser{&vfWholeReader{data: frame}}, ContentLength: int64(len(frame)), ProtoMajor: 1, ProtoMinor: 1}
		w := newFakeRW()
		mux.ServeHTTP(w, r)
		w.finish()
		if len(w.body) == 0 {
			db := w.sentHeader["Grpc-Status-Details-Bin"]
			enc := ""
			if len(db) == 1 {
				enc = db[0]
			}
			checkBin(enc, len(db) == 1)
			vfCover("web-trailers-only")
		} else {
			got := w.body
			vfCheck(len(got) >= 5 && got[0] == 0x80, "trailer frame missing")
			tr := vfParseTrailerBlock(got[5:])
			enc, ok := tr["grpc-status-details-bin"]
			checkBin(enc, ok)
			vfCover("web-trailer-frame")
		}
	default:
		r := &http.Request{Method: "GET", URL: &url.URL{Path: "/aa/zz"}, Header: http.Header{"Accept": []string{"application/x"}}, Body: vfNopCloser{&vfWholeReader{}}, ProtoMajor: 1, ProtoMinor: 1}
		w := newFakeRW()
		mux.ServeHTTP(w, r)
		vfCheck(len(rec.statuses) >= 1, "no google.rpc.Status was handed to the codec")
		sp := rec.statuses[len(rec.statuses)-1]
		vfCheck(codes.Code(sp.Code) == code && sp.Message == msg, "google.rpc.Status body does not carry the handler's code and message")
		vfCheck(len(sp.Details) == len(want), "google.rpc.Status body does not carry the handler's details")
		for i := range want {
			if i < len(sp.Details) {
				vfCheck(sp.Details[i].TypeUrl == want[i].url && vfBytesEq(sp.Details[i].Value, want[i].val), "a status detail was altered in the google.rpc.Status body")
			}
		}
		vfCover("http")
	}
	if msg == "" {
		vfCover("empty-message")
	}
}
