package larking

import (
	"net/http"
	"net/url"

	"google.golang.org/grpc"
	"google.golang.org/protobuf/reflect/protoreflect"
)

func init() {
	vfHarnesses["VerifH_serveHTTP_json"] = VerifH_serveHTTP_json
}

// VerifH_serveHTTP_json (C03, C04): a transcoded call with larking's REAL JSON codec (CodecJSON ->
// protojson; natively the real protojson runs on the fake messages, under the engine its modelled
// fragment): the message the handler receives equals the message the client expressed through
// path variable + query parameter + JSON body, and the client decodes the handler's reply from the
// response body under Content-Type application/json.
func VerifH_serveHTTP_json() {
	in := schemaRoute()
	out := newFakeMD("vf.Resp", strField("r"))
	bodySel := "*"
	if vfBool() {
		bodySel = "h"
	}
	rule := vfHTTPRule("POST", "/aa/{f}")
	rule.Body = bodySel
	md := &fakeMethod{full: "vf.S.M0", in: in, out: out, opts: &fakeOpts{rule: rule}}
	svc := &fakeSvc{full: "vf.S", methods: &fakeMethodList{list: []*fakeMethod{md}}}
	rec := &fakeCodec{name: "fake"}
	mux, err := NewMux(FilesOption(vfRegistry(svc)), CodecOption("application/x", rec)) // a user codec under an extra content type
	if err != nil {
		vfFail("NewMux failed")
	}
	srv := &vfServer{in: in, out: out, reply: newFakeMsg(out)}
	srv.reply.payload = []byte("REPLY")
	rv := vfPlainString(2)
	srv.reply.vals["r"] = protoreflect.ValueOfString(rv)
	sd := &grpc.ServiceDesc{ServiceName: "vf.S", Methods: []grpc.MethodDesc{{MethodName: "M0", Handler: vfUnaryHandler}}}
	if err := mux.registerService(sd, srv); err != nil {
		vfFail("registerService failed: " + err.Error())
	}
	capture := vfPlainString(2)
	gv := vfPlainString(2)
	kv := vfPlainString(2)
	var body, query string
	if bodySel == "*" {
		body = `{"g":"` + gv + `", "h":{"k":"` + kv + `"}}`
	} else {
		body = `{"k":"` + kv + `"}`
		query = "g=" + gv
	}
	h := http.Header{"Content-Type": []string{"application/json"}}
	acceptX := false
	switch vfChoice(3) {
	case 1:
		h["Accept"] = []string{"application/json"}
	case 2:
		h["Accept"] = []string{"application/x"} // the reply must then come from the user codec
		acceptX = true
	}
	r := &http.Request{
		Method: "POST", URL: &url.URL{Path: "/aa/" + capture, RawQuery: query}, Header: h,
		Body: vfNopCloser{&vfWholeReader{data: []byte(body)}}, ContentLength: int64(len(body)), ProtoMajor: 1, ProtoMinor: 1,
	}
	w := newFakeRW()
	mux.ServeHTTP(w, r)
	w.finish()
	vfCheck(srv.calls == 1 && w.status == 200, "JSON request not delivered")
	got := srv.got[0]
	vfCheck(got.str("f") == capture, "path variable not in the request message")
	vfCheck(got.str("g") == gv, "field sent in the JSON body / query string not in the request message")
	sub := got.subs["h"]
	vfCheck(sub != nil && sub.str("k") == kv, "nested field sent in the JSON body not in the request message")
	ct := w.sentHeader["Content-Type"]
	if acceptX {
		vfCheck(len(ct) == 1 && ct[0] == "application/x", "a codec registered under the accepted content type was not negotiated")
		vfCheck(vfBytesEq(w.body, []byte("REPLY")), "reply body is not what the accepted codec produced")
		vfCover("accept-user-codec")
	} else {
		vfCheck(len(ct) == 1 && ct[0] == "application/json", "JSON reply not labelled application/json")
		back, ok := refJSONStringMember(w.body, "r")
		vfCheck(ok && back == rv, "the reply decoded from the response body differs from the handler's reply")
	}
	if bodySel == "*" {
		vfCover("body-star")
	} else {
		vfCover("body-field")
	}
}
