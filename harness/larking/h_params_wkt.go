package larking

import (
	"net/url"
	"strconv"

	"google.golang.org/protobuf/reflect/protoreflect"
)

func init() {
	vfHarnesses["VerifH_params_wkt"] = VerifH_params_wkt
}

type vfWKTCase struct {
	field, text string
	ok          bool  // must be accepted (true) / rejected (false)
	secs        int64 // expected seconds / integer value
	nanos       int32
	str         string // expected string value
}

// concrete menu: forms whose conversion is fixed by the proto3 JSON mapping
var vfWKTMenu = []vfWKTCase{
	{field: "sv", text: "é", ok: true, str: "é"},
	{field: "sv", text: "日本", ok: true, str: "日本"},
	{field: "sv", text: "\U0001F600", ok: true, str: "\U0001F600"}, // beyond the BMP
	{field: "sv", text: "a\U00010348b", ok: true, str: "a\U00010348b"},
	{field: "sv", text: `a"b\c`, ok: true, str: `a"b\c`},
	{field: "sv", text: "\x7f", ok: true, str: "\x7f"},             // DEL: legal inside a JSON string
	{field: "sv", text: "a\x01b", ok: true, str: "a\x01b"},         // C0 control: JSON spells it \u0001
	{field: "sv", text: "\v", ok: true, str: "\v"},                 // Go has \v, JSON does not
	{field: "sv", text: "\U000E0001", ok: true, str: "\U000E0001"}, // non-printable beyond the BMP
	{field: "sv", text: `"`, ok: true, str: `"`},                   // a lone quote is not a quoted string
	{field: "sv", text: "\xff", ok: false},                         // not UTF-8: not a proto3 string
	{field: "du", text: "3s", ok: true, secs: 3},
	{field: "du", text: "1.5s", ok: true, secs: 1, nanos: 500000000},
	{field: "du", text: "-1.000000001s", ok: true, secs: -1, nanos: -1},
	{field: "du", text: "0.000000001s", ok: true, nanos: 1},
	{field: "du", text: "315576000000s", ok: true, secs: 315576000000},
	{field: "du", text: "-315576000000s", ok: true, secs: -315576000000},
	{field: "du", text: "9223372037s", ok: true, secs: 9223372037}, // beyond int64 nanoseconds
	{field: "du", text: "315576000001s", ok: false},
	{field: "du", text: "1h", ok: false},
	{field: "du", text: "90m", ok: false},
	{field: "du", text: "5ms", ok: false},
	{field: "du", text: "3", ok: false},
	{field: "du", text: "s", ok: false},
	{field: "ts", text: "1970-01-01T00:00:00Z", ok: true},
	{field: "ts", text: "2020-01-02T03:04:05Z", ok: true, secs: 1577934245},
	{field: "ts", text: "2020-02-29T23:59:59.5Z", ok: true, secs: 1583020799, nanos: 500000000},
	{field: "ts", text: "0001-01-01T00:00:00Z", ok: true, secs: -62135596800},
	{field: "ts", text: "9999-12-31T23:59:59.999999999Z", ok: true, secs: 253402300799, nanos: 999999999},
	{field: "ts", text: "2021-02-29T00:00:00Z", ok: false},
	{field: "ts", text: "2020-01-02", ok: false},
	{field: "ts", text: "x", ok: false},
	{field: "i64", text: "9223372036854775807", ok: true, secs: 9223372036854775807},
	{field: "i64", text: "-9223372036854775808", ok: true, secs: -9223372036854775808},
	{field: "i64", text: "9223372036854775808", ok: false},
	{field: "i32", text: "2147483647", ok: true, secs: 2147483647},
	{field: "i32", text: "-2147483648", ok: true, secs: -2147483648},
	{field: "i32", text: "2147483648", ok: false},
	{field: "i32", text: "4294967297", ok: false},
	{field: "u32", text: "4294967295", ok: true, secs: 4294967295},
	{field: "u32", text: "4294967296", ok: false},
	{field: "u64", text: "18446744073709551615", ok: true, secs: -1},
	{field: "u64", text: "18446744073709551616", ok: false},
	{field: "fm", text: "a,bC.d", ok: true, str: "a|b_c.d"},
	{field: "fm", text: "a_b", ok: false},
	{field: "fm", text: "a,,b", ok: false},
}

// VerifH_params_wkt (C03, C09, C01): query parameters (and, through the same parseParam, path
// captures) bound to well-known message types: google.protobuf wrappers, FieldMask, Duration,
// Timestamp. The URL text is converted by the proto3 JSON mapping of the type; a text outside it is
// an error; never a crash - including the EMPTY text.
func VerifH_params_wkt() {
	in := schemaWKT()
	m := &method{desc: &fakeMethod{full: "vf.S.W", in: in, out: in}, name: "/vf.S/W"}
	msg := newFakeMsg(in)
	fields := []string{"sv", "byv", "bv", "i32", "i64", "u32", "u64", "fm", "du", "ts"}
	mode := vfChoice(3)
	if mode == 0 {
		// empty value for every type: an error or the type's empty value, never a panic
		f := fields[vfChoice(len(fields))]
		ps, err := m.parseQueryParams(url.Values{f: []string{""}})
		if err == nil {
			err = ps.set(msg)
		}
		switch f {
		case "sv", "byv", "fm":
			// the empty text is the proto3 JSON text form of the empty string / bytes / mask
			vfCheck(err == nil, "the empty text was rejected for a string-like well-known type (an empty StringValue / BytesValue / FieldMask cannot be expressed in the URL)")
			if err == nil && f == "sv" {
				if v, _, ok := vfWKTGet(msg, "sv", "value"); ok {
					vfCheck(v.String() == "", "the empty text was converted to a non-empty StringValue")
				}
			}
		default:
			vfCheck(err != nil, "an empty text was accepted for a numeric / bool / time well-known type")
		}
		vfCover("empty-value")
		return
	}
	if mode == 1 {
		ci := vfChoice(len(vfWKTMenu))
		c := vfWKTMenu[ci]
		vfCover("w:menu" + strconv.Itoa(ci)) // every menu entry is replayed natively (real protojson)
		ps, err := m.parseQueryParams(url.Values{c.field: []string{c.text}})
		if err == nil {
			err = ps.set(msg)
		}
		if !c.ok {
			vfCheck(err != nil, "a text outside the JSON mapping of the well-known type was accepted (coerced)")
			vfCover("menu-rejected")
			return
		}
		vfCheck(err == nil, "a valid text for a well-known type was rejected")
		switch c.field {
		case "sv":
			v, _, ok := vfWKTGet(msg, "sv", "value")
			vfCheck(ok && v.String() == c.str, "StringValue parameter not delivered verbatim")
		case "du", "ts":
			fd := in.fields.ByName(protoreflect.Name(c.field))
			vfCheck(msg.Has(fd), "Duration / Timestamp parameter not set")
			wm := msg.Get(fd).Message()
			sf := wm.Descriptor().Fields()
			vfCheck(wm.Get(sf.ByName("seconds")).Int() == c.secs && int32(wm.Get(sf.ByName("nanos")).Int()) == c.nanos, "Duration / Timestamp parameter converted to a different instant / length")
		case "i32", "i64":
			v, _, ok := vfWKTGet(msg, c.field, "value")
			vfCheck(ok && v.Int() == c.secs, "integer wrapper parameter converted to a different value")
		case "u32", "u64":
			v, _, ok := vfWKTGet(msg, c.field, "value")
			vfCheck(ok && v.Uint() == uint64(c.secs), "unsigned wrapper parameter converted to a different value")
		case "fm":
			fd := in.fields.ByName("fm")
			got := ""
			if msg.Has(fd) {
				wm := msg.Get(fd).Message()
				l := wm.Get(wm.Descriptor().Fields().ByName("paths")).List()
				for i := 0; i < l.Len(); i++ {
					if i > 0 {
						got += "|"
					}
					got += l.Get(i).String()
				}
			}
			vfCheck(got == c.str, "FieldMask parameter converted to different paths")
		}
		vfCover("menu-accepted")
		return
	}
	// symbolic short texts
	switch vfChoice(5) {
	case 0:
		// StringValue: ASCII text is delivered verbatim (a text of two or more bytes that starts and ends
		// with '"' is read as already quoted: unspecified)
		v := vfString(1 + vfLen(vfBound(2, 3)))
		for i := 0; i < len(v); i++ {
			vfAssume(v[i] < 0x80) // every ASCII byte, control characters and DEL included
		}
		vfAssume(!(len(v) >= 2 && v[0] == '"' && v[len(v)-1] == '"'))
		ps, err := m.parseQueryParams(url.Values{"sv": []string{v}})
		if err == nil {
			err = ps.set(msg)
		}
		got, _, ok := vfWKTGet(msg, "sv", "value")
		vfCheck(err == nil && ok && got.String() == v, "StringValue parameter not delivered verbatim")
		vfCover("string-wrapper")
	case 1:
		// BoolValue
		v := vfAsciiString(1 + vfLen(4))
		ps, err := m.parseQueryParams(url.Values{"bv": []string{v}})
		if err == nil {
			err = ps.set(msg)
		}
		t := refTrimJSONSpace(v)
		if t == "true" || t == "false" {
			got, _, _ := vfWKTGet(msg, "bv", "value")
			vfCheck(err == nil && (t == "false" || got.Bool()), "BoolValue parameter not converted to its value")
			if t == "false" {
				if got2, _, ok := vfWKTGet(msg, "bv", "value"); ok {
					vfCheck(!got2.Bool(), "BoolValue false converted to true")
				}
			}
			vfCover("bool-wrapper")
		} else if t != "null" {
			vfCheck(err != nil, "text that is neither true nor false was accepted for a BoolValue")
		}
	case 2:
		// Int32Value / UInt32Value: canonical JSON integers; signs, leading zeros, junk are rejected
		v := vfString(1 + vfLen(vfBound(2, 3)))
		for i := 0; i < len(v); i++ {
			vfAssume(v[i] == '-' || v[i] == '+' || (v[i] >= '0' && v[i] <= '9') || v[i] == 'x' || v[i] == '_')
		}
		f := "i32"
		if vfBool() {
			f = "u32"
		}
		ps, err := m.parseQueryParams(url.Values{f: []string{v}})
		if err == nil {
			err = ps.set(msg)
		}
		jn, valid := refJSONInt(v)
		if valid && f == "u32" && (jn < 0 || v[0] == '-') {
			valid = false
		}
		if valid {
			got, _, ok := vfWKTGet(msg, f, "value")
			if f == "i32" {
				vfCheck(err == nil && (jn == 0 || (ok && int(got.Int()) == jn)), "Int32Value parameter not converted to its value")
			} else {
				vfCheck(err == nil && (jn == 0 || (ok && int(got.Uint()) == jn)), "UInt32Value parameter not converted to its value")
			}
			vfCover("int-wrapper")
		} else {
			vfCheck(err != nil, "text that is not a JSON integer of the type was accepted for an integer wrapper")
			vfCover("int-wrapper-rejected")
		}
	case 3:
		// BytesValue: the proto3 JSON bytes rule
		v := vfString(1 + vfLen(vfBound(2, 3)))
		for i := 0; i < len(v); i++ {
			vfAssume(v[i] >= 0x20 && v[i] < 0x7f && v[i] != '"' && v[i] != '\\')
		}
		ps, err := m.parseQueryParams(url.Values{"byv": []string{v}})
		if err == nil {
			err = ps.set(msg)
		}
		want, ok := refProtoJSONBytes(v)
		if ok {
			vfCheck(err == nil, "valid base64 text for a BytesValue rejected")
			got, _, has := vfWKTGet(msg, "byv", "value")
			if len(want) > 0 {
				vfCheck(has && vfBytesEq(got.Bytes(), want), "BytesValue parameter decoded to different bytes")
			}
			vfCover("bytes-wrapper")
		}
	default:
		// FieldMask: comma-separated lowerCamel paths
		v := vfString(1 + vfLen(vfBound(2, 3)))
		for i := 0; i < len(v); i++ {
			vfAssume((v[i] >= 'a' && v[i] <= 'c') || v[i] == ',' || v[i] == '.' || v[i] == 'B' || v[i] == '1')
		}
		ps, err := m.parseQueryParams(url.Values{"fm": []string{v}})
		if err == nil {
			err = ps.set(msg)
		}
		// reference: split on ',', every part a dotted identifier path; 'B' -> "_b"
		valid := true
		var want []string
		st := 0
		for i := 0; i <= len(v); i++ {
			if i < len(v) && v[i] != ',' {
				continue
			}
			p := v[st:i]
			st = i + 1
			if p == "" || p[0] == '.' || p[len(p)-1] == '.' || p[0] == '1' {
				valid = false
				break
			}
			sn := ""
			for k := 0; k < len(p); k++ {
				if p[k] == '.' && (p[k+1] == '.' || p[k+1] == '1') {
					valid = false
				}
				if p[k] == 'B' {
					sn += "_b"
				} else {
					sn += string(p[k])
				}
			}
			want = append(want, sn)
		}
		if !valid {
			vfCheck(err != nil, "a malformed field-mask text was accepted")
			vfCover("fieldmask-rejected")
			return
		}
		vfCheck(err == nil, "a well-formed field-mask text was rejected")
		fd := in.fields.ByName("fm")
		vfCheck(msg.Has(fd), "FieldMask parameter not set")
		wm := msg.Get(fd).Message()
		l := wm.Get(wm.Descriptor().Fields().ByName("paths")).List()
		vfCheck(l.Len() == len(want), "FieldMask parameter converted to a different number of paths")
		for i := 0; i < l.Len() && i < len(want); i++ {
			vfCheck(l.Get(i).String() == want[i], "FieldMask path converted to different text")
		}
		vfCover("fieldmask")
	}
}
