package larking

import (
	"context"
	"io"
)

func init() {
	vfHarnesses["VerifH_http_recv_stream"] = VerifH_http_recv_stream
	vfHarnesses["VerifH_http_recv_body"] = VerifH_http_recv_body
}

// VerifH_http_recv_stream (C06, C08): a client stream over HTTP with length-delimited protobuf or
// brace-delimited JSON framing: the handler's RecvMsg calls see exactly the sent payloads in
// order, then io.EOF; a truncated stream yields the complete prefix and then a non-EOF error.
// The read schedule (partition into reads, EOF placement) is arbitrary.
func VerifH_http_recv_stream() {
	vfSeedPool()
	k := vfLen(vfBound(2, 3))
	json := vfBool()
	var framing StreamCodec = CodecProto{}
	if json {
		framing = CodecJSON{}
	}
	sink := &vfSink{}
	var msgs [][]byte
	longest := 1
	for i := 0; i < k; i++ {
		var m []byte
		if json {
			m = vfJSONMessage()
		} else {
			m = vfBytes(vfLen(vfBound(2, 3)))
		}
		msgs = append(msgs, m)
		if len(m) > longest {
			longest = len(m)
		}
		framing.WriteNext(sink, m)
	}
	wire := sink.buf
	cut := len(wire)
	truncated := false
	if len(wire) > 0 && vfBool() {
		cut = vfChoice(len(wire)) // 0..len-1
		truncated = true
	}
	r := &vfFragReader{data: wire[:cut]}
	if cut > vfBound(9, 10) {
		r.greedy = true
		r.maxChunk = 1 + vfChoice(3)
	}
	rec := &fakeCodec{name: "fake"}
	in := schemaRoute()
	// receive limit: above every message, or (C08) below the longest one - then the first message
	// over the limit must never be delivered, however its bytes arrive (also together with io.EOF)
	limit := longest + 1
	if longest >= 2 && k <= 2 && vfBool() {
		limit = longest - 1 // (streams of up to two messages: keeps the thorough tier within its path budget)
	}
	s := &streamHTTP{
		opts: muxOptions{
			maxReceiveMessageSize: limit,
			codecs:                map[string]Codec{"application/x": fakeStreamCodec{rec, framing}},
		},
		ctx:         context.Background(),
		method:      &method{desc: &fakeMethod{full: "vf.S.M0", in: in, out: in, cs: true}, name: "/vf.S/M0", hasBody: true},
		r:           r,
		contentType: "application/x",
		hasBody:     true,
	}
	// how many messages are completely contained in wire[:cut]
	complete := 0
	off := 0
	refused := false
	for i := 0; i < k; i++ {
		l := len(msgs[i])
		if !json {
			l++ // one prefix byte (sizes < 128)
		}
		if len(msgs[i]) > limit {
			// deliveries stop here: refused if enough of it arrives, otherwise a truncated stream
			refused = off < cut
			break
		}
		if off+l <= cut {
			complete++
			off += l
		} else {
			break
		}
	}
	cleanEnd := off == cut && !refused // the stream ends exactly at a message boundary
	var errFinal error
	calls := 0
	for calls = 0; calls < k+2; calls++ {
		msg := newFakeMsg(in)
		if err := s.RecvMsg(msg); err != nil {
			errFinal = err
			break
		}
		// between two receives another request uses the byte pool: whatever this stream still needs
		// must not live in a recycled buffer
		vfPoolScribble()
	}
	if k == 0 || (complete == 0 && cleanEnd) {
		// empty body: whether the handler sees EOF at once or one body-less first message (carrying the
		// path/query params) is unspecified
		vfCheck(len(rec.unmarshal) <= 1, "more than one message fabricated from an empty body")
		for _, u := range rec.unmarshal {
			vfCheck(len(u) == 0, "message bytes fabricated from an empty body")
		}
		vfCover("empty-stream")
		return
	}
	vfCheck(errFinal != nil, "stream did not end")
	vfCheck(len(rec.unmarshal) >= complete, "a complete message was dropped")
	vfCheck(len(rec.unmarshal) <= complete, "a phantom, partial or duplicated message was delivered")
	for i := 0; i < complete && i < len(rec.unmarshal); i++ {
		vfCheck(vfBytesEq(rec.unmarshal[i], msgs[i]), "delivered message differs from the sent message")
	}
	for _, u := range rec.unmarshal {
		vfCheck(len(u) <= limit, "a message larger than the receive limit was delivered")
	}
	if refused {
		vfCover("over-limit-refused")
	}
	if cleanEnd {
		vfCheck(errFinal == io.EOF, "clean end of stream not reported as io.EOF")
		vfCover("clean-eof")
	} else {
		vfCheck(errFinal != io.EOF, "stream ending inside a message reported as a clean end of stream")
		vfCover("truncated")
	}
	if r.eofData {
		vfCover("eof-with-data")
	}
	_ = truncated
}

// VerifH_http_recv_body (C06, C08): an HttpBody upload is delivered as chunks of at most the
// receive limit whose concatenation is the body, followed by io.EOF.
func VerifH_http_recv_body() {
	vfSeedPool()
	limit := 1 + vfLen(vfBound(2, 3))
	total := vfLen(3*limit + 1)
	body := vfBytes(total)
	r := &vfFragReader{data: body}
	if total > vfBound(6, 9) {
		r.greedy = true
		r.maxChunk = 1 + vfChoice(limit+1)
	}
	in := schemaHTTPBody()
	s := &streamHTTP{
		opts: muxOptions{
			maxReceiveMessageSize: limit,
			codecs:                map[string]Codec{"google.api.HttpBody": codecHTTPBody{}},
		},
		ctx:         context.Background(),
		method:      &method{desc: &fakeMethod{full: "vf.S.Up", in: in, out: in, cs: true}, name: "/vf.S/Up", hasBody: true},
		r:           r,
		contentType: "image/x",
		accept:      "application/json", // what the reply is negotiated to must not leak into the request message
		hasBody:     true,
	}
	var got []byte
	msgsSeen := 0
	var errFinal error
	for i := 0; i < total+3; i++ {
		msg := newFakeMsg(in)
		if err := s.RecvMsg(msg); err != nil {
			errFinal = err
			break
		}
		msgsSeen++
		data := msg.vals["data"].Bytes()
		vfCheck(len(data) <= limit, "HttpBody chunk larger than the receive limit")
		vfCheck(msg.str("content_type") == "image/x", "HttpBody chunk without the request content type")
		if total > 0 && i > 0 {
			vfCheck(len(data) > 0, "empty HttpBody chunk delivered in the middle or at the end of an upload")
		}
		got = append(got, data...)
	}
	vfCheck(errFinal == io.EOF, "upload did not end with io.EOF")
	vfCheck(vfBytesEq(got, body), "concatenated HttpBody chunks differ from the uploaded body")
	if total == 0 {
		vfCheck(msgsSeen <= 1, "more than one message fabricated from an empty upload")
		vfCover("empty-upload")
	} else {
		vfCover("upload")
		if total > limit {
			vfCover("multi-chunk")
		}
	}
}
