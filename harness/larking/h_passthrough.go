package larking

import (
	"context"
	"io"
	"net/http"

	"google.golang.org/protobuf/reflect/protoreflect"
)

func init() {
	vfHarnesses["VerifH_httpbody_passthrough"] = VerifH_httpbody_passthrough
}

// VerifH_httpbody_passthrough (C06, C03): AsHTTPBodyReader / AsHTTPBodyWriter hand the handler the
// raw request / response stream of a google.api.HttpBody upload / download: the bytes read equal
// the uploaded body for every partition into reads, the first message carries the content type and
// the path parameters, the bytes written reach the client unmodified under the message's content
// type; the helpers refuse to start after a message has already been exchanged.
func VerifH_httpbody_passthrough() {
	hb := schemaHTTPBody()
	fileFD := &fakeFD{name: "file", kind: protoreflect.MessageKind, msg: hb}
	in := newFakeMD("vf.UploadReq", strField("filename"), fileFD)
	body := vfBytes(vfLen(vfBound(5, 7)))
	capture := vfPlainString(2)
	sink := &vfFlushSink{}
	hdr := http.Header{}
	pfd := in.fields.list[0]
	s := &streamHTTP{
		opts:        muxOptions{maxReceiveMessageSize: 64, maxSendMessageSize: 64, codecs: map[string]Codec{"google.api.HttpBody": codecHTTPBody{}}},
		ctx:         context.Background(),
		method:      &method{desc: &fakeMethod{full: "vf.S.Up", in: in, out: in, cs: true, ss: true}, name: "/vf.S/Up", hasBody: true, body: []protoreflect.FieldDescriptor{fileFD}, resp: []protoreflect.FieldDescriptor{fileFD}},
		params:      params{{fds: []protoreflect.FieldDescriptor{pfd}, val: protoreflect.ValueOfString(capture)}},
		r:           &vfFragReader{data: body},
		w:           sink,
		wHeader:     hdr,
		contentType: "image/x",
		accept:      "image/x",
		hasBody:     true,
	}
	msg := newFakeMsg(in)
	rd, err := AsHTTPBodyReader(s, msg)
	vfCheck(err == nil && rd != nil, "AsHTTPBodyReader refused the first message of an HttpBody upload")
	got, rerr := io.ReadAll(rd)
	vfCheck(rerr == nil && vfBytesEq(got, body), "bytes read through AsHTTPBodyReader differ from the uploaded body")
	vfCheck(msg.str("filename") == capture, "path parameter not applied to the first message of an HttpBody upload")
	f := msg.subs["file"]
	vfCheck(f != nil && f.str("content_type") == "image/x", "HttpBody upload without the request content type")
	_, err2 := AsHTTPBodyReader(s, newFakeMsg(in))
	vfCheck(err2 != nil, "AsHTTPBodyReader started a second time")
	vfCover("reader")

	out := newFakeMsg(in)
	of := newFakeMsg(hb)
	ct := vfAsciiString(1 + vfLen(2))
	of.vals["content_type"] = protoreflect.ValueOfString(ct)
	out.subs["file"] = of
	wr, werr := AsHTTPBodyWriter(s, out)
	vfCheck(werr == nil && wr != nil, "AsHTTPBodyWriter refused the first message of an HttpBody download")
	data := vfBytes(vfLen(3))
	n, e := wr.Write(data)
	vfCheck(e == nil && n == len(data) && vfBytesEq(sink.buf, data), "bytes written through AsHTTPBodyWriter did not reach the client unmodified")
	cts := hdr["Content-Type"]
	vfCheck(len(cts) == 1 && cts[0] == ct, "HttpBody download not sent under the message's content type")
	_, werr2 := AsHTTPBodyWriter(s, out)
	vfCheck(werr2 != nil, "AsHTTPBodyWriter started a second time")
	vfCover("writer")
}
