package sym

import "math/bits"

// Word-level interval reasoning. Every fact comes from an atom already asserted into the path
// condition, so an answer obtained here is implied by the path condition: it saves a solver
// query (and decides multiplier chains that bit-blasting does not), it never replaces one whose
// answer could differ. Intervals are unsigned and non-wrapping.

type ival struct{ lo, hi uint64 }

func fullIval(w int) ival { return ival{0, mask(w)} }

func (a ival) meet(b ival) (ival, bool) {
	r := a
	if b.lo > r.lo {
		r.lo = b.lo
	}
	if b.hi < r.hi {
		r.hi = b.hi
	}
	return r, r.lo <= r.hi
}

func (m *Machine) addFact(t *Term, iv ival) {
	if t.IsConst() || t.W == 0 {
		return
	}
	cur, ok := m.facts[t]
	if !ok {
		cur = fullIval(t.W)
	}
	n, ok2 := cur.meet(iv)
	if !ok2 {
		return // contradictory fact: the solver will find the path infeasible
	}
	if n != cur || !ok {
		m.facts[t] = n
		m.rmemo = map[*Term]ival{}
	}
}

// factFromAtom records interval facts implied by atom t having truth value v.
func (m *Machine) factFromAtom(t *Term, v bool) {
	if t.N != 2 {
		return
	}
	a, b := t.A[0], t.A[1]
	switch t.Op {
	case OpEq:
		if a.W == 0 || !v {
			return
		}
		if b.IsConst() {
			m.addFact(a, ival{b.Val, b.Val})
		} else if a.IsConst() {
			m.addFact(b, ival{a.Val, a.Val})
		}
	case OpUlt, OpUle, OpSlt, OpSle:
		w := a.W
		signed := t.Op == OpSlt || t.Op == OpSle
		strict := t.Op == OpUlt || t.Op == OpSlt
		if signed {
			// usable only when both sides are known non-negative
			half := uint64(1) << uint(w-1)
			if m.rng(a).hi >= half || m.rng(b).hi >= half {
				// a < K with K >= 0 const says nothing unsigned unless a is known non-negative
				return
			}
		}
		mx := mask(w)
		switch {
		case b.IsConst():
			k := b.Val
			if v {
				if strict {
					if k == 0 {
						return
					}
					m.addFact(a, ival{0, k - 1})
				} else {
					m.addFact(a, ival{0, k})
				}
			} else {
				if strict {
					m.addFact(a, ival{k, mx})
				} else if k < mx {
					m.addFact(a, ival{k + 1, mx})
				}
			}
		case a.IsConst():
			k := a.Val
			if v {
				if strict {
					if k < mx {
						m.addFact(b, ival{k + 1, mx})
					}
				} else {
					m.addFact(b, ival{k, mx})
				}
			} else {
				if strict {
					m.addFact(b, ival{0, k})
				} else if k > 0 {
					m.addFact(b, ival{0, k - 1})
				}
			}
		}
	}
}

// rng computes an unsigned interval containing every value t can take on this path.
func (m *Machine) rng(t *Term) ival {
	if t.IsConst() {
		return ival{t.Val, t.Val}
	}
	if t.W == 0 {
		return ival{0, 1}
	}
	if r, ok := m.rmemo[t]; ok {
		return r
	}
	w := t.W
	mx := mask(w)
	r := fullIval(w)
	switch t.Op {
	case OpZext:
		r = m.rng(t.A[0])
	case OpSext:
		in := m.rng(t.A[0])
		if in.hi < uint64(1)<<uint(t.A[0].W-1) {
			r = in
		}
	case OpExtract:
		lo := int(t.Val & 0xff)
		in := m.rng(t.A[0])
		if lo == 0 && in.hi <= mx {
			r = in
		}
	case OpConcat:
		h, l := m.rng(t.A[0]), m.rng(t.A[1])
		lw := uint(t.A[1].W)
		r = ival{h.lo<<lw | l.lo, h.hi<<lw | l.hi}
		if h.lo != h.hi {
			r = ival{h.lo << lw, h.hi<<lw | mask(int(lw))}
		}
	case OpAdd:
		a, b := m.rng(t.A[0]), m.rng(t.A[1])
		lo, c1 := bits.Add64(a.lo, b.lo, 0)
		hi, c2 := bits.Add64(a.hi, b.hi, 0)
		if w == 64 {
			if c1 == c2 {
				r = ival{lo, hi}
			}
		} else if c1 == 0 && c2 == 0 && lo>>uint(w) == hi>>uint(w) {
			r = ival{lo & mx, hi & mx}
		}
	case OpSub:
		a, b := m.rng(t.A[0]), m.rng(t.A[1])
		if a.lo >= b.hi {
			r = ival{a.lo - b.hi, a.hi - b.lo}
		}
	case OpMul:
		a, b := m.rng(t.A[0]), m.rng(t.A[1])
		h, l := bits.Mul64(a.hi, b.hi)
		if h == 0 && l <= mx {
			r = ival{a.lo * b.lo, l}
		}
	case OpUDiv:
		a, b := m.rng(t.A[0]), m.rng(t.A[1])
		if b.lo > 0 {
			r = ival{a.lo / b.hi, a.hi / b.lo}
		}
	case OpURem:
		a, b := m.rng(t.A[0]), m.rng(t.A[1])
		if b.lo > 0 {
			r = ival{0, b.hi - 1}
			if a.hi < r.hi {
				r.hi = a.hi
			}
		}
	case OpBAnd:
		a, b := m.rng(t.A[0]), m.rng(t.A[1])
		hi := a.hi
		if b.hi < hi {
			hi = b.hi
		}
		r = ival{0, hi}
	case OpBOr, OpBXor:
		a, b := m.rng(t.A[0]), m.rng(t.A[1])
		hi := a.hi | b.hi
		n := bits.Len64(hi)
		if n < 64 {
			hi = uint64(1)<<uint(n) - 1
		} else {
			hi = ^uint64(0)
		}
		lo := uint64(0)
		if t.Op == OpBOr {
			lo = a.lo
			if b.lo > lo {
				lo = b.lo
			}
		}
		r = ival{lo, hi & mx}
	case OpShl:
		a, b := m.rng(t.A[0]), m.rng(t.A[1])
		if b.lo == b.hi && b.lo < uint64(w) {
			if bits.Len64(a.hi)+int(b.lo) <= w {
				r = ival{a.lo << b.lo, a.hi << b.lo}
			}
		}
	case OpLShr:
		a, b := m.rng(t.A[0]), m.rng(t.A[1])
		if b.lo == b.hi && b.lo < uint64(w) {
			r = ival{a.lo >> b.lo, a.hi >> b.lo}
		} else {
			r = ival{0, a.hi}
		}
	case OpIte:
		c := m.rngBool(t.A[0])
		switch c {
		case 1:
			r = m.rng(t.A[1])
		case 0:
			r = m.rng(t.A[2])
		default:
			a, b := m.rng(t.A[1]), m.rng(t.A[2])
			r = a
			if b.lo < r.lo {
				r.lo = b.lo
			}
			if b.hi > r.hi {
				r.hi = b.hi
			}
		}
	}
	if f, ok := m.facts[t]; ok {
		if n, ok := r.meet(f); ok {
			r = n
		}
	}
	m.rmemo[t] = r
	return r
}

// rngBool evaluates a Boolean term over intervals: 1 true, 0 false, -1 unknown.
func (m *Machine) rngBool(t *Term) int {
	if t.IsConst() {
		return int(t.Val)
	}
	if v, ok := m.atoms[t]; ok {
		if v {
			return 1
		}
		return 0
	}
	switch t.Op {
	case OpNot:
		r := m.rngBool(t.A[0])
		if r < 0 {
			return r
		}
		return 1 - r
	case OpAnd:
		a, b := m.rngBool(t.A[0]), m.rngBool(t.A[1])
		if a == 0 || b == 0 {
			return 0
		}
		if a == 1 && b == 1 {
			return 1
		}
	case OpOr:
		a, b := m.rngBool(t.A[0]), m.rngBool(t.A[1])
		if a == 1 || b == 1 {
			return 1
		}
		if a == 0 && b == 0 {
			return 0
		}
	case OpIte:
		c := m.rngBool(t.A[0])
		if c == 1 {
			return m.rngBool(t.A[1])
		}
		if c == 0 {
			return m.rngBool(t.A[2])
		}
		a, b := m.rngBool(t.A[1]), m.rngBool(t.A[2])
		if a == b {
			return a
		}
	case OpEq:
		if t.A[0].W == 0 {
			a, b := m.rngBool(t.A[0]), m.rngBool(t.A[1])
			if a >= 0 && b >= 0 {
				if a == b {
					return 1
				}
				return 0
			}
			return -1
		}
		a, b := m.rng(t.A[0]), m.rng(t.A[1])
		if a.hi < b.lo || b.hi < a.lo {
			return 0
		}
		if a.lo == a.hi && b.lo == b.hi && a.lo == b.lo {
			return 1
		}
	case OpUlt:
		a, b := m.rng(t.A[0]), m.rng(t.A[1])
		if a.hi < b.lo {
			return 1
		}
		if a.lo >= b.hi {
			return 0
		}
		// overflow test x+y < x: false when x+y cannot wrap
		if m.addCannotWrap(t.A[0], t.A[1]) {
			return 0
		}
	case OpUle:
		a, b := m.rng(t.A[0]), m.rng(t.A[1])
		if a.hi <= b.lo {
			return 1
		}
		if a.lo > b.hi {
			return 0
		}
		// x <= x+y: true when x+y cannot wrap
		if m.addCannotWrap(t.A[1], t.A[0]) {
			return 1
		}
	case OpSlt, OpSle:
		w := t.A[0].W
		half := uint64(1) << uint(w-1)
		a, b := m.rng(t.A[0]), m.rng(t.A[1])
		// both entirely in the same sign half: order agrees with unsigned order
		sameHalf := (a.hi < half && b.hi < half) || (a.lo >= half && b.lo >= half)
		if sameHalf {
			if t.Op == OpSlt {
				if a.hi < b.lo {
					return 1
				}
				if a.lo >= b.hi {
					return 0
				}
			} else {
				if a.hi <= b.lo {
					return 1
				}
				if a.lo > b.hi {
					return 0
				}
			}
		} else if a.lo >= half && b.hi < half {
			return 1 // negative < non-negative
		} else if a.hi < half && b.lo >= half {
			return 0
		}
	}
	return -1
}

// addCannotWrap reports whether sum is x+y (either operand order) and the addition cannot wrap.
func (m *Machine) addCannotWrap(sum, x *Term) bool {
	if sum.Op != OpAdd || (sum.A[0] != x && sum.A[1] != x) {
		return false
	}
	a, b := m.rng(sum.A[0]), m.rng(sum.A[1])
	hi, c := bits.Add64(a.hi, b.hi, 0)
	return c == 0 && hi <= mask(sum.W)
}
