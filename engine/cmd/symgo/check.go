package main

import (
	"bufio"
	"bytes"
	"encoding/json"
	"flag"
	"fmt"
	"os"
	"os/exec"
	"path/filepath"
	"runtime"
	"sort"
	"strconv"
	"strings"
	"time"

	"verif/engine/sym"
)

var verifDir = func() string {
	if d := os.Getenv("VERIF_DIR"); d != "" {
		return d
	}
	return "/verif"
}()

type replayEntry struct {
	ID      string `json:"id"`
	Harness string `json:"harness"`
	Tape    string `json:"tape"`
	Tier    string `json:"tier"`
	Repeat  int    `json:"repeat,omitempty"`
	Conc    bool   `json:"-"`
	KnownID string `json:"-"` // the path lies in the region of this known finding
	// expectation (not read by the native test)
	Kind   string   `json:"expect_kind"`
	Msg    string   `json:"expect_msg"`
	Covers []string `json:"expect_covers"`
}

type replayResult struct {
	ID      string   `json:"id"`
	Harness string   `json:"harness"`
	Kind    string   `json:"kind"`
	Msg     string   `json:"msg"`
	Covers  []string `json:"covers"`
}

func loadFindings() (map[string]sym.Finding, error) {
	out := map[string]sym.Finding{}
	data, err := os.ReadFile(filepath.Join(verifDir, "known_findings.json"))
	if err != nil {
		if os.IsNotExist(err) {
			return out, nil
		}
		return nil, err
	}
	var doc struct {
		Findings []sym.Finding `json:"findings"`
	}
	if err := json.Unmarshal(data, &doc); err != nil {
		return nil, err
	}
	for _, f := range doc.Findings {
		out[f.ID] = f
	}
	return out, nil
}

func writeTape(path string, out sym.Outcome) error {
	data, err := json.Marshal(sym.ConcreteDraws(out.Draws, out.Model))
	if err != nil {
		return err
	}
	return os.WriteFile(path, data, 0o644)
}

// nativeReplay runs the listed tapes through `go test -overlay` against the real build.
// nativeReplay runs the entries through the native replay test. Entries that expect a data race are
// run separately, one process each, under the Go race detector (`go test -race`): a "DATA RACE"
// report in the output is the confirmation.
func nativeReplay(prog *sym.Program, entries []replayEntry, timeout time.Duration) (map[string]replayResult, string, error) {
	var plain, racy []replayEntry
	for _, e := range entries {
		if strings.HasPrefix(e.Msg, "data race:") {
			racy = append(racy, e)
		} else {
			plain = append(plain, e)
		}
	}
	res, out, err := nativeReplayRun(prog, plain, timeout, false)
	if err != nil {
		return res, out, err
	}
	for _, e := range racy {
		e.Repeat = 200
		r, o, err := nativeReplayRun(prog, []replayEntry{e}, 10*time.Minute, true)
		out += o
		if err != nil {
			return res, out, err
		}
		got := r[e.ID]
		if strings.Contains(o, "WARNING: DATA RACE") {
			got = replayResult{ID: e.ID, Harness: e.Harness, Kind: "race", Msg: "data race reported by the Go race detector"}
		}
		res[e.ID] = got
	}
	return res, out, nil
}

func nativeReplayRun(prog *sym.Program, entries []replayEntry, timeout time.Duration, race bool) (map[string]replayResult, string, error) {
	res := map[string]replayResult{}
	if len(entries) == 0 {
		return res, "", nil
	}
	scratch, err := os.MkdirTemp("", "symgo-replay-")
	if err != nil {
		return nil, "", err
	}
	defer os.RemoveAll(scratch)
	overlay := map[string]map[string]string{"Replace": {}}
	for virt, real := range prog.Overlay {
		overlay["Replace"][virt] = real
	}
	// the replay test itself
	hd := os.Getenv("VERIF_HARNESS")
	if hd == "" {
		hd = filepath.Join(verifDir, "harness/larking")
	}
	overlay["Replace"][filepath.Join(prog.RepoDir, "larking", "zz_verif_replay_test.go")] = filepath.Join(hd, "replay_test.go")
	ovData, _ := json.Marshal(overlay)
	ovPath := filepath.Join(scratch, "overlay.json")
	if err := os.WriteFile(ovPath, ovData, 0o644); err != nil {
		return nil, "", err
	}
	listData, _ := json.Marshal(entries)
	listPath := filepath.Join(scratch, "list.json")
	if err := os.WriteFile(listPath, listData, 0o644); err != nil {
		return nil, "", err
	}
	args := []string{"test", "-v", "-vet=off", "-count=1", "-run", "^TestVerifReplay$", "-timeout", fmt.Sprintf("%ds", int(timeout.Seconds())), "-overlay", ovPath}
	if race {
		args = append(args, "-race")
	}
	cmd := exec.Command("go", append(args, ".")...)
	cmd.Dir = filepath.Join(prog.RepoDir, "larking")
	cmd.Env = append(os.Environ(), "GOFLAGS=-mod=mod", "GOPROXY=off", "GOSUMDB=off", "GOTOOLCHAIN=local", "VERIF_REPLAY_LIST="+listPath)
	var buf bytes.Buffer
	cmd.Stdout = &buf
	cmd.Stderr = &buf
	runErr := cmd.Run()
	sc := bufio.NewScanner(bytes.NewReader(buf.Bytes()))
	sc.Buffer(make([]byte, 1<<20), 1<<24)
	for sc.Scan() {
		line := sc.Text()
		if i := strings.Index(line, "VERIF-REPLAY "); i >= 0 {
			var r replayResult
			if err := json.Unmarshal([]byte(line[i+len("VERIF-REPLAY "):]), &r); err == nil {
				res[r.ID] = r
			}
		}
	}
	outText := buf.String()
	if len(res) < len(entries) {
		// the test binary died (timeout, fatal error): attribute to the first entry without a result
		for _, e := range entries {
			if _, ok := res[e.ID]; !ok {
				kind := "crash"
				if strings.Contains(outText, "test timed out") {
					kind = "timeout"
				}
				res[e.ID] = replayResult{ID: e.ID, Harness: e.Harness, Kind: kind, Msg: lastLines(outText, 6)}
				break
			}
		}
	}
	_ = runErr
	return res, outText, nil
}

func lastLines(s string, n int) string {
	lines := strings.Split(strings.TrimSpace(s), "\n")
	if len(lines) > n {
		lines = lines[len(lines)-n:]
	}
	return strings.Join(lines, "\n")
}

func sameOutcome(exp replayEntry, got replayResult) bool {
	switch exp.Kind {
	case "ok":
		if got.Kind != "ok" {
			return false
		}
		if exp.Conc {
			return true // cover labels may depend on the schedule, which natively is Go's
		}
		return strings.Join(exp.Covers, ",") == strings.Join(got.Covers, ",")
	case "violation":
		if strings.HasPrefix(exp.Msg, "data race:") {
			return got.Kind == "race"
		}
		if strings.HasPrefix(exp.Msg, "deadlock:") {
			// the engine reports a deadlock from its scheduler, the native run from the harness's watchdog
			return got.Kind == "violation" && strings.HasPrefix(got.Msg, "deadlock:")
		}
		return got.Kind == "violation" && got.Msg == exp.Msg
	case "panic":
		return got.Kind == "panic" || got.Kind == "crash"
	case "budget":
		return got.Kind == "timeout"
	}
	return false
}

func cmdCheck(args []string) int {
	fs := flag.NewFlagSet("check", flag.ExitOnError)
	propID := fs.String("prop", "", "property id")
	tier := fs.String("tier", "quick", "quick|thorough")
	workers := fs.Int("workers", runtime.NumCPU(), "workers")
	solver := fs.String("solver", "z3-new", "solver")
	cross := fs.String("cross", "auto", "second solver for assertion queries (auto = cvc5 in the thorough tier, none otherwise)")
	noReplay := fs.Bool("no-replay", false, "skip native replay of witnesses (violations are always replayed)")
	only := fs.String("only", "", "run only this harness")
	fs.Parse(args)
	if t := os.Getenv("VERIF_TIER"); t != "" && !flagSet(fs, "tier") {
		*tier = t
	}
	spec := props[*propID]
	if spec == nil {
		fmt.Fprintf(os.Stderr, "unknown property %q\n", *propID)
		return 2
	}
	seed := int64(1)
	if s := os.Getenv("VERIF_SEED"); s != "" {
		if v, err := strconv.ParseInt(s, 10, 64); err == nil {
			seed = v
		}
	}
	t0 := time.Now()
	findings, err := loadFindings()
	if err != nil {
		fmt.Fprintln(os.Stderr, "known_findings.json:", err)
		return 2
	}
	prog, err := loadProgram()
	if err != nil {
		fmt.Fprintln(os.Stderr, err)
		return 2
	}
	loadTime := time.Since(t0)
	thorough := *tier == "thorough"
	crossSolver := ""
	switch *cross {
	case "auto":
		if thorough {
			crossSolver = "cvc5"
		}
	case "none", "":
	default:
		crossSolver = *cross
	}
	ex := &sym.Explorer{Property: spec.ID, Prog: prog, Workers: *workers, Solver: *solver, Findings: findings, Seed: seed,
		Cfg: sym.Config{Thorough: thorough, CrossSolver: crossSolver}}
	if err := ex.Start(); err != nil {
		fmt.Fprintln(os.Stderr, err)
		return 2
	}
	defer ex.Close()

	replayDir := filepath.Join(verifDir, "replays")
	os.MkdirAll(replayDir, 0o755)
	scratch, err := os.MkdirTemp("", "symgo-tapes-")
	if err != nil {
		fmt.Fprintln(os.Stderr, err)
		return 2
	}
	defer os.RemoveAll(scratch)

	var sums []hsum
	var entries []replayEntry
	var problems []string
	violationOutcomes := map[string]sym.Outcome{}
	knownOutcomes := map[string]sym.Outcome{}
	nextID := 0
	// translator validation on the repository's own test vectors rides along with every check
	harnesses := append([]HarnessSpec{{Name: "VerifH_selftest", Covers: []string{"negotiate", "lexer", "codecs", "selector", "routing"}}}, spec.Harnesses...)
	for _, hs := range harnesses {
		if *only != "" && hs.Name != *only {
			continue
		}
		if hs.ThoroughOnly && !thorough {
			continue
		}
		maxPaths := hs.MaxPathsQ
		steps := hs.StepsQ
		if thorough {
			maxPaths, steps = hs.MaxPathsT, hs.StepsT
		}
		if maxPaths == 0 {
			maxPaths = 2000000
		}
		ex.SetStepBudget(steps)
		if prog.Func(hs.Name) == nil && len(prog.Dropped) > 0 {
			// its file does not compile against this tree: the harness is unavailable, the others run
			why := ""
			for f, msg := range prog.Dropped {
				why += fmt.Sprintf(" [%s: %s]", filepath.Base(f), firstLines(msg, 1))
			}
			problems = append(problems, fmt.Sprintf("%s: harness unavailable, a harness file does not compile against this tree:%s", hs.Name, why))
			continue
		}
		res, err := ex.Run(hs.Name, maxPaths, 12)
		if err != nil {
			fmt.Fprintln(os.Stderr, err)
			return 2
		}
		fmt.Println(res.Summary())
		if hs.MustViolate != "" {
			found := false
			for _, v := range res.Violations {
				if strings.Contains(v.Msg, hs.MustViolate) {
					found = true
				}
			}
			if !found {
				problems = append(problems, fmt.Sprintf("%s: engine self-validation failed: no violation containing %q was found", hs.Name, hs.MustViolate))
			}
			res.Violations = nil
			sums = append(sums, hsum{res: res, spec: hs})
			continue
		}
		s := hsum{res: res, spec: hs}
		for _, c := range hs.Covers {
			if _, ok := res.CoverSamples[c]; !ok {
				s.missing = append(s.missing, c)
			}
		}
		if len(s.missing) > 0 {
			problems = append(problems, fmt.Sprintf("%s: required cover labels not reached: %v", hs.Name, s.missing))
		}
		if res.PathBudget {
			problems = append(problems, fmt.Sprintf("%s: path budget exhausted", hs.Name))
		}
		for _, o := range res.Inconclusive {
			if o.Kind == "budget" && hs.Terminates {
				o.Kind = "budget"
				res.Violations = append(res.Violations, o)
				continue
			}
			problems = append(problems, fmt.Sprintf("%s: %s: %s", hs.Name, o.Kind, firstLines(o.Msg, 3)))
		}
		addEntry := func(o sym.Outcome, prefix string) string {
			id := fmt.Sprintf("%s%d", prefix, nextID)
			nextID++
			tape := filepath.Join(scratch, id+".json")
			if err := writeTape(tape, o); err != nil {
				problems = append(problems, "tape: "+err.Error())
				return ""
			}
			rep := 0
			if prefix != "w" {
				rep = 40 // violations may depend on Go's random map iteration order
				if hs.Concurrent {
					rep = 5000 // ... or on the goroutine schedule: stress until it shows
				}
			}
			entries = append(entries, replayEntry{ID: id, Harness: hs.Name, Tape: tape, Tier: *tier, Repeat: rep, Kind: o.Kind, Msg: o.Msg, Covers: o.Covers, Conc: hs.Concurrent, KnownID: o.Known})
			return id
		}
		for vi, v := range res.Violations {
			if hs.Concurrent && vi >= 2 {
				break // each one is stress-replayed thousands of times
			}
			if id := addEntry(v, "v"); id != "" {
				violationOutcomes[id] = v
			}
		}
		for _, hits := range res.KnownHits {
			if id := addEntry(hits[0], "k"); id != "" {
				knownOutcomes[id] = hits[0]
			}
		}
		if !*noReplay {
			seen := map[string]bool{}
			for _, c := range hs.Covers {
				if o, ok := res.CoverSamples[c]; ok {
					sig := fmt.Sprint(sym.ConcreteDraws(o.Draws, o.Model))
					if !seen[sig] {
						seen[sig] = true
						addEntry(o, "w")
					}
				}
			}
			// labels starting with "w:" ask for a native replay of one path each (model validation:
			// e.g. every entry of a menu of texts goes through the real codec once per run)
			var wl []string
			for c := range res.CoverSamples {
				if strings.HasPrefix(c, "w:") {
					wl = append(wl, c)
				}
			}
			sort.Strings(wl)
			for _, c := range wl {
				o := res.CoverSamples[c]
				sig := fmt.Sprint(sym.ConcreteDraws(o.Draws, o.Model))
				if !seen[sig] {
					seen[sig] = true
					addEntry(o, "w")
				}
			}
			for _, o := range res.Samples {
				sig := fmt.Sprint(sym.ConcreteDraws(o.Draws, o.Model))
				if !seen[sig] {
					seen[sig] = true
					addEntry(o, "w")
				}
			}
		}
		sums = append(sums, s)
	}

	// native replay
	replayed, outText, err := nativeReplay(prog, entries, 300*time.Second)
	if err != nil {
		problems = append(problems, "native replay: "+err.Error())
	}
	validated, mismatched := 0, 0
	var confirmed []replayEntry
	var knownConfirmed = map[string]replayEntry{}
	for _, e := range entries {
		got, ok := replayed[e.ID]
		if !ok {
			if e.ID[0] == 'w' {
				continue // after a crash of the test binary later entries have no result
			}
			problems = append(problems, fmt.Sprintf("replay %s (%s) produced no result:\n%s", e.ID, e.Harness, lastLines(outText, 8)))
			continue
		}
		same := sameOutcome(e, got)
		if !same && e.ID[0] == 'w' && e.Conc && e.KnownID != "" && got.Kind == "violation" {
			// a concurrent path inside the region of an open known finding: whether the finding shows
			// depends on the schedule, which natively is Go's
			if f, ok := findings[e.KnownID]; ok && f.Status == "open" && (f.Check == "" || strings.Contains(got.Msg, f.Check)) {
				same = true
			}
		}
		switch e.ID[0] {
		case 'w':
			if same {
				validated++
			} else {
				mismatched++
				if data, err := os.ReadFile(e.Tape); err == nil {
					var draws interface{}
					json.Unmarshal(data, &draws)
					doc := map[string]interface{}{"property": spec.ID, "harness": e.Harness, "tier": *tier, "kind": e.Kind, "msg": "witness mismatch: native " + got.Kind + " " + got.Msg, "draws": draws}
					dd, _ := json.MarshalIndent(doc, "", " ")
					os.WriteFile(filepath.Join(replayDir, fmt.Sprintf("mismatch-%s-%s-%d.json", spec.ID, e.Harness, mismatched)), dd, 0o644)
				}
				problems = append(problems, fmt.Sprintf("witness replay mismatch in %s: engine predicted %s %v, native gave %s %q %v", e.Harness, e.Kind, e.Covers, got.Kind, got.Msg, got.Covers))
			}
		case 'v':
			if same {
				validated++
				confirmed = append(confirmed, e)
			} else {
				problems = append(problems, fmt.Sprintf("UNCONFIRMED counterexample in %s: engine %s %q, native %s %q", e.Harness, e.Kind, firstLines(e.Msg, 1), got.Kind, firstLines(got.Msg, 2)))
			}
		case 'k':
			if same {
				validated++
				knownConfirmed[knownOutcomes[e.ID].Known] = e
			} else {
				problems = append(problems, fmt.Sprintf("known finding %s did not reproduce natively in %s: engine %s %q, native %s %q", knownOutcomes[e.ID].Known, e.Harness, e.Kind, firstLines(e.Msg, 1), got.Kind, firstLines(got.Msg, 2)))
			}
		}
	}

	// report
	exit := 0
	var ids []string
	for id := range knownConfirmed {
		ids = append(ids, id)
	}
	sort.Strings(ids)
	for _, id := range ids {
		f := findings[id]
		fmt.Printf("KNOWN-FINDING: property=%s %s %s\n", spec.ID, id, f.Example)
	}
	var replayPaths []string
	for i, e := range confirmed {
		dst := filepath.Join(replayDir, fmt.Sprintf("%s-%s-%d.json", spec.ID, e.Harness, i))
		v := violationOutcomes[e.ID]
		doc := map[string]interface{}{
			"property": spec.ID, "harness": e.Harness, "tier": *tier, "kind": e.Kind, "msg": e.Msg,
			"draws": sym.ConcreteDraws(v.Draws, v.Model), "stack": v.Stack,
		}
		data, _ := json.MarshalIndent(doc, "", " ")
		os.WriteFile(dst, data, 0o644)
		replayPaths = append(replayPaths, dst)
		fmt.Printf("VIOLATION property=%s replay=%s\n", spec.ID, dst)
		fmt.Printf("  harness=%s %s: %s\n", e.Harness, e.Kind, firstLines(e.Msg, 2))
		exit = 1
	}
	for _, p := range problems {
		fmt.Println("INCONCLUSIVE:", p)
	}
	if exit == 0 && len(problems) > 0 {
		exit = 2
		for _, p := range problems {
			if strings.HasPrefix(p, "UNCONFIRMED") {
				exit = 3
			}
		}
	}

	writeEvidence(spec, *tier, seed, sums, ex, prog, validated, mismatched, len(confirmed), ids, problems, time.Since(t0), loadTime, *solver)
	fmt.Printf("%s %s: exit=%d wall=%.1fs\n", spec.ID, *tier, exit, time.Since(t0).Seconds())
	return exit
}

func flagSet(fs *flag.FlagSet, name string) bool {
	found := false
	fs.Visit(func(f *flag.Flag) {
		if f.Name == name {
			found = true
		}
	})
	return found
}

func firstLines(s string, n int) string {
	lines := strings.Split(s, "\n")
	if len(lines) > n {
		lines = lines[:n]
	}
	return strings.Join(lines, " | ")
}

type hsum struct {
	res     *sym.HarnessResult
	spec    HarnessSpec
	missing []string
}

func writeEvidence(spec *PropSpec, tier string, seed int64, sums []hsum, ex *sym.Explorer, prog *sym.Program,
	validated, mismatched, violations int, known []string, problems []string, wall, loadTime time.Duration, solver string) {
	states, transitions, distinct := 0, 0, 0
	var samples []interface{}
	var hs []interface{}
	repoFuncs := map[string]int{}
	libFuncs := map[string]int{}
	intr := map[string]int{}
	q := map[string]int{}
	var solverTime, interpTime float64
	for _, s := range sums {
		r := s.res
		states += r.Paths
		transitions += r.Forced + r.Decided + r.Choices
		distinct += len(r.Distinct)
		var labels []string
		for l := range r.CoverSamples {
			labels = append(labels, l)
		}
		sort.Strings(labels)
		for _, l := range labels {
			o := r.CoverSamples[l]
			samples = append(samples, map[string]interface{}{"harness": r.Name, "cover": l, "outcome": o.Kind,
				"draws": sym.ConcreteDraws(o.Draws, o.Model), "decisions": len(o.Tape), "steps": o.Steps})
		}
		for _, o := range r.Violations {
			samples = append(samples, map[string]interface{}{"harness": r.Name, "outcome": o.Kind, "msg": firstLines(o.Msg, 2),
				"draws": sym.ConcreteDraws(o.Draws, o.Model)})
		}
		for id, hits := range r.KnownHits {
			o := hits[0]
			samples = append(samples, map[string]interface{}{"harness": r.Name, "outcome": o.Kind, "known_finding": id, "msg": firstLines(o.Msg, 2),
				"draws": sym.ConcreteDraws(o.Draws, o.Model)})
		}
		for k, v := range r.Funcs {
			if strings.Contains(k, "larking.io/larking") && !strings.Contains(k, "VerifH_") && !strings.Contains(k, ".vf") && !strings.Contains(k, ".ref") && !strings.Contains(k, ".fake") {
				repoFuncs[k] += v
			} else if !strings.Contains(k, "larking.io/larking") {
				libFuncs[k] += v
			}
		}
		for k, v := range r.Intrinsics {
			intr[k] += v
		}
		q["sat"] += r.Queries.Sat
		q["unsat"] += r.Queries.Unsat
		q["unknown"] += r.Queries.Unknown
		q["errors"] += r.Queries.Errors
		q["feasibility"] += r.FeasQ
		q["assertion"] += r.AssertQ
		q["concretisation"] += r.ConcQ
		q["cross_solver_asked"] += r.CrossAsked
		q["cross_solver_agreed"] += r.CrossAgreed
		q["cross_solver_skipped"] += r.CrossSkipped
		solverTime += r.SolverTime.Seconds()
		interpTime += r.InterpTime.Seconds()
		hs = append(hs, map[string]interface{}{"harness": r.Name, "paths": r.Paths, "outcomes": r.Kinds, "ssa_steps": r.Steps,
			"decisions_forked": r.Decided, "decisions_forced_by_solver": r.Forced, "nondeterministic_choices_taken": r.Choices, "distinct_outcome_signatures": len(r.Distinct),
			"required_covers": s.spec.Covers, "covers_missing": s.missing, "wall_s": round2(r.Wall.Seconds()),
			"path_budget_exhausted": r.PathBudget})
	}
	if samples == nil {
		samples = []interface{}{}
	}
	bounds := spec.Bounds[tier]
	ev := map[string]interface{}{
		"property_id": spec.ID,
		"tier":        tier,
		"seed":        seed,
		"level":       "model_checking",
		"wall_s":      round2(wall.Seconds()),
		"violations":  violations,
		"assumptions": append(append([]string{}, spec.Assume...), "go/ssa (x/tools v0.29.0) as the semantics of the source", "solver verdicts of "+solver+" (incremental, with one-shot fallback)"),
		"coverage": map[string]interface{}{
			"states":                        states,
			"transitions":                   transitions,
			"traces_validated_against_impl": validated,
			"samples":                       samples,
			"evaluations":                   states,
			"distinct_nontrivial":           distinct,
			"rule":                          "one evaluation = one completed symbolic path (a set of inputs sharing every branch outcome); distinct_nontrivial counts distinct (outcome, violated check, cover-label set) signatures per harness",
			"exhaustive":                    len(problems) == 0,
			"bounds":                        bounds,
			"outside_the_claim":             spec.Outside,
			"harnesses":                     hs,
			"functions_encoded":             repoFuncs,
			"library_functions_interpreted": libFuncs,
			"intrinsics_and_stubs_used":     intr,
			"queries":                       q,
			"solver":                        solver,
			"solver_time_s":                 round2(solverTime),
			"interp_time_s":                 round2(interpTime),
			"load_and_ssa_build_s":          round2(loadTime.Seconds()),
			"workers":                       ex.Workers,
			"witness_replay_mismatches":     mismatched,
			"known_findings_seen":           known,
			"inconclusive":                  problems,
			"explanation":                   "bounded symbolic execution of the real functions (go/ssa of /repo's working tree) with an SMT solver deciding every branch and assertion; exhaustive within the stated bounds when 'inconclusive' is empty",
		},
	}
	data, _ := json.MarshalIndent(ev, "", " ")
	os.MkdirAll(filepath.Join(verifDir, "evidence"), 0o755)
	os.WriteFile(filepath.Join(verifDir, "evidence", spec.ID+".json"), data, 0o644)
}

func round2(f float64) float64 { return float64(int(f*100+0.5)) / 100 }
