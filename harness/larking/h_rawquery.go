package larking

import (
	"net/http"
	"net/url"
)

func init() {
	vfHarnesses["VerifH_serveHTTP_rawquery"] = VerifH_serveHTTP_rawquery
}

// VerifH_serveHTTP_rawquery (C09, C07, C03): GET /aa/zz?<fully symbolic bytes> through ServeHTTP
// (net/url's query parsing interpreted from source): whatever the query string is - bad percent
// escapes, empty keys, ';', repeated '&' and '=', dotted keys into and through message fields,
// values for typed fields - the mux answers with exactly one well-formed response; when it
// dispatches, the path-bound field holds the path capture and a recognised string parameter holds
// its (unescaped) value; an unknown key is never a success.
func VerifH_serveHTTP_rawquery() {
	in := schemaRoute()
	out := newFakeMD("vf.Resp", strField("r"))
	mux, srv, _ := vfMuxWith(vfHTTPRule("GET", "/aa/{f}"), in, out)
	q := vfString(vfLen(vfBound(5, 7)))
	r := &http.Request{Method: "GET", URL: &url.URL{Path: "/aa/zz", RawQuery: q},
		Header: http.Header{"Accept": []string{"application/x"}}, Body: vfNopCloser{&vfWholeReader{}}, ProtoMajor: 1, ProtoMinor: 1}
	w := newFakeRW()
	mux.ServeHTTP(w, r)
	vfCheck(w.committed, "no response was produced")
	vfCheck(srv.calls <= 1, "handler invoked more than once")
	if srv.calls == 0 {
		vfCheck(w.status != 200, "a request that was not delivered was answered 200")
		vfCover("refused")
		return
	}
	vfCheck(w.status == 200, "a delivered request was not answered 200")
	got := srv.got[0]
	vfCheck(got.str("f") == "zz", "the path-bound field does not hold the path capture")
	// simple shape "g=<plain>": the value must arrive verbatim
	if len(q) >= 2 && q[0] == 'g' && q[1] == '=' {
		plain := true
		for i := 2; i < len(q); i++ {
			if !vfIsPlainQueryByte(q[i]) {
				plain = false
			}
		}
		if plain {
			vfCheck(got.str("g") == q[2:], "a plain query value did not reach its field verbatim")
			vfCover("delivered-g")
		}
	}
	vfCover("delivered")
}
