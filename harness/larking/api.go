package larking

// Harness API. Under the symbolic engine (symgo) every vf* function is intercepted by name and its
// body is never executed. Natively (replay of a solver model against the real build) the bodies
// below read the recorded values from a tape, so the very same harness source is both the symbolic
// obligation and the concrete reproduction.

import (
	"encoding/json"
	"fmt"
	"os"
	"runtime"
)

type vfDraw struct {
	K string `json:"k"`
	V int64  `json:"v"`
	U uint64 `json:"u"`
	B []int  `json:"b"`
}

type vfState struct {
	tape   []vfDraw
	pos    int
	covers []string
	failed string
	tier   string
}

var vfS vfState

type vfAssumeFailed struct{}
type vfCheckFailed struct{ what string }

func vfLoadTape(path string) error {
	data, err := os.ReadFile(path)
	if err != nil {
		return err
	}
	var raw []map[string]interface{}
	if err := json.Unmarshal(data, &raw); err != nil {
		return err
	}
	vfS = vfState{}
	for _, r := range raw {
		d := vfDraw{K: r["k"].(string)}
		if v, ok := r["v"]; ok {
			switch v := v.(type) {
			case float64:
				d.V = int64(v)
				d.U = uint64(v)
			case string:
				fmt.Sscan(v, &d.U)
				d.V = int64(d.U)
			}
		}
		if b, ok := r["b"].([]interface{}); ok {
			for _, x := range b {
				d.B = append(d.B, int(x.(float64)))
			}
		}
		vfS.tape = append(vfS.tape, d)
	}
	return nil
}

func vfNext(kind string) vfDraw {
	if vfS.pos >= len(vfS.tape) {
		panic(fmt.Sprintf("verif tape exhausted at draw %d (%s)", vfS.pos, kind))
	}
	d := vfS.tape[vfS.pos]
	vfS.pos++
	return d
}

func vfByte() byte { return byte(vfNext("byte").U) }
func vfBytes(n int) []byte {
	d := vfNext("bytes")
	b := make([]byte, n)
	for i := range b {
		if i < len(d.B) {
			b[i] = byte(d.B[i])
		}
	}
	return b
}
func vfString(n int) string          { return string(vfBytes(n)) }
func vfU32() uint32                  { return uint32(vfNext("u32").U) }
func vfU64() uint64                  { return vfNext("u64").U }
func vfInt(lo, hi int) int           { return int(vfNext("int").V) }
func vfLen(max int) int              { return int(vfNext("len").V) }
func vfChoice(n int) int             { return int(vfNext("choice").V) }
func vfBool() bool                   { return vfNext("bool").V != 0 }
func vfConc(x int) int               { return x }
func vfSymbolic() bool               { return false }
func vfKnown(id string, c bool) bool { return c }
func vfCover(label string) {
	for _, c := range vfS.covers {
		if c == label {
			return
		}
	}
	vfS.covers = append(vfS.covers, label)
}
func vfAssume(c bool) {
	if !c {
		panic(vfAssumeFailed{})
	}
}
func vfCheck(c bool, what string) {
	if !c {
		panic(vfCheckFailed{what})
	}
}
func vfFail(what string) { panic(vfCheckFailed{what}) }

// vfBound returns q in the quick tier and t in the thorough tier.
func vfBound(q, t int) int {
	if vfS.tier == "thorough" {
		return t
	}
	return q
}

// vfHarnesses is the registry used by the native replay test.
var vfHarnesses = map[string]func(){}

// vfMapOrder: under the engine, selects the order in which maps are ranged over (0 insertion, 1
// reverse insertion); natively Go's own unspecified order applies.
func vfMapOrder(k int) {}

// vfYield is an explicit scheduling point of the engine's goroutine model; natively it yields the
// processor. vfPreemptions sets the engine's context bound (preemptive switches per path).
func vfYield()            { runtime.Gosched() }
func vfPreemptions(n int) {}

// vfRaceDetect switches the engine's happens-before race detector on; natively the replay of a
// reported race runs under `go test -race`.
func vfRaceDetect() {}

// vfSingleP: natively, run the rest of the harness on one processor (so that sync.Pool hands an
// object put by one goroutine to the next one that asks, as the engine's pool model does) and
// return the function that restores the setting; under the engine a no-op.
func vfSingleP() func() {
	old := runtime.GOMAXPROCS(1)
	return func() { runtime.GOMAXPROCS(old) }
}

func vfNoop() {}
