package sym

import (
	"fmt"
	"go/types"
	"os"
	"path/filepath"
	"sort"
	"strings"
	"sync"

	"golang.org/x/tools/go/packages"
	"golang.org/x/tools/go/ssa"
	"golang.org/x/tools/go/ssa/ssautil"
)

// Program is the SSA form of /repo's current tree plus the overlaid harness files.
type Program struct {
	SSA      *ssa.Program
	Pkg      *ssa.Package // the package under test (larking)
	PkgPath  string
	Overlay  map[string]string // virtual path -> real path
	Dropped  map[string]string // harness files that do not compile against this tree -> first error
	RepoDir  string
	byName   map[string]*ssa.Package
	implMemo map[[2]types.Type]bool
	implMu   sync.Mutex
	tokens   sync.Map
}

// Load loads pkgPath from repoDir with the harness files of harnessDir overlaid into pkgDir.
func Load(repoDir, pkgDir, pkgPath, harnessDir string) (*Program, error) {
	overlay := map[string][]byte{}
	ovPaths := map[string]string{}
	ents, err := os.ReadDir(harnessDir)
	if err != nil {
		return nil, err
	}
	for _, e := range ents {
		if e.IsDir() || !strings.HasSuffix(e.Name(), ".go") || strings.HasSuffix(e.Name(), "_test.go") {
			continue
		}
		src, err := os.ReadFile(filepath.Join(harnessDir, e.Name()))
		if err != nil {
			return nil, err
		}
		virt := filepath.Join(repoDir, pkgDir, "zz_verif_"+e.Name())
		overlay[virt] = src
		ovPaths[virt] = filepath.Join(harnessDir, e.Name())
	}
	// A harness file (h_*.go) that no longer type-checks against this tree - a larking-internal
	// function it drives changed its signature, a field it reads was renamed - is dropped and the load
	// repeated, so that the remaining harnesses still run; the harnesses it defined are reported as
	// unavailable (inconclusive) by the caller. Errors anywhere else are fatal.
	dropped := map[string]string{}
	var pkgs []*packages.Package
	for attempt := 0; ; attempt++ {
		cfg := &packages.Config{
			Mode:    packages.LoadAllSyntax,
			Dir:     repoDir,
			Overlay: overlay,
			Env: append(os.Environ(), "GOFLAGS=-mod=mod", "GOPROXY=off", "GOSUMDB=off", "GOTOOLCHAIN=local",
				"CGO_ENABLED=0"),
		}
		var err error
		pkgs, err = packages.Load(cfg, pkgPath)
		if err != nil {
			return nil, err
		}
		var errs []string
		bad := map[string]string{}
		fatal := false
		packages.Visit(pkgs, nil, func(p *packages.Package) {
			for _, e := range p.Errors {
				errs = append(errs, e.Error())
				file := e.Pos
				if i := strings.Index(file, ":"); i >= 0 {
					file = file[:i]
				}
				if _, isOv := overlay[file]; isOv && strings.HasPrefix(filepath.Base(file), "zz_verif_h_") {
					if _, seen := bad[file]; !seen {
						bad[file] = e.Error()
					}
				} else {
					fatal = true
				}
			}
		})
		if len(errs) == 0 {
			break
		}
		if fatal || len(bad) == 0 || attempt > 8 {
			sort.Strings(errs)
			if len(errs) > 20 {
				errs = errs[:20]
			}
			return nil, fmt.Errorf("load errors:\n%s", strings.Join(errs, "\n"))
		}
		for f, msg := range bad {
			dropped[ovPaths[f]] = msg
			delete(overlay, f)
			delete(ovPaths, f)
		}
	}
	prog, spkgs := ssautil.AllPackages(pkgs, ssa.InstantiateGenerics|ssa.SanityCheckFunctions&0)
	prog.Build()
	p := &Program{SSA: prog, PkgPath: pkgPath, Overlay: ovPaths, RepoDir: repoDir, Dropped: dropped,
		byName: map[string]*ssa.Package{}, implMemo: map[[2]types.Type]bool{}}
	for _, sp := range prog.AllPackages() {
		p.byName[sp.Pkg.Path()] = sp
	}
	for i, pk := range pkgs {
		if pk.PkgPath == pkgPath {
			p.Pkg = spkgs[i]
		}
	}
	if p.Pkg == nil {
		return nil, fmt.Errorf("package %s not found", pkgPath)
	}
	return p, nil
}

func (p *Program) Package(path string) *ssa.Package { return p.byName[path] }

// Func finds a package-level function of the package under test.
func (p *Program) Func(name string) *ssa.Function { return p.Pkg.Func(name) }

// FuncIn finds pkgpath.Name.
func (p *Program) FuncIn(pkg, name string) *ssa.Function {
	sp := p.byName[pkg]
	if sp == nil {
		return nil
	}
	return sp.Func(name)
}

// OverlayOnly computes the overlay mapping without loading the program.
func OverlayOnly(repoDir, pkgDir, harnessDir string) (*Program, error) {
	ents, err := os.ReadDir(harnessDir)
	if err != nil {
		return nil, err
	}
	p := &Program{Overlay: map[string]string{}, RepoDir: repoDir}
	for _, e := range ents {
		if e.IsDir() || !strings.HasSuffix(e.Name(), ".go") || strings.HasSuffix(e.Name(), "_test.go") {
			continue
		}
		p.Overlay[filepath.Join(repoDir, pkgDir, "zz_verif_"+e.Name())] = filepath.Join(harnessDir, e.Name())
	}
	return p, nil
}
