package larking

import (
	"net/http"

	"google.golang.org/genproto/googleapis/api/annotations"
	"google.golang.org/protobuf/reflect/protoreflect"
)

func init() {
	vfHarnesses["VerifH_selftest"] = VerifH_selftest
}

// VerifH_selftest: translator validation (DESIGN 2.4): the repository's own test vectors -
// TestNegotiateContentType / Encoding, TestLexer, BenchmarkLexer's token count, TestStreamCodecs'
// framing cases, TestRuleSelector and the URL -> method table of TestMessageServer over the
// transcribed api/test.proto template set - are pushed through the real functions under the engine
// (everything concrete: one path) and natively; both must produce the outcomes the repository's
// tests expect. A divergence means the engine mis-interprets some instruction.
func VerifH_selftest() {
	// --- negotiate_test.go ---
	encTests := []struct {
		s      string
		offers []string
		expect string
	}{
		{"", []string{"identity", "gzip"}, "identity"},
		{"*;q=0", []string{"identity", "gzip"}, ""},
		{"gzip", []string{"identity", "gzip"}, "gzip"},
	}
	for _, tt := range encTests {
		vfCheck(negotiateContentEncoding(http.Header{"Accept-Encoding": {tt.s}}, tt.offers) == tt.expect, "selftest: negotiateContentEncoding vector "+tt.s)
	}
	ctTests := []struct {
		s            string
		offers       []string
		defaultOffer string
		expect       string
	}{
		{"application/proto", []string{"application/json", "application/proto"}, "application/json", "application/proto"},
		{"text/html, */*;q=0", []string{"x/y"}, "", ""},
		{"text/html, */*", []string{"x/y"}, "", "x/y"},
		{"text/html, image/png", []string{"text/html", "image/png"}, "", "text/html"},
		{"text/html, image/png", []string{"image/png", "text/html"}, "", "image/png"},
		{"text/html, image/png; q=0.5", []string{"image/png"}, "", "image/png"},
		{"text/html, image/png; q=0.5", []string{"text/html"}, "", "text/html"},
		{"text/html, image/png; q=0.5", []string{"foo/bar"}, "", ""},
		{"text/html, image/png; q=0.5", []string{"image/png", "text/html"}, "", "text/html"},
		{"text/html, image/png; q=0.5", []string{"text/html", "image/png"}, "", "text/html"},
		{"text/html;q=0.5, image/png", []string{"image/png"}, "", "image/png"},
		{"text/html;q=0.5, image/png", []string{"text/html"}, "", "text/html"},
		{"text/html;q=0.5, image/png", []string{"image/png", "text/html"}, "", "image/png"},
		{"text/html;q=0.5, image/png", []string{"text/html", "image/png"}, "", "image/png"},
		{"image/png, image/*;q=0.5", []string{"image/jpg", "image/png"}, "", "image/png"},
		{"image/png, image/*;q=0.5", []string{"image/jpg"}, "", "image/jpg"},
		{"image/png, image/*;q=0.5", []string{"image/jpg", "image/gif"}, "", "image/jpg"},
		{"image/png, image/*", []string{"image/jpg", "image/gif"}, "", "image/jpg"},
		{"image/png, image/*", []string{"image/gif", "image/jpg"}, "", "image/gif"},
		{"image/png, image/*", []string{"image/gif", "image/png"}, "", "image/png"},
		{"image/png, image/*", []string{"image/png", "image/gif"}, "", "image/png"},
	}
	for _, tt := range ctTests {
		vfCheck(negotiateContentType(http.Header{"Accept": {tt.s}}, tt.offers, tt.defaultOffer) == tt.expect, "selftest: negotiateContentType vector "+tt.s)
	}
	vfCover("negotiate")

	// --- lexer_test.go ---
	l := &lexer{input: "/v1/messages/{name=name/*}"}
	vfCheck(lexTemplate(l) == nil, "selftest: TestLexer template rejected")
	want := tokens{{"/", tokenSlash}, {"v1", tokenLiteral}, {"/", tokenSlash}, {"messages", tokenLiteral}, {"/", tokenSlash},
		{"{", tokenVariableStart}, {"name", tokenIdent}, {"=", tokenEqual}, {"name", tokenLiteral}, {"/", tokenSlash}, {"*", tokenStar},
		{"}", tokenVariableEnd}, {"", tokenEOF}}
	got := l.tokens()
	vfCheck(len(got) == len(want), "selftest: TestLexer token count")
	for i := range want {
		vfCheck(i < len(got) && got[i] == want[i], "selftest: TestLexer token")
	}
	lp := &lexer{input: "/v1/books/1/shevles/1:read"}
	vfCheck(lexPath(lp) == nil && lp.len == 13, "selftest: BenchmarkLexer expects 13 tokens")
	vfCover("lexer")

	// --- codec_test.go (framing part) ---
	protob := append([]byte{0x0a, 0x0f}, []byte("hello, protobuf")...)
	jsonb := []byte(`{"text":"hello, json"}`)
	jsonescape := []byte(`{"text":"hello, json} \" }}"}`)
	frame := append([]byte{byte(len(protob))}, protob...)
	codecTests := []struct {
		name  string
		codec StreamCodec
		input []byte
		extra []byte
		want  []byte
	}{
		{"proto buffered", CodecProto{}, frame, nil, protob},
		{"proto unbuffered", CodecProto{}, make([]byte, 0, 4+len(protob)), frame, protob},
		{"proto partial size", CodecProto{}, frame[:1], frame[1:], protob},
		{"proto partial message", CodecProto{}, frame[:6], frame[6:], protob},
		{"proto zero size", CodecProto{}, nil, []byte{0}, []byte{}},
		{"json buffered", CodecJSON{}, jsonb, nil, jsonb},
		{"json unbuffered", CodecJSON{}, make([]byte, 0, 4+len(jsonb)), jsonb, jsonb},
		{"json partial object", CodecJSON{}, jsonb[:2], jsonb[2:], jsonb},
		{"json escape", CodecJSON{}, jsonescape, nil, jsonescape},
	}
	for _, tt := range codecTests {
		in := append([]byte(nil), tt.input...)
		if tt.input != nil && len(tt.input) == 0 {
			in = make([]byte, 0, cap(tt.input))
		}
		b, n, err := tt.codec.ReadNext(in, &vfWholeReader{data: tt.extra}, len(tt.want))
		vfCheck(err == nil && n <= len(b) && vfBytesEq(b[:n], tt.want), "selftest: TestStreamCodecs "+tt.name)
		sink := &vfSink{}
		_, werr := tt.codec.WriteNext(sink, b[:n])
		onwire := append(append([]byte(nil), tt.input...), tt.extra...)
		vfCheck(werr == nil && vfBytesEq(sink.buf, onwire), "selftest: TestStreamCodecs on-wire bytes "+tt.name)
	}
	vfCover("codecs")

	// --- mux_test.go TestRuleSelector ---
	r1 := &annotations.HttpRule{Selector: "larking.LarkingService.Get"}
	r2 := &annotations.HttpRule{Selector: "grpc.health.v1.Health.Check"}
	r3 := &annotations.HttpRule{Selector: "wildcard.Service.*"}
	var hr ruleSelector
	hr.setRules([]*annotations.HttpRule{r1, r2, r3})
	g1, g2, g3 := hr.getRules("larking.LarkingService.Get"), hr.getRules("grpc.health.v1.Health.Check"), hr.getRules("wildcard.Service.Get.DeepMethod")
	vfCheck(len(g1) > 0 && g1[0] == r1 && len(g2) > 0 && g2[0] == r2 && len(g3) > 0 && g3[0] == r3, "selftest: TestRuleSelector")
	vfCover("selector")

	// --- rules_test.go TestMessageServer: URL -> method over the api/test.proto template set ---
	sub := newFakeMD("t.Sub", strField("subfield"))
	book := newFakeMD("t.Book", strField("name"), strField("title"))
	in := newFakeMD("t.Req", strField("name"), strField("message_id"), strField("user_id"), strField("text"), strField("parent"), strField("revision"),
		&fakeFD{name: "sub", kind: protoreflect.MessageKind, msg: sub}, &fakeFD{name: "book", kind: protoreflect.MessageKind, msg: book},
		&fakeFD{name: "message", kind: protoreflect.MessageKind, msg: sub})
	root := newPath()
	type tr struct {
		method, verb, tmpl, body string
		extra                    []string
	}
	rules := []tr{
		{"GetMessageOne", "GET", "/v1/messages/{name=name/*}", "", nil},
		{"GetMessageTwo", "GET", "/v1/messages/{message_id}", "", []string{"/v1/users/{user_id}/messages", "/v1/users/{user_id}/messages/{message_id}"}},
		{"UpdateMessage", "PATCH", "/v1/messages/{message_id}", "message", nil},
		{"UpdateMessageBody", "PATCH", "/v1/messages/{message_id}/body", "*", nil},
		{"Action", "POST", "/v1/{text=action}:cancel", "*", nil},
		{"ActionSegment", "POST", "/v1/{text=*}:clear", "*", nil},
		{"ActionResource", "GET", "/v1/{text=actions/*}:fetch", "", nil},
		{"ActionSegments", "POST", "/v1/{text=**}:watch", "*", nil},
		{"BatchGet", "GET", "/v3/events:batchGet", "", nil},
		{"VariableOne", "GET", "/{text}/one", "", nil},
		{"VariableTwo", "GET", "/{text}/two", "", nil},
		{"GetShelf", "GET", "/v1/{name=shelves/*}", "", nil},
		{"GetBook", "GET", "/v1/{name=shelves/*/books/*}", "", nil},
		{"CreateBook", "POST", "/v1/{parent=shelves/*}/books", "book", nil},
		{"UpdateBook", "PATCH", "/v1/{book.name=shelves/*/books/*}", "book", nil},
	}
	for _, r := range rules {
		d := &fakeMethod{full: "larking.testpb.Messaging." + r.method, in: in, out: in}
		name := "/larking.testpb.Messaging/" + r.method
		imp := vfHTTPRule("*", name)
		imp.Body = "*"
		vfCheck(root.addRule(imp, d, name) == nil, "selftest: implicit rule rejected "+r.method)
		rule := vfHTTPRule(r.verb, r.tmpl)
		rule.Body = r.body
		for _, e := range r.extra {
			rule.AdditionalBindings = append(rule.AdditionalBindings, vfHTTPRule("GET", e))
		}
		vfCheck(root.addRule(rule, d, name) == nil, "selftest: test.proto rule rejected "+r.tmpl)
	}
	urls := []struct{ verb, path, method, field, val string }{
		{"GET", "/v1/messages/name/hello", "GetMessageOne", "name", "name/hello"},
		{"GET", "/v1/messages/123456", "GetMessageTwo", "message_id", "123456"},
		{"GET", "/v1/users/usr_123/messages", "GetMessageTwo", "user_id", "usr_123"},
		{"GET", "/v1/users/usr_123/messages/msg_123", "GetMessageTwo", "message_id", "msg_123"},
		{"PATCH", "/v1/messages/msg_123", "UpdateMessage", "message_id", "msg_123"},
		{"POST", "/v1/action:cancel", "Action", "text", "action"},
		{"POST", "/v1/name:clear", "ActionSegment", "text", "name"},
		{"GET", "/v1/actions/123:fetch", "ActionResource", "text", "actions/123"},
		{"POST", "/v1/name/id:watch", "ActionSegments", "text", "name/id"},
		{"GET", "/v3/events:batchGet", "BatchGet", "", ""},
		{"GET", "/version/one", "VariableOne", "text", "version"},
		{"GET", "/version/two", "VariableTwo", "text", "version"},
		{"GET", "/v1/shelves/shelf1", "GetShelf", "name", "shelves/shelf1"},
		{"GET", "/v1/shelves/shelf1/books/book2", "GetBook", "name", "shelves/shelf1/books/book2"},
		{"POST", "/v1/shelves/shelf1/books", "CreateBook", "parent", "shelves/shelf1"},
		{"PATCH", "/v1/shelves/shelf1/books/book2", "UpdateBook", "book.name", "shelves/shelf1/books/book2"},
		{"POST", "/larking.testpb.Messaging/GetBook", "GetBook", "", ""},
	}
	for _, u := range urls {
		m, ps, err := root.match(u.path, u.verb)
		vfCheck(err == nil && m.name == "/larking.testpb.Messaging/"+u.method, "selftest: TestMessageServer routing of "+u.path)
		if u.field != "" {
			found := false
			for _, p := range ps {
				if len(p.fds) > 0 && vfParamField(p) == u.field && p.val.String() == u.val {
					found = true
				}
			}
			vfCheck(found, "selftest: TestMessageServer capture of "+u.path)
		}
	}
	_, _, err := root.match("/error404", "GET")
	vfCheck(err != nil, "selftest: /error404 must not route")
	vfCover("routing")
}
