package sym

import (
	"fmt"
	"go/token"
	"go/types"
	"strings"

	"golang.org/x/tools/go/ssa"
)

var classToSize = []int{0, 8, 16, 24, 32, 48, 64, 80, 96, 112, 128, 144, 160, 176, 192, 208, 224, 240, 256, 288, 320, 352, 384, 416, 448, 480, 512, 576, 640, 704, 768, 896, 1024, 1152, 1280, 1408, 1536, 1792, 2048, 2304, 2688, 3072, 3200, 3456, 4096, 4864, 5120, 5376, 6144, 6528, 6784, 6912, 8192, 9472, 9728, 10240, 10880, 12288, 13568, 14336, 16384, 18432, 19072, 20480, 21760, 24576, 27264, 28672, 32768}

// roundupsize mirrors runtime.roundupsize of go1.23 (malloc size classes).
func roundupsize(size int, noscan bool) int {
	req := size
	if req <= 32768-8 {
		if !noscan && req > 512 {
			req += 8
		}
		for _, c := range classToSize {
			if c >= req {
				return c - (req - size)
			}
		}
	}
	req = size + 8191
	return req &^ 8191
}

// growCap mirrors runtime.growslice's capacity computation (go1.23).
func growCap(newLen, oldCap, elemSize int, noscan bool) int {
	newcap := oldCap
	doublecap := newcap + newcap
	if newLen > doublecap {
		newcap = newLen
	} else if oldCap < 256 {
		newcap = doublecap
	} else {
		for {
			newcap += (newcap + 3*256) >> 2
			if uint(newcap) >= uint(newLen) {
				break
			}
		}
		if newcap <= 0 {
			newcap = newLen
		}
	}
	if elemSize == 0 {
		return newcap
	}
	mem := roundupsize(newcap*elemSize, noscan)
	return mem / elemSize
}

func hasPointers(t types.Type) bool {
	switch t := t.Underlying().(type) {
	case *types.Basic:
		return t.Kind() == types.String || t.Kind() == types.UnsafePointer
	case *types.Array:
		return hasPointers(t.Elem())
	case *types.Struct:
		for i := 0; i < t.NumFields(); i++ {
			if hasPointers(t.Field(i).Type()) {
				return true
			}
		}
		return false
	}
	return true
}

func (m *Machine) appendSlice(s Slice, add []Value, elem types.Type) Slice {
	if len(add) == 0 {
		return s
	}
	n := len(s) + len(add)
	if n <= cap(s) {
		out := s[:n]
		for i, v := range add {
			m.set(&out[len(s)+i], copyVal(v))
		}
		return out
	}
	esz := int(stdSizes.Sizeof(elem))
	nc := growCap(n, cap(s), esz, !hasPointers(elem))
	if nc > 1<<24 {
		m.abort("budget", "append: capacity beyond engine bound")
	}
	out := make(Slice, n, nc)
	copy(out, s)
	for i, v := range add {
		out[len(s)+i] = copyVal(v)
	}
	// zero the spare capacity
	if nc > n {
		z := m.zero(elem)
		full := out[:nc]
		switch z.(type) {
		case Struct, Array:
			for i := n; i < nc; i++ {
				full[i] = m.zero(elem)
			}
		default:
			for i := n; i < nc; i++ {
				full[i] = z
			}
		}
	}
	return out
}

func sitePos(site ssa.Instruction) token.Pos {
	if site == nil {
		return token.NoPos
	}
	return site.Pos()
}

func (m *Machine) callBuiltin(fn *ssa.Builtin, args []Value, site ssa.Instruction) Value {
	switch fn.Name() {
	case "len":
		switch x := args[0].(type) {
		case Str:
			return m.C.BV(64, uint64(x.Len()))
		case Slice:
			return m.C.BV(64, uint64(len(x)))
		case Array:
			return m.C.BV(64, uint64(len(x)))
		case *Map:
			if x == nil {
				return m.C.BV(64, 0)
			}
			return m.C.BV(64, uint64(len(x.E)))
		case *Value:
			return m.C.BV(64, uint64(len((*x).(Array))))
		case *Chan:
			if x == nil {
				return m.C.BV(64, 0)
			}
			return m.C.BV(64, uint64(len(x.Buf)))
		case Poison:
			m.unsupported("len of poison: " + x.Why)
		}
	case "cap":
		switch x := args[0].(type) {
		case Slice:
			return m.C.BV(64, uint64(cap(x)))
		case Array:
			return m.C.BV(64, uint64(len(x)))
		case *Value:
			return m.C.BV(64, uint64(len((*x).(Array))))
		case *Chan:
			if x == nil {
				return m.C.BV(64, 0)
			}
			return m.C.BV(64, uint64(x.Cap))
		}
	case "append":
		s, _ := args[0].(Slice)
		var elem types.Type
		if call, ok := site.(*ssa.Call); ok {
			elem = call.Type().Underlying().(*types.Slice).Elem()
		} else {
			elem = types.Typ[types.Uint8]
		}
		switch a := args[1].(type) {
		case Slice:
			if a == nil && s == nil {
				return Slice(nil)
			}
			// copy source first: it may alias the destination
			src := make([]Value, len(a))
			copy(src, a)
			if m.raceOn() {
				// the race detector sees the reads of the appended elements and, when the result
				// stays in the destination's backing array, the writes behind its length
				pos := sitePos(site)
				for i := range a {
					m.raceKey(&a[i], false, pos)
				}
				if len(s)+len(a) <= cap(s) {
					full := s[:len(s)+len(a)]
					for i := len(s); i < len(full); i++ {
						m.raceKey(&full[i], true, pos)
					}
				}
			}
			return m.appendSlice(s, src, elem)
		case Str:
			return m.appendSlice(s, []Value(m.strToBytes(a)), elem)
		case Poison:
			m.unsupported("append of poison: " + a.Why)
		}
	case "copy":
		dst, _ := args[0].(Slice)
		var src []Value
		switch a := args[1].(type) {
		case Slice:
			src = a
		case Str:
			src = m.strToBytes(a)
		}
		n := len(dst)
		if len(src) < n {
			n = len(src)
		}
		tmp := make([]Value, n)
		copy(tmp, src[:n])
		if m.raceOn() {
			pos := sitePos(site)
			if a, ok := args[1].(Slice); ok {
				for i := 0; i < n; i++ {
					m.raceKey(&a[i], false, pos)
				}
			}
			for i := 0; i < n; i++ {
				m.raceKey(&dst[i], true, pos)
			}
		}
		for i := 0; i < n; i++ {
			m.set(&dst[i], copyVal(tmp[i]))
		}
		return m.C.BV(64, uint64(n))
	case "delete":
		mp, _ := args[0].(*Map)
		if mp != nil {
			m.mapDelete(mp, args[1])
		}
		return nil
	case "clear":
		switch x := args[0].(type) {
		case *Map:
			if x != nil {
				m.trail = append(m.trail, trailEntry{mp: x, oe: x.E})
				x.E = nil
			}
		case Slice:
			if call, ok := site.(*ssa.Call); ok {
				el := call.Call.Args[0].Type().Underlying().(*types.Slice).Elem()
				for i := range x {
					m.set(&x[i], m.zero(el))
				}
			}
		}
		return nil
	case "close":
		ch, _ := args[0].(*Chan)
		m.chanClose(ch)
		return nil
	case "recover":
		return m.doRecover()
	case "print", "println":
		return nil
	case "min", "max":
		call := site.(*ssa.Call)
		t := call.Type()
		r := args[0]
		for _, a := range args[1:] {
			switch x := r.(type) {
			case *Term:
				y := m.asTerm(a)
				var lt *Term
				if isUnsigned(t) {
					lt = m.C.Cmp(OpUlt, x, y)
				} else {
					lt = m.C.Cmp(OpSlt, x, y)
				}
				if fn.Name() == "min" {
					r = m.C.Ite(lt, x, y)
				} else {
					r = m.C.Ite(lt, y, x)
				}
			case float64:
				y := a.(float64)
				if (fn.Name() == "min") == (y < x) {
					r = y
				}
			default:
				m.unsupported("min/max on " + fmt.Sprintf("%T", r))
			}
		}
		return r
	case "ssa:wrapnilchk":
		p, _ := args[0].(*Value)
		if p == nil {
			m.rtPanic("value method called using nil pointer")
		}
		return args[0]
	case "String": // unsafe.String
		n := m.ConcInt(args[1])
		switch p := args[0].(type) {
		case DataPtr:
			if p.Str != nil {
				return m.strSlice(*p.Str, 0, n)
			}
			return m.bytesToStr(p.S[:n])
		case *Value:
			if n == 0 {
				return Str{}
			}
		}
		m.unsupported("unsafe.String on " + fmt.Sprintf("%T", args[0]))
	case "StringData":
		s := args[0].(Str)
		return DataPtr{Str: &s}
	case "SliceData":
		s, _ := args[0].(Slice)
		return DataPtr{S: s[:cap(s)]}
	case "Slice": // unsafe.Slice
		n := m.ConcInt(args[1])
		switch p := args[0].(type) {
		case DataPtr:
			if p.Str != nil {
				return m.strToBytes(m.strSlice(*p.Str, 0, n))
			}
			return p.S[:n:n]
		case *Value:
			if n == 0 {
				return Slice(nil)
			}
		}
		m.unsupported("unsafe.Slice on " + fmt.Sprintf("%T", args[0]))
	}
	m.unsupported(fmt.Sprintf("builtin %s on %T", fn.Name(), args[0]))
	return nil
}

// doRecover implements recover(): it must be called directly by a deferred function.
func (m *Machine) doRecover() Value {
	// frames: [... panicking-frame, deferred-fn-frame]; recover is a builtin called from the deferred frame.
	n := len(m.frames)
	if n < 2 {
		return Iface{}
	}
	def := m.frames[n-1]
	pan := def.caller
	if pan == nil || !pan.panicking || def.panicking {
		return Iface{}
	}
	pan.panicking = false
	tp := pan.panicVal
	if tp.runtime || tp.v == nil {
		// runtime.Error value: use runtime.errorString
		rt := m.Prog.Package("runtime")
		if rt != nil {
			if t := rt.Type("errorString"); t != nil {
				return Iface{T: t.Type(), V: Str{S: strings.TrimPrefix(tp.msg, "runtime error: ")}}
			}
		}
		return Iface{T: types.Typ[types.String], V: Str{S: tp.msg}}
	}
	return tp.v
}
