package sym

import (
	"encoding/json"
	"go/types"
	"math"

	"golang.org/x/tools/go/ssa"
)

// encoding/json.Unmarshal is reflection driven and not interpreted. larking uses it to parse URL
// text into bool / integer variables; that fragment is modelled exactly (JSON number grammar
// without fraction/exponent for integer targets, range-checked; true/false for bool). Any other
// target type aborts the path as unsupported.
func init() {
	// json.Marshal is modelled only for larking's twirpError{Code, Message string; Meta map} with a
	// message that needs no escaping; the output is byte-identical to encoding/json's.
	reg("encoding/json.Marshal", func(m *Machine, fn *ssa.Function, args []Value) Value {
		i := args[0].(Iface)
		if b, ok := i.T.(*types.Basic); ok && b.Kind() == types.String {
			// json.Marshal(string): the harness's transcription of encoding/json's appendString
			// (escapeHTML on) runs on the possibly symbolic bytes; natively the real one runs
			f := m.Prog.Func("vfJSONQuote")
			if f == nil {
				m.unsupported("vfJSONQuote not defined by the harness")
			}
			return Tuple{m.callFn(f, []Value{i.V}, nil), Iface{}}
		}
		if i.T == nil || i.T.String() != "*larking.io/larking.twirpError" {
			m.unsupported("json.Marshal of " + m.show(i))
		}
		st := (*i.V.(*Value)).(Struct)
		code, msg := st[0].(Str), st[1].(Str)
		meta, _ := st[2].(*Map)
		if meta != nil {
			m.unsupported("json.Marshal of twirpError with meta")
		}
		if code.Concrete() && msg.Concrete() {
			// concrete texts: the real encoding/json runs (escaping included)
			b, err := json.Marshal(struct {
				Code    string            `json:"code"`
				Message string            `json:"msg"`
				Meta    map[string]string `json:"meta"`
			}{Code: code.S, Message: msg.S})
			if err != nil {
				m.unsupported("json.Marshal failed natively: " + err.Error())
			}
			return Tuple{m.strToBytes(Str{S: string(b)}), Iface{}}
		}
		for k := 0; k < msg.Len(); k++ {
			c := m.strAt(msg, k)
			plain := m.C.And(m.C.And(m.C.Cmp(OpUle, m.C.BV(8, 0x20), c), m.C.Cmp(OpUlt, c, m.C.BV(8, 0x7f))),
				m.C.Not(m.C.Or(m.C.Or(m.C.Eq(c, m.C.BV(8, '"')), m.C.Eq(c, m.C.BV(8, '\\'))),
					m.C.Or(m.C.Or(m.C.Eq(c, m.C.BV(8, '<')), m.C.Eq(c, m.C.BV(8, '>'))), m.C.Eq(c, m.C.BV(8, '&'))))))
			if !m.Decide(plain) {
				m.unsupported("json.Marshal: message byte needs escaping (not modelled)")
			}
		}
		out := m.strConcat(m.strConcat(m.strConcat(Str{S: `{"code":"`}, code), m.strConcat(Str{S: `","msg":"`}, msg)), Str{S: `","meta":null}`})
		return Tuple{m.strToBytes(out), Iface{}}
	})
	reg("encoding/json.Unmarshal", func(m *Machine, fn *ssa.Function, args []Value) Value {
		data := m.bytesToStr(args[0].(Slice))
		target := args[1].(Iface)
		mkErr := func() Value { return m.newError(Str{S: "json: cannot unmarshal"}, Iface{}) }
		pt, ok := target.T.Underlying().(*types.Pointer)
		if !ok {
			m.unsupported("json.Unmarshal into " + target.T.String())
		}
		b, ok := pt.Elem().Underlying().(*types.Basic)
		if !ok {
			m.unsupported("json.Unmarshal into " + target.T.String())
		}
		// surrounding JSON whitespace is legal
		isSpace := func(t *Term) *Term {
			C := m.C
			return C.Or(C.Or(C.Eq(t, C.BV(8, ' ')), C.Eq(t, C.BV(8, '\t'))), C.Or(C.Eq(t, C.BV(8, '\n')), C.Eq(t, C.BV(8, '\r'))))
		}
		lo, hi := 0, data.Len()
		for lo < hi && m.Decide(isSpace(m.strAt(data, lo))) {
			lo++
		}
		for hi > lo && m.Decide(isSpace(m.strAt(data, hi-1))) {
			hi--
		}
		s := m.strSlice(data, lo, hi)
		switch {
		case b.Info()&types.IsBoolean != 0:
			if m.Decide(m.strEq(s, Str{S: "true"})) {
				m.store(target.V, m.C.True)
				return Iface{}
			}
			if m.Decide(m.strEq(s, Str{S: "false"})) {
				m.store(target.V, m.C.False)
				return Iface{}
			}
			return mkErr()
		case b.Info()&types.IsInteger != 0:
			w := intWidth(b)
			unsigned := b.Info()&types.IsUnsigned != 0
			i := 0
			neg := false
			if s.Len() > 0 && m.Decide(m.C.Eq(m.strAt(s, 0), m.C.BV(8, '-'))) {
				neg = true
				i = 1
			}
			if i >= s.Len() || s.Len()-i > 19 {
				return mkErr()
			}
			isDigit := func(t *Term) *Term {
				return m.C.And(m.C.Cmp(OpUle, m.C.BV(8, '0'), t), m.C.Cmp(OpUle, t, m.C.BV(8, '9')))
			}
			// leading zero only for "0"
			if s.Len()-i > 1 && m.Decide(m.C.Eq(m.strAt(s, i), m.C.BV(8, '0'))) {
				return mkErr()
			}
			val := m.C.BV(64, 0)
			for ; i < s.Len(); i++ {
				c := m.strAt(s, i)
				if !m.Decide(isDigit(c)) {
					return mkErr()
				}
				val = m.C.Bin(OpAdd, m.C.Bin(OpMul, val, m.C.BV(64, 10)), m.C.Zext(m.C.Bin(OpSub, c, m.C.BV(8, '0')), 64))
			}
			// range check (19 digits fit in uint64 without wrapping only below 1.8e19; conservatively
			// values of 19 digits are range-checked through the signed bound)
			var max uint64
			if unsigned {
				if neg {
					return mkErr()
				}
				max = mask(w)
			} else {
				max = mask(w) >> 1
				if neg {
					max++
				}
			}
			if !m.Decide(m.C.Cmp(OpUle, val, m.C.BV(64, max))) {
				return mkErr()
			}
			if neg {
				val = m.C.Neg(val)
			}
			m.store(target.V, m.C.Extract(val, w-1, 0))
			return Iface{}
		}
		if b.Info()&types.IsFloat != 0 {
			// floating-point targets: only concrete text, evaluated by the host's encoding/json
			// (floats are concrete in the engine)
			if !data.Concrete() {
				m.unsupported("json.Unmarshal of symbolic text into a float")
			}
			text := goString(data)
			if b.Kind() == types.Float32 {
				var f float32
				if err := json.Unmarshal([]byte(text), &f); err != nil {
					return mkErr()
				}
				m.store(target.V, float64(f))
				return Iface{}
			}
			var f float64
			if err := json.Unmarshal([]byte(text), &f); err != nil {
				return mkErr()
			}
			m.store(target.V, f)
			return Iface{}
		}
		m.unsupported("json.Unmarshal into " + target.T.String())
		return nil
	})
	// math bit casts on concrete floats
	reg("math.Float64bits", func(m *Machine, fn *ssa.Function, args []Value) Value {
		f, ok := args[0].(float64)
		if !ok {
			m.unsupported("math.Float64bits of a non-concrete float")
		}
		return m.C.BV(64, math.Float64bits(f))
	})
	reg("math.Float64frombits", func(m *Machine, fn *ssa.Function, args []Value) Value {
		t := m.asTerm(args[0])
		if !t.IsConst() {
			m.unsupported("math.Float64frombits of symbolic bits")
		}
		return math.Float64frombits(t.Val)
	})
	reg("math.Float32bits", func(m *Machine, fn *ssa.Function, args []Value) Value {
		f, ok := args[0].(float64)
		if !ok {
			m.unsupported("math.Float32bits of a non-concrete float")
		}
		return m.C.BV(32, uint64(math.Float32bits(float32(f))))
	})
	reg("math.Float32frombits", func(m *Machine, fn *ssa.Function, args []Value) Value {
		t := m.asTerm(args[0])
		if !t.IsConst() {
			m.unsupported("math.Float32frombits of symbolic bits")
		}
		return float64(math.Float32frombits(uint32(t.Val)))
	})
}
