package larking

import (
	"unicode"
	"unicode/utf8"
)

// Reference matcher for path templates over the RAW request path (DESIGN Appendix C.2),
// independent of larking's lexer and trie.

// refSplit splits path (which must start with '/') into its '/'-separated segments.
func refSplit(path string) ([]string, bool) {
	if len(path) == 0 || path[0] != '/' {
		return nil, false
	}
	var segs []string
	st := 1
	for i := 1; i <= len(path); i++ {
		if i == len(path) || path[i] == '/' {
			if i == st {
				return nil, false // empty segment
			}
			segs = append(segs, path[st:i])
			st = i + 1
		}
	}
	return segs, true
}

// refIsPathByte: the ASCII characters lexer.go documents for request path segments
// (tokenPath: a-z A-Z 0-9 - _ . ~ ! $ & ' ( ) * + , ; = @), written out independently of isPath.
func refIsPathByte(c byte) bool {
	switch {
	case c >= 'a' && c <= 'z', c >= 'A' && c <= 'Z', c >= '0' && c <= '9':
		return true
	}
	switch c {
	case '-', '_', '.', '~', '!', '$', '&', '\'', '(', ')', '*', '+', ',', ';', '=', '@':
		return true
	}
	return false
}

func refAllPathChars(s string) bool {
	for i := 0; i < len(s); {
		if c := s[i]; c < utf8.RuneSelf {
			if !refIsPathByte(c) {
				return false
			}
			i++
			continue
		}
		// beyond ASCII: Unicode letters and numbers (the grammar's "letter" / "number"), written
		// without larking's isPath
		r, w := utf8.DecodeRuneInString(s[i:])
		if (r == utf8.RuneError && w <= 1) || !(unicode.IsLetter(r) || unicode.IsNumber(r)) {
			return false
		}
		i += w
	}
	return true
}

// refMatch reports whether template t matches the pre-split path, and the captures of its variables.
// strict: segment characters are larking's documented path set (no ':' except the template verb).
// liberal: ':' is an ordinary segment character.
func refMatch(t *refTmpl, segsIn []string, strict bool) (bool, []string) {
	if len(segsIn) == 0 {
		return false, nil
	}
	segs := make([]string, len(segsIn))
	copy(segs, segsIn)
	if t.verb != "" {
		last := segs[len(segs)-1]
		suf := ":" + t.verb
		if len(last) <= len(suf) || last[len(last)-len(suf):] != suf {
			return false, nil
		}
		segs[len(segs)-1] = last[:len(last)-len(suf)]
	}
	if strict {
		for _, s := range segs {
			if !refAllPathChars(s) {
				return false, nil
			}
		}
	}
	// match items left to right
	pos := 0
	start := make([]int, len(t.items)+1)
	for i, it := range t.items {
		start[i] = pos
		switch it.kind {
		case itLit:
			if pos >= len(segs) || segs[pos] != it.lit {
				return false, nil
			}
			pos++
		case itStar:
			if pos >= len(segs) {
				return false, nil
			}
			pos++
		case itStarStar:
			if pos >= len(segs) {
				return false, nil
			}
			pos = len(segs)
		}
	}
	start[len(t.items)] = pos
	if pos != len(segs) {
		return false, nil
	}
	caps := make([]string, len(t.vars))
	for k, v := range t.vars {
		s := ""
		for j := start[v.lo]; j < start[v.hi]; j++ {
			if j > start[v.lo] {
				s += "/"
			}
			s += segs[j]
		}
		caps[k] = s
	}
	return true, caps
}

// refTop is a top-level element of a template: a bare item or a whole variable.
type refTop struct {
	isVar bool
	item  refItem
	pat   string // variable pattern rendered
}

func refTopLevel(t *refTmpl) []refTop {
	var out []refTop
	for i := 0; i < len(t.items); {
		found := false
		for _, v := range t.vars {
			if v.lo == i {
				pat := ""
				for j := v.lo; j < v.hi; j++ {
					if j > v.lo {
						pat += "/"
					}
					switch t.items[j].kind {
					case itLit:
						pat += t.items[j].lit
					case itStar:
						pat += "*"
					default:
						pat += "**"
					}
				}
				out = append(out, refTop{isVar: true, pat: pat})
				i = v.hi
				found = true
				break
			}
		}
		if !found {
			out = append(out, refTop{item: t.items[i]})
			i++
		}
	}
	return out
}

// refDominates: a and b are identical up to some top-level position where a spells a LITERAL and b
// has a wildcard or a variable (DESIGN C.2, literal domination at top-level segments only).
func refDominates(a, b *refTmpl) bool {
	ta, tb := refTopLevel(a), refTopLevel(b)
	for k := 0; k < len(ta) && k < len(tb); k++ {
		x, y := ta[k], tb[k]
		if !x.isVar && x.item.kind == itLit && (y.isVar || y.item.kind != itLit) {
			return true
		}
		same := x.isVar == y.isVar && ((x.isVar && x.pat == y.pat) || (!x.isVar && x.item == y.item))
		if !same {
			return false
		}
	}
	return false
}
