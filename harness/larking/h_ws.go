package larking

import (
	"bufio"
	"io"
	"net"
	"net/http"
	"net/url"
	"time"

	"google.golang.org/grpc"
	"google.golang.org/grpc/codes"
	"google.golang.org/grpc/status"
	"google.golang.org/protobuf/reflect/protoreflect"
)

func init() {
	vfHarnesses["VerifH_ws_close"] = VerifH_ws_close
	vfHarnesses["VerifH_ws_stream"] = VerifH_ws_stream
}

// vfConn is an in-memory net.Conn: reads come from a preset byte stream, writes are recorded.
type vfConn struct {
	in     []byte
	pos    int
	out    []byte
	closed bool
}

type vfAddr struct{}

func (vfAddr) Network() string { return "tcp" }
func (vfAddr) String() string  { return "verif" }

func (c *vfConn) Read(p []byte) (int, error) {
	if len(p) == 0 {
		return 0, nil
	}
	if c.pos >= len(c.in) {
		return 0, io.EOF // the peer has gone
	}
	n := copy(p, c.in[c.pos:])
	c.pos += n
	return n, nil
}
func (c *vfConn) Write(p []byte) (int, error)      { c.out = append(c.out, p...); return len(p), nil }
func (c *vfConn) Close() error                     { c.closed = true; return nil }
func (c *vfConn) LocalAddr() net.Addr              { return vfAddr{} }
func (c *vfConn) RemoteAddr() net.Addr             { return vfAddr{} }
func (c *vfConn) SetDeadline(time.Time) error      { return nil }
func (c *vfConn) SetReadDeadline(time.Time) error  { return nil }
func (c *vfConn) SetWriteDeadline(time.Time) error { return nil }

// vfHijackRW is a ResponseWriter whose connection can be taken over (WebSocket upgrade).
type vfHijackRW struct {
	*fakeRW
	conn *vfConn
}

func (w *vfHijackRW) Hijack() (net.Conn, *bufio.ReadWriter, error) {
	rw := bufio.NewReadWriter(bufio.NewReader(w.conn), bufio.NewWriter(w.conn))
	return w.conn, rw, nil
}

// VerifH_ws_close (C05, C18): a WebSocket call whose handler fails: after the upgrade the client
// receives exactly one legal close control frame (payload <= 125 bytes) carrying the close code
// mapped from the handler's status code and the status message, truncated only as far as a close
// frame requires; a successful handler yields the normal closure frame; the stats handler's End
// event carries the handler's error.
func VerifH_ws_close() {
	in := schemaRoute()
	out := newFakeMD("vf.Resp", strField("r"))
	rule := vfHTTPRule("websocket", "/v1/{f=rooms/*}")
	md := &fakeMethod{full: "vf.S.Chat", in: in, out: out, cs: true, ss: true, opts: &fakeOpts{rule: rule}}
	svc := &fakeSvc{full: "vf.S", methods: &fakeMethodList{list: []*fakeMethod{md}}}
	st := &fakeStats{}
	withStats := vfBool()
	opts := []MuxOption{FilesOption(vfRegistry(svc))}
	if withStats {
		opts = append(opts, StatsOption(st))
	}
	mux, err := NewMux(opts...)
	if err != nil {
		vfFail("NewMux failed")
	}
	fail := vfBool()
	var code codes.Code
	msg := ""
	var herr error
	if fail {
		code = codes.Code(vfInt(1, 17))
		var n int
		switch vfChoice(3) {
		case 0:
			n = vfLen(3)
		case 1:
			n = 121 + vfLen(4) // around the 123-byte reason capacity
		default:
			n = 130
		}
		b := make([]byte, n)
		for i := range b {
			b[i] = 'a'
		}
		if n > 0 {
			c := vfByte()
			vfAssume(c >= 0x20 && c < 0x7f)
			b[n-1] = c
		}
		msg = string(b)
		herr = status.Error(code, msg)
	}
	srv := &vfStreamSrv{in: in, err: herr}
	sd := &grpc.ServiceDesc{ServiceName: "vf.S", Streams: []grpc.StreamDesc{{StreamName: "Chat", Handler: vfFailingStreamHandler, ClientStreams: true, ServerStreams: true}}}
	if err := mux.registerService(sd, srv); err != nil {
		vfFail("registerService failed: " + err.Error())
	}
	conn := &vfConn{}
	w := &vfHijackRW{fakeRW: newFakeRW(), conn: conn}
	r := &http.Request{
		Method: "GET", URL: &url.URL{Path: "/v1/rooms/x"}, ProtoMajor: 1, ProtoMinor: 1, Host: "h",
		Header: http.Header{"Upgrade": []string{"websocket"}, "Connection": []string{"Upgrade"}, "Sec-Websocket-Version": []string{"13"}, "Sec-Websocket-Key": []string{"dGhlIHNhbXBsZSBub25jZQ=="}},
	}
	mux.ServeHTTP(w, r)
	vfCheck(srv.calls == 1, "WebSocket handler not invoked exactly once")
	// skip the 101 response
	o := conn.out
	end := -1
	for i := 0; i+3 < len(o); i++ {
		if o[i] == '\r' && o[i+1] == '\n' && o[i+2] == '\r' && o[i+3] == '\n' {
			end = i + 4
			break
		}
	}
	vfCheck(end > 0 && len(o) >= 12 && string(o[:12]) == "HTTP/1.1 101", "no 101 Switching Protocols response")
	f := o[end:]
	vfCheck(len(f) >= 2 && f[0] == 0x88, "no final close control frame after the handler returned")
	vfCheck(f[1] < 126, "close frame is not a legal control frame (payload longer than 125 bytes or masked)")
	plen := int(f[1])
	vfCheck(len(f) == 2+plen, "bytes after the close frame / truncated close frame")
	if !fail {
		vfCheck(plen == 0 || (plen >= 2 && int(f[2])<<8|int(f[3]) == 1000), "successful call not closed with an empty close frame or code 1000")
		vfCover("normal-closure")
	} else {
		want := 1011
		if code <= 16 {
			want = int(refWSStatus[vfConc(int(code))])
		}
		vfCheck(plen >= 2 && int(f[2])<<8|int(f[3]) == want, "close code is not the code mapped from the handler's status")
		reason := string(f[4:])
		vfCheck(len(reason) <= len(msg) && msg[:len(reason)] == reason, "close reason is not a prefix of the status message")
		if len(msg) <= 123 {
			vfCheck(reason == msg, "status message that fits into a close frame was truncated")
			vfCover("message-fits")
		} else {
			vfCheck(len(reason) >= 100, "status message truncated far more than a close frame requires")
			vfCover("message-truncated")
		}
	}
	if withStats {
		vfCheck(st.ends == 1, "End stats event not delivered exactly once")
		if fail {
			vfCheck(st.endErr != nil && status.Code(st.endErr) == code, "End stats event does not carry the handler's error")
		} else {
			vfCheck(st.endErr == nil, "End stats event carries an error for a successful call")
		}
		vfCover("stats")
	}
}

// vfFailingStreamHandler returns the scripted error without exchanging messages (WebSocket message
// (de)coding is hard-wired to protojson, which cannot run on fake messages).
func vfFailingStreamHandler(srv interface{}, stream grpc.ServerStream) error {
	s := srv.(*vfStreamSrv)
	s.calls++
	return s.err
}

// vfEchoSrv echoes field g of every request message as field r of a reply.
type vfEchoSrv struct {
	in, out *fakeMD
	got     []*fakeMsg
	recvErr error
	calls   int
}

func vfEchoStreamHandler(srv interface{}, stream grpc.ServerStream) error {
	s := srv.(*vfEchoSrv)
	s.calls++
	for i := 0; i < 8; i++ {
		m := newFakeMsg(s.in)
		if err := stream.RecvMsg(m); err != nil {
			s.recvErr = err
			break
		}
		s.got = append(s.got, m)
		reply := newFakeMsg(s.out)
		reply.vals["r"] = protoreflect.ValueOfString(m.str("g"))
		if err := stream.SendMsg(reply); err != nil {
			return err
		}
	}
	return nil
}

func vfClientFrame(op byte, payload []byte) []byte {
	mask := [4]byte{1, 2, 3, 4}
	f := []byte{0x80 | op, 0x80 | byte(len(payload)), mask[0], mask[1], mask[2], mask[3]}
	for i, c := range payload {
		f = append(f, c^mask[i%4])
	}
	return f
}

// VerifH_ws_stream (C06, C08): a bidirectional call over WebSocket: k JSON text messages from the
// client, each echoed by the handler, then the client's close frame. The handler receives exactly
// the k messages in order (path parameters on the first only), the client receives exactly the k
// replies in order followed by close frames; a message larger than the receive limit never reaches
// the handler.
func VerifH_ws_stream() {
	in := schemaRoute()
	out := newFakeMD("vf.Resp", strField("r"))
	rule := vfHTTPRule("websocket", "/v1/{f=rooms/*}")
	rule.Body = "*"
	md := &fakeMethod{full: "vf.S.Chat", in: in, out: out, cs: true, ss: true, opts: &fakeOpts{rule: rule}}
	svc := &fakeSvc{full: "vf.S", methods: &fakeMethodList{list: []*fakeMethod{md}}}
	const limit = 12
	mux, err := NewMux(FilesOption(vfRegistry(svc)), MaxReceiveMessageSizeOption(limit))
	if err != nil {
		vfFail("NewMux failed")
	}
	srv := &vfEchoSrv{in: in, out: out}
	sd := &grpc.ServiceDesc{ServiceName: "vf.S", Streams: []grpc.StreamDesc{{StreamName: "Chat", Handler: vfEchoStreamHandler, ClientStreams: true, ServerStreams: true}}}
	if err := mux.registerService(sd, srv); err != nil {
		vfFail("registerService failed: " + err.Error())
	}
	k := vfLen(2)
	var vals []string
	var stream []byte
	oversize := -1
	for i := 0; i < k; i++ {
		var v string
		if oversize < 0 && vfBool() {
			v = "LONG" + vfPlainString(1) // {"g":"LONGx"} is 13 bytes: one above the limit
			oversize = i
		} else {
			n := vfLen(2)
			if n > 0 {
				v = vfPlainString(n)
			}
		}
		vals = append(vals, v)
		op := byte(1)
		if vfBool() {
			op = 2 // a data message sent as a binary frame is a message all the same
			vfCover("binary-frame")
		}
		text := []byte(`{"g":"` + v + `"}`)
		if vfBool() {
			// one message in two frames (FIN=0, then a continuation): each frame may be within the
			// receive limit while the message is not
			h := len(text) / 2
			first := vfClientFrame(op, text[:h])
			first[0] &^= 0x80
			stream = append(stream, first...)
			stream = append(stream, vfClientFrame(0, text[h:])...)
			vfCover("fragmented-message")
		} else {
			stream = append(stream, vfClientFrame(op, text)...)
		}
	}
	stream = append(stream, vfClientFrame(8, nil)...)
	conn := &vfConn{in: stream}
	w := &vfHijackRW{fakeRW: newFakeRW(), conn: conn}
	// C07: a query parameter naming the path-bound field must not replace the path capture
	query := ""
	if vfBool() {
		query = "f=evil"
		vfCover("query-rival")
	}
	r := &http.Request{
		Method: "GET", URL: &url.URL{Path: "/v1/rooms/x", RawQuery: query}, ProtoMajor: 1, ProtoMinor: 1, Host: "h",
		Header: http.Header{"Upgrade": []string{"websocket"}, "Connection": []string{"Upgrade"}, "Sec-Websocket-Version": []string{"13"}, "Sec-Websocket-Key": []string{"dGhlIHNhbXBsZSBub25jZQ=="}},
	}
	mux.ServeHTTP(w, r)
	vfCheck(srv.calls == 1, "WebSocket handler not invoked exactly once")
	// no message above the receive limit reaches the handler
	for _, m := range srv.got {
		vfCheck(len(`{"g":"`+m.str("g")+`"}`) <= limit, "a WebSocket message larger than the receive limit reached the handler")
	}
	wantN := k
	if oversize >= 0 {
		wantN = oversize // the stream fails at the oversized message
		vfCover("oversize")
	}
	vfCheck(len(srv.got) == wantN, "the handler did not receive exactly the client's messages (up to the first refused one)")
	for i := 0; i < wantN && i < len(srv.got); i++ {
		vfCheck(srv.got[i].str("g") == vals[i], "a WebSocket message reached the handler altered or out of order")
		if i == 0 {
			vfCheck(srv.got[i].str("f") == "rooms/x", "the path-bound field of the first WebSocket message does not carry the text captured from the URL path")
		} else {
			vfCheck(srv.got[i].str("f") == "", "path parameter applied to a later WebSocket message")
		}
	}
	vfCheck(srv.recvErr != nil, "the receive loop did not end")
	// what the client sees after the 101 response: wantN text frames, then only close frames
	o := conn.out
	end := -1
	for i := 0; i+3 < len(o); i++ {
		if o[i] == '\r' && o[i+1] == '\n' && o[i+2] == '\r' && o[i+3] == '\n' {
			end = i + 4
			break
		}
	}
	vfCheck(end > 0, "no upgrade response")
	f := o[end:]
	pos := 0
	for i := 0; i < wantN; i++ {
		vfCheck(pos+2 <= len(f) && f[pos] == 0x81 && f[pos+1] < 126, "reply text frame missing or malformed")
		n := int(f[pos+1])
		vfCheck(pos+2+n <= len(f), "reply text frame truncated")
		got, ok := refJSONStringMember(f[pos+2:pos+2+n], "r")
		if vals[i] == "" {
			vfCheck(!ok || got == "", "reply for an empty value carries a value")
		} else {
			vfCheck(ok && got == vals[i], "reply frame does not carry the handler's message")
		}
		pos += 2 + n
	}
	closes := 0
	for pos < len(f) {
		vfCheck(pos+2 <= len(f) && f[pos] == 0x88 && f[pos+1] < 126, "unexpected frame after the replies (phantom message?)")
		pos += 2 + int(f[pos+1])
		closes++
	}
	vfCheck(closes >= 1 && pos == len(f), "the call did not end with a close frame")
	if wantN > 0 {
		vfCover("echoed")
	}
	if k == 2 && oversize < 0 {
		vfCover("two-messages")
	}
}

func init() {
	vfHarnesses["VerifH_ws_raw"] = VerifH_ws_raw
}

// VerifH_ws_raw (C09): after a successful WebSocket upgrade the client sends ARBITRARY bytes (a
// symbolic 2-byte frame header - every opcode, FIN / RSV bit, mask bit and 7-bit length - followed
// by up to 6 symbolic bytes, then the connection ends): the mux must return control without a
// panic, the handler must be invoked exactly once and released, and no message larger than the
// receive limit may reach it.
func VerifH_ws_raw() {
	in := schemaRoute()
	out := newFakeMD("vf.Resp", strField("r"))
	rule := vfHTTPRule("websocket", "/v1/{f=rooms/*}")
	rule.Body = "*"
	md := &fakeMethod{full: "vf.S.Chat", in: in, out: out, cs: true, ss: true, opts: &fakeOpts{rule: rule}}
	svc := &fakeSvc{full: "vf.S", methods: &fakeMethodList{list: []*fakeMethod{md}}}
	const limit = 12
	mux, err := NewMux(FilesOption(vfRegistry(svc)), MaxReceiveMessageSizeOption(limit))
	if err != nil {
		vfFail("NewMux failed")
	}
	srv := &vfEchoSrv{in: in, out: out}
	sd := &grpc.ServiceDesc{ServiceName: "vf.S", Streams: []grpc.StreamDesc{{StreamName: "Chat", Handler: vfEchoStreamHandler, ClientStreams: true, ServerStreams: true}}}
	if err := mux.registerService(sd, srv); err != nil {
		vfFail("registerService failed: " + err.Error())
	}
	if vfBool() {
		// an upgrade request on a connection that cannot be hijacked (HTTP/2 stream, wrapped writer):
		// an error response, no crash, the handler is not started
		w := newFakeRW()
		r := &http.Request{
			Method: "GET", URL: &url.URL{Path: "/v1/rooms/x"}, ProtoMajor: 1, ProtoMinor: 1, Host: "h",
			Header: http.Header{"Upgrade": []string{"websocket"}, "Connection": []string{"Upgrade"}, "Sec-Websocket-Version": []string{"13"}, "Sec-Websocket-Key": []string{"dGhlIHNhbXBsZSBub25jZQ=="}},
		}
		mux.ServeHTTP(w, r)
		w.finish()
		vfCheck(srv.calls == 0, "a WebSocket handler was started although the connection could not be upgraded")
		vfCheck(w.status >= 400, "a failed WebSocket upgrade was not answered with an error status")
		vfCover("not-hijackable")
		return
	}
	var stream []byte
	switch vfChoice(4) {
	case 0:
		n := 2 + vfLen(vfBound(5, 6))
		stream = vfBytes(n)
		// declared payload lengths up to 9 bytes (longer ones only differ in how much is missing
		// when the connection ends; extended lengths are the concrete cases below)
		vfAssume(stream[1]&0x7f <= 9)
	case 1:
		stream = append([]byte{0x81, 0x80 | 125, 1, 2, 3, 4}, vfBytes(3)...) // 125 bytes announced, 3 sent
		vfCover("long-announced")
	case 2:
		stream = append([]byte{0x82, 0x80 | 126, 0xff, 0xff, 1, 2, 3, 4}, vfBytes(2)...) // 16-bit extended length
		vfCover("extended-16")
	default:
		stream = append([]byte{0x81, 0x80 | 127, 0x7f, 0xff, 0xff, 0xff, 0xff, 0xff, 0xff, 0xff, 1, 2, 3, 4}, vfBytes(2)...) // 64-bit extended length 2^63-1
		vfCover("extended-64")
	}
	conn := &vfConn{in: stream}
	w := &vfHijackRW{fakeRW: newFakeRW(), conn: conn}
	r := &http.Request{
		Method: "GET", URL: &url.URL{Path: "/v1/rooms/x"}, ProtoMajor: 1, ProtoMinor: 1, Host: "h",
		Header: http.Header{"Upgrade": []string{"websocket"}, "Connection": []string{"Upgrade"}, "Sec-Websocket-Version": []string{"13"}, "Sec-Websocket-Key": []string{"dGhlIHNhbXBsZSBub25jZQ=="}},
	}
	mux.ServeHTTP(w, r)
	vfCheck(srv.calls == 1, "WebSocket handler not invoked exactly once")
	vfCheck(srv.recvErr != nil, "the receive loop was not released although the connection ended")
	for _, m := range srv.got {
		vfCheck(len(`{"g":"`+m.str("g")+`"}`) <= limit, "a WebSocket message larger than the receive limit reached the handler")
	}
	if len(srv.got) > 0 {
		vfCover("message-delivered")
	} else {
		vfCover("no-message")
	}
}
