package larking

// Plain-Go fakes for the protobuf reflection interfaces larking consumes (DESIGN §3.3). They embed
// the protoreflect interfaces (nil) and override exactly the methods larking calls, so the real
// addRule / match / parseParam / params.set run unchanged, natively and under the engine.

import (
	"google.golang.org/protobuf/proto"
	"google.golang.org/protobuf/reflect/protoreflect"
)

type fakeED struct {
	protoreflect.EnumDescriptor
	full   string
	values []string // value i has number i
}

type fakeEVs struct {
	protoreflect.EnumValueDescriptors
	ed *fakeED
}

type fakeEV struct {
	protoreflect.EnumValueDescriptor
	name string
	num  int32
}

func (e *fakeED) FullName() protoreflect.FullName           { return protoreflect.FullName(e.full) }
func (e *fakeED) Values() protoreflect.EnumValueDescriptors { return &fakeEVs{ed: e} }
func (v *fakeEVs) ByName(n protoreflect.Name) protoreflect.EnumValueDescriptor {
	for i, s := range v.ed.values {
		if s == string(n) {
			return &fakeEV{name: s, num: int32(i)}
		}
	}
	return nil
}
func (v *fakeEV) Number() protoreflect.EnumNumber { return protoreflect.EnumNumber(v.num) }
func (v *fakeEV) Name() protoreflect.Name         { return protoreflect.Name(v.name) }

type fakeFD struct {
	protoreflect.FieldDescriptor
	name   string
	json   string
	kind   protoreflect.Kind
	list   bool
	isMap  bool
	msg    *fakeMD
	enum   *fakeED
	num    int
	parent *fakeMD
}

func (f *fakeFD) Name() protoreflect.Name          { return protoreflect.Name(f.name) }
func (f *fakeFD) JSONName() string                 { return f.json }
func (f *fakeFD) Kind() protoreflect.Kind          { return f.kind }
func (f *fakeFD) IsList() bool                     { return f.list }
func (f *fakeFD) IsMap() bool                      { return f.isMap }
func (f *fakeFD) Number() protoreflect.FieldNumber { return protoreflect.FieldNumber(f.num) }
func (f *fakeFD) FullName() protoreflect.FullName {
	return protoreflect.FullName(f.parent.full + "." + f.name)
}
func (f *fakeFD) Message() protoreflect.MessageDescriptor {
	if f.msg == nil {
		return nil
	}
	return f.msg
}
func (f *fakeFD) Enum() protoreflect.EnumDescriptor {
	if f.enum == nil {
		return nil
	}
	return f.enum
}

type fakeFields struct {
	protoreflect.FieldDescriptors
	list []*fakeFD
}

func (fs *fakeFields) Len() int                               { return len(fs.list) }
func (fs *fakeFields) Get(i int) protoreflect.FieldDescriptor { return fs.list[i] }
func (fs *fakeFields) ByName(n protoreflect.Name) protoreflect.FieldDescriptor {
	for _, f := range fs.list {
		if f.name == string(n) {
			return f
		}
	}
	return nil
}
func (fs *fakeFields) ByJSONName(n string) protoreflect.FieldDescriptor {
	for _, f := range fs.list {
		if f.json == n {
			return f
		}
	}
	return nil
}

type fakeMD struct {
	protoreflect.MessageDescriptor
	full   string
	fields *fakeFields
}

func (m *fakeMD) FullName() protoreflect.FullName       { return protoreflect.FullName(m.full) }
func (m *fakeMD) Fields() protoreflect.FieldDescriptors { return m.fields }
func (m *fakeMD) Name() protoreflect.Name {
	s := m.full
	for i := len(s) - 1; i >= 0; i-- {
		if s[i] == '.' {
			return protoreflect.Name(s[i+1:])
		}
	}
	return protoreflect.Name(s)
}

func newFakeMD(full string, fields ...*fakeFD) *fakeMD {
	md := &fakeMD{full: full, fields: &fakeFields{list: fields}}
	for i, f := range fields {
		f.parent = md
		if f.num == 0 {
			f.num = i + 1
		}
		if f.json == "" {
			f.json = f.name
		}
	}
	return md
}

type fakeMethod struct {
	protoreflect.MethodDescriptor
	full string // pkg.Svc.Method
	in   *fakeMD
	out  *fakeMD
	cs   bool
	ss   bool
	opts proto.Message
}

func (m *fakeMethod) FullName() protoreflect.FullName        { return protoreflect.FullName(m.full) }
func (m *fakeMethod) Input() protoreflect.MessageDescriptor  { return m.in }
func (m *fakeMethod) Output() protoreflect.MessageDescriptor { return m.out }
func (m *fakeMethod) IsStreamingClient() bool                { return m.cs }
func (m *fakeMethod) IsStreamingServer() bool                { return m.ss }
func (m *fakeMethod) Options() protoreflect.ProtoMessage     { return m.opts }
func (m *fakeMethod) Name() protoreflect.Name {
	s := m.full
	for i := len(s) - 1; i >= 0; i-- {
		if s[i] == '.' {
			return protoreflect.Name(s[i+1:])
		}
	}
	return protoreflect.Name(s)
}

// ---------------------------------------------------------------------------------------------
// Schemas (DESIGN §3.3).

func strField(name string) *fakeFD { return &fakeFD{name: name, kind: protoreflect.StringKind} }

// schemaRoute: the request type of the routing harnesses. String fields f, g and a nested message
// h{k string}.
func schemaRoute() *fakeMD {
	sub := newFakeMD("vf.Sub", strField("k"), strField("c"))
	return newFakeMD("vf.Req",
		strField("f"), strField("g"),
		&fakeFD{name: "h", kind: protoreflect.MessageKind, msg: sub},
	)
}

// schemaBody / schemaOut: request and reply types with DIFFERENT field sets, so that a selector
// resolved against the wrong descriptor is visible.
func schemaBody() *fakeMD {
	inner := newFakeMD("vf.Inner", strField("id"), strField("text"))
	return newFakeMD("vf.BodyReq",
		strField("id"),
		&fakeFD{name: "msg", kind: protoreflect.MessageKind, msg: inner},
		strField("note"),
	)
}

func schemaOut() *fakeMD {
	sub := newFakeMD("vf.OutSub", strField("x"))
	return newFakeMD("vf.BodyResp",
		strField("r"),
		&fakeFD{name: "sub", kind: protoreflect.MessageKind, msg: sub},
	)
}
