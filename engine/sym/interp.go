package sym

import (
	"fmt"
	"go/token"
	"go/types"
	"strings"

	"golang.org/x/tools/go/ssa"
)

type fnInfo struct {
	regs      map[ssa.Value]int
	n         int
	mergeable int8 // 0 unknown, 1 yes, -1 no
	name      string
}

type deferred struct {
	fn   Value
	args []Value
}

type frame struct {
	m         *Machine
	caller    *frame
	fn        *ssa.Function
	info      *fnInfo
	env       []Value
	block     *ssa.BasicBlock
	prev      *ssa.BasicBlock
	defers    []deferred
	result    Value
	panicking bool
	panicVal  targetPanic
	cur       ssa.Instruction
	initTop   bool
	count     int
}

func (m *Machine) info(fn *ssa.Function) *fnInfo {
	if fi, ok := m.fnInfo[fn]; ok {
		return fi
	}
	fi := &fnInfo{regs: map[ssa.Value]int{}, name: fn.String()}
	add := func(v ssa.Value) {
		fi.regs[v] = fi.n
		fi.n++
	}
	for _, p := range fn.Params {
		add(p)
	}
	for _, p := range fn.FreeVars {
		add(p)
	}
	for _, b := range fn.Blocks {
		for _, in := range b.Instrs {
			if v, ok := in.(ssa.Value); ok {
				add(v)
			}
		}
	}
	m.fnInfo[fn] = fi
	return fi
}

func (fr *frame) get(v ssa.Value) Value {
	switch v := v.(type) {
	case nil:
		return nil
	case *ssa.Const:
		return fr.m.constValue(v)
	case *ssa.Function:
		return v
	case *ssa.Builtin:
		return v
	case *ssa.Global:
		return fr.m.global(v)
	}
	i, ok := fr.info.regs[v]
	if !ok {
		panic(fmt.Sprintf("get: no register for %T %s in %s", v, v.Name(), fr.fn))
	}
	return fr.env[i]
}

func (fr *frame) setReg(v ssa.Value, x Value) {
	fr.env[fr.info.regs[v]] = x
}

// global returns the address of a package-level variable.
func (m *Machine) global(g *ssa.Global) *Value {
	if p, ok := m.globals[g]; ok {
		return p
	}
	var cell Value
	if g.Pkg != nil && !m.inited[g.Pkg] && !strings.HasPrefix(g.Name(), "init$") {
		cell = Poison{"global " + g.String() + " of un-initialised package"}
	} else {
		cell = m.zero(deref(g.Type()))
	}
	p := new(Value)
	*p = cell
	m.globals[g] = p
	return p
}

// call invokes an *ssa.Function with arguments (no closure environment).
func (m *Machine) call(fn *ssa.Function, args []Value) Value {
	return m.callFn(fn, args, nil)
}

// callValue invokes any function value.
func (m *Machine) callValue(f Value, args []Value, site ssa.Instruction) Value {
	switch f := f.(type) {
	case *ssa.Function:
		if f == nil {
			m.rtPanic("invalid memory address or nil pointer dereference (nil func)")
		}
		return m.callFn(f, args, nil)
	case *Closure:
		if f == nil {
			m.rtPanic("invalid memory address or nil pointer dereference (nil func)")
		}
		return m.callFn(f.Fn, args, f.Env)
	case *ssa.Builtin:
		return m.callBuiltin(f, args, site)
	case Poison:
		m.unsupported("call of poisoned function value: " + f.Why)
	}
	panic(fmt.Sprintf("callValue: cannot call %T", f))
}

// callFnNoIntrinsic interprets fn's source although an intrinsic is registered for it (used by
// intrinsics that only model the symbolic case).
func (m *Machine) callFnNoIntrinsic(fn *ssa.Function, args []Value) Value {
	m.noIntr = fn
	return m.callFn(fn, args, nil)
}

func (m *Machine) callFn(fn *ssa.Function, args []Value, env []Value) Value {
	if len(m.frames) > 400 {
		m.abort("budget", "call depth exceeded")
	}
	name := fn.String()
	if fn.Pkg == m.Prog.Pkg && strings.HasPrefix(fn.Name(), "vf") && fn.Signature.Recv() == nil {
		if h, ok := harnessAPI[fn.Name()]; ok {
			return h(m, args)
		}
	}
	if in, ok := lookupIntrinsic(m, fn, name); ok && m.noIntr != fn {
		m.Stats.Intrinsics[name]++
		return in(m, fn, args)
	}
	m.noIntr = nil
	if fn.Blocks == nil {
		m.unsupported("function without body: " + name)
	}
	fi := m.info(fn)
	if fi.mergeable == 0 {
		fi.mergeable = -1
		if m.staticMergeable(fn, 0) {
			fi.mergeable = 1
		}
	}
	if fi.mergeable == 1 && anySymbolic(args) {
		if v, ok := m.mergeCall(fn, args); ok {
			return v
		}
	}
	fr := &frame{m: m, fn: fn, info: fi}
	if len(m.frames) > 0 {
		fr.caller = m.frames[len(m.frames)-1]
	}
	fr.env = make([]Value, fi.n)
	k := 0
	for range fn.Params {
		fr.env[k] = args[k]
		k++
	}
	for i := range fn.FreeVars {
		fr.env[k] = env[i]
		k++
	}
	fr.block = fn.Blocks[0]
	m.frames = append(m.frames, fr)
	depth := len(m.frames)
	for fr.block != nil {
		m.runFrame(fr)
		m.frames = m.frames[:depth]
	}
	m.frames = m.frames[:depth-1]
	m.Stats.Funcs[fi.name] += fr.count
	return fr.result
}

func anySymbolic(args []Value) bool {
	for _, a := range args {
		switch a := a.(type) {
		case *Term:
			if !a.IsConst() {
				return true
			}
		case Str:
			if !a.Concrete() {
				return true
			}
		}
	}
	return false
}

func (m *Machine) runFrame(fr *frame) {
	defer func() {
		if fr.block == nil {
			return // normal return
		}
		r := recover()
		tp, ok := r.(targetPanic)
		if !ok {
			panic(r) // path abort or engine bug: no target defers run
		}
		fr.panicking = true
		fr.panicVal = tp
		m.frames = m.frames[:indexOfFrame(m.frames, fr)+1]
		fr.runDefers()
		// recovered
		fr.block = fr.fn.Recover
		if fr.block == nil {
			// no named results: return zero values
			fr.result = m.zeroResults(fr.fn)
		}
	}()
	for {
		instrs := fr.block.Instrs
		// phis
		np := 0
		for np < len(instrs) {
			if _, ok := instrs[np].(*ssa.Phi); !ok {
				break
			}
			np++
		}
		if np > 0 {
			pi := -1
			for i, p := range fr.block.Preds {
				if p == fr.prev {
					pi = i
					break
				}
			}
			tmp := make([]Value, np)
			for i := 0; i < np; i++ {
				tmp[i] = fr.get(instrs[i].(*ssa.Phi).Edges[pi])
			}
			for i := 0; i < np; i++ {
				fr.setReg(instrs[i].(*ssa.Phi), tmp[i])
			}
		}
		for _, in := range instrs[np:] {
			fr.cur = in
			m.steps++
			fr.count++
			if m.steps > m.Cfg.StepBudget {
				m.abort("budget", "step budget exceeded\n"+m.stackString())
			}
			if k := fr.visit(in); k == kReturn {
				return
			} else if k == kJump {
				break
			}
		}
	}
}

const (
	kNext = iota
	kReturn
	kJump
)

func indexOfFrame(fs []*frame, fr *frame) int {
	for i := len(fs) - 1; i >= 0; i-- {
		if fs[i] == fr {
			return i
		}
	}
	return len(fs) - 1
}

func (m *Machine) zeroResults(fn *ssa.Function) Value {
	res := fn.Signature.Results()
	switch res.Len() {
	case 0:
		return nil
	case 1:
		return m.zero(res.At(0).Type())
	}
	return m.zero(res)
}

func (fr *frame) runDefers() {
	m := fr.m
	for len(fr.defers) > 0 {
		d := fr.defers[len(fr.defers)-1]
		fr.defers = fr.defers[:len(fr.defers)-1]
		func() {
			ok := false
			defer func() {
				if ok {
					return
				}
				r := recover()
				if tp, isT := r.(targetPanic); isT {
					fr.panicking = true
					fr.panicVal = tp
					m.frames = m.frames[:indexOfFrame(m.frames, fr)+1]
					return
				}
				panic(r)
			}()
			m.callValue(d.fn, d.args, nil)
			ok = true
		}()
	}
	if fr.panicking {
		panic(fr.panicVal)
	}
}

// visit interprets one instruction and says where to continue.
func (fr *frame) visit(instr ssa.Instruction) int {
	m := fr.m
	if m.Cfg.Trace {
		if v, ok := instr.(ssa.Value); ok {
			fmt.Printf("%*s%s: %s = %s\n", len(m.frames), "", fr.fn.Name(), v.Name(), instr)
		} else {
			fmt.Printf("%*s%s: %s\n", len(m.frames), "", fr.fn.Name(), instr)
		}
	}
	switch instr := instr.(type) {
	case *ssa.DebugRef:
	case *ssa.UnOp:
		if instr.Op == token.MUL {
			m.raceAccess(fr.get(instr.X), false, instr.Pos())
		}
		fr.setReg(instr, m.unop(instr, fr.get(instr.X)))
	case *ssa.BinOp:
		fr.setReg(instr, m.binop(instr.Op, instr.X.Type(), instr.Y.Type(), fr.get(instr.X), fr.get(instr.Y)))
	case *ssa.Call:
		fn, args := fr.prepareCall(&instr.Call)
		if fr.initTop {
			fr.setReg(instr, m.lenientCall(fn, args, instr))
		} else {
			fr.setReg(instr, m.callValue(fn, args, instr))
		}
	case *ssa.ChangeInterface:
		fr.setReg(instr, fr.get(instr.X))
	case *ssa.ChangeType:
		fr.setReg(instr, fr.get(instr.X))
	case *ssa.Convert:
		fr.setReg(instr, m.conv(instr.Type(), instr.X.Type(), fr.get(instr.X)))
	case *ssa.MultiConvert:
		fr.setReg(instr, m.conv(instr.Type(), instr.X.Type(), fr.get(instr.X)))
	case *ssa.SliceToArrayPointer:
		x := fr.get(instr.X).(Slice)
		n := int(deref(instr.Type()).Underlying().(*types.Array).Len())
		if len(x) < n {
			m.rtPanic(fmt.Sprintf("cannot convert slice with length %d to array or pointer to array with length %d", len(x), n))
		}
		if x == nil {
			fr.setReg(instr, (*Value)(nil))
		} else {
			// NOTE: aliasing with the slice is preserved because Array shares the backing store.
			var cell Value = Array(x[:n:n])
			fr.setReg(instr, &cell)
		}
	case *ssa.MakeInterface:
		fr.setReg(instr, Iface{T: instr.X.Type(), V: copyVal(fr.get(instr.X))})
	case *ssa.Extract:
		fr.setReg(instr, fr.get(instr.Tuple).(Tuple)[instr.Index])
	case *ssa.Slice:
		fr.setReg(instr, m.sliceOp(instr, fr.get(instr.X), fr.get(instr.Low), fr.get(instr.High), fr.get(instr.Max)))
	case *ssa.Return:
		switch len(instr.Results) {
		case 0:
		case 1:
			fr.result = fr.get(instr.Results[0])
		default:
			res := make(Tuple, len(instr.Results))
			for i, r := range instr.Results {
				res[i] = fr.get(r)
			}
			fr.result = res
		}
		fr.block = nil
		return kReturn
	case *ssa.RunDefers:
		fr.runDefers()
	case *ssa.Panic:
		v := fr.get(instr.X)
		panic(targetPanic{v: v, msg: "panic: " + m.panicString(v), stack: m.stackString()})
	case *ssa.Send:
		ch, _ := fr.get(instr.Chan).(*Chan)
		m.chanSend(ch, fr.get(instr.X))
	case *ssa.Store:
		m.raceAccess(fr.get(instr.Addr), true, instr.Pos())
		m.store(fr.get(instr.Addr), fr.get(instr.Val))
	case *ssa.If:
		c := m.asTerm(fr.get(instr.Cond))
		if !c.IsConst() && !fr.initTop {
			if v, ok := m.knownAtom(c); ok {
				c = m.C.Bool(v)
			}
		}
		if !c.IsConst() && !fr.initTop {
			fr.shortCircuit(c)
			return kJump
		}
		succ := 1
		if m.Decide(c) {
			succ = 0
		}
		fr.prev, fr.block = fr.block, fr.block.Succs[succ]
		return kJump
	case *ssa.Jump:
		fr.prev, fr.block = fr.block, fr.block.Succs[0]
		return kJump
	case *ssa.Defer:
		fn, args := fr.prepareCall(&instr.Call)
		fr.defers = append(fr.defers, deferred{fn, args})
	case *ssa.Go:
		fn, args := fr.prepareCall(&instr.Call)
		m.spawn(fn, args)
	case *ssa.MakeChan:
		fr.setReg(instr, &Chan{Elem: instr.Type().Underlying().(*types.Chan).Elem(), Cap: m.ConcInt(fr.get(instr.Size))})
	case *ssa.Alloc:
		p := new(Value)
		*p = m.zero(deref(instr.Type()))
		fr.setReg(instr, p)
	case *ssa.MakeSlice:
		n := m.ConcInt(fr.get(instr.Len))
		c := m.ConcInt(fr.get(instr.Cap))
		if n < 0 || c < n || c > 1<<24 {
			if c > 1<<24 && n >= 0 && c >= n {
				m.abort("budget", fmt.Sprintf("make: capacity %d beyond engine bound", c))
			}
			m.rtPanic("makeslice: len out of range")
		}
		el := instr.Type().Underlying().(*types.Slice).Elem()
		s := make(Slice, c)
		z := m.zero(el)
		switch z.(type) {
		case Struct, Array:
			for i := range s {
				s[i] = m.zero(el)
			}
		default:
			for i := range s {
				s[i] = z
			}
		}
		fr.setReg(instr, s[:n])
	case *ssa.MakeMap:
		mt := instr.Type().Underlying().(*types.Map)
		fr.setReg(instr, &Map{KeyType: mt.Key(), ValType: mt.Elem()})
	case *ssa.Range:
		x := fr.get(instr.X)
		switch x := x.(type) {
		case *Map:
			mt := instr.X.Type().Underlying().(*types.Map)
			it := &mapIter{mp: x, kz: m.zero(mt.Key()), vz: m.zero(mt.Elem())}
			if x != nil {
				it.ents = x.E
				rev := m.mapReverse
				if m.mapFlips > 0 && len(x.E) >= 2 && m.Choose(2) == 1 {
					m.mapFlips--
					rev = !rev
				}
				if rev {
					rev := make([]mapEntry, len(x.E))
					for i, e := range x.E {
						rev[len(x.E)-1-i] = e
					}
					it.ents = rev
				}
			} else {
				it.mp = &Map{}
			}
			fr.setReg(instr, it)
		case Str:
			fr.setReg(instr, &strIter{s: x})
		default:
			panic(fmt.Sprintf("range over %T", x))
		}
	case *ssa.Next:
		fr.setReg(instr, fr.get(instr.Iter).(iterator).next(m))
	case *ssa.FieldAddr:
		p, _ := fr.get(instr.X).(*Value)
		if p == nil {
			m.rtPanic("invalid memory address or nil pointer dereference")
		}
		s, ok := (*p).(Struct)
		if !ok {
			if po, isP := (*p).(Poison); isP {
				m.unsupported("field of poisoned struct: " + po.Why)
			}
			panic(fmt.Sprintf("FieldAddr on %T in %s", *p, fr.fn))
		}
		fr.setReg(instr, &s[instr.Field])
	case *ssa.Field:
		fr.setReg(instr, copyVal(fr.get(instr.X).(Struct)[instr.Field]))
	case *ssa.IndexAddr:
		x := fr.get(instr.X)
		idx := m.toInt64(fr.get(instr.Index), instr.Index.Type())
		var cells []Value
		switch x := x.(type) {
		case Slice:
			cells = x
		case *Value:
			if x == nil {
				m.rtPanic("invalid memory address or nil pointer dereference")
			}
			a, ok := (*x).(Array)
			if !ok {
				if po, isP := (*x).(Poison); isP {
					m.unsupported("index of poisoned array: " + po.Why)
				}
				panic(fmt.Sprintf("IndexAddr on pointer to %T", *x))
			}
			cells = a
		case Poison:
			m.unsupported("index of poison: " + x.Why)
		default:
			panic(fmt.Sprintf("IndexAddr on %T", x))
		}
		m.boundsCheck(idx, len(cells), "index")
		if idx.IsConst() {
			fr.setReg(instr, &cells[int(idx.Val)])
		} else {
			fr.setReg(instr, SymRef{Cells: cells, Idx: idx})
		}
	case *ssa.Index:
		x := fr.get(instr.X)
		idx := m.toInt64(fr.get(instr.Index), instr.Index.Type())
		switch x := x.(type) {
		case Str:
			m.boundsCheck(idx, x.Len(), "index")
			if idx.IsConst() {
				fr.setReg(instr, m.strAt(x, int(idx.Val)))
			} else {
				fr.setReg(instr, m.selectTerm(idx, m.strBytes(x)))
			}
		case Array:
			m.boundsCheck(idx, len(x), "index")
			if idx.IsConst() {
				fr.setReg(instr, copyVal(x[int(idx.Val)]))
			} else {
				fr.setReg(instr, m.load(SymRef{Cells: x, Idx: idx}))
			}
		default:
			panic(fmt.Sprintf("Index on %T", x))
		}
	case *ssa.Lookup:
		x := fr.get(instr.X)
		switch x := x.(type) {
		case Str:
			idx := m.toInt64(fr.get(instr.Index), instr.Index.Type())
			m.boundsCheck(idx, x.Len(), "index")
			if idx.IsConst() {
				fr.setReg(instr, m.strAt(x, int(idx.Val)))
			} else {
				fr.setReg(instr, m.selectTerm(idx, m.strBytes(x)))
			}
		case *Map:
			if x != nil && m.raceOn() {
				m.raceKey(x, false, instr.Pos())
			}
			v, ok := m.mapGet(x, fr.get(instr.Index))
			if !ok {
				v = m.zero(instr.X.Type().Underlying().(*types.Map).Elem())
			}
			if instr.CommaOk {
				fr.setReg(instr, Tuple{v, m.C.Bool(ok)})
			} else {
				fr.setReg(instr, v)
			}
		case Poison:
			m.unsupported("lookup in poison: " + x.Why)
		default:
			panic(fmt.Sprintf("Lookup on %T", x))
		}
	case *ssa.MapUpdate:
		mp, _ := fr.get(instr.Map).(*Map)
		if mp != nil && m.raceOn() {
			m.raceKey(mp, true, instr.Pos())
		}
		m.mapSet(mp, fr.get(instr.Key), fr.get(instr.Value))
	case *ssa.TypeAssert:
		x, ok := fr.get(instr.X).(Iface)
		if !ok {
			if po, isP := fr.get(instr.X).(Poison); isP {
				m.unsupported("type assertion on poison: " + po.Why)
			}
			panic(fmt.Sprintf("TypeAssert on %T", fr.get(instr.X)))
		}
		fr.setReg(instr, m.typeAssert(instr, x))
	case *ssa.MakeClosure:
		env := make([]Value, len(instr.Bindings))
		for i, b := range instr.Bindings {
			env[i] = fr.get(b)
		}
		fr.setReg(instr, &Closure{instr.Fn.(*ssa.Function), env})
	case *ssa.Select:
		fr.setReg(instr, m.selectOp(fr, instr))
	default:
		panic(fmt.Sprintf("unexpected instruction %T", instr))
	}
	return kNext
}

// shortCircuit decides a branch whose condition is symbolic, first folding `a || b` / `a && b`
// chains (successor blocks that only compute a further pure condition and branch to the same
// target) into one condition, so that a chain costs one fork instead of one per operand.
func (fr *frame) shortCircuit(c0 *Term) {
	m := fr.m
	C := m.C
	b0 := fr.block
	tgtT, tgtF := b0.Succs[0], b0.Succs[1]
	prevT, prevF := b0, b0
	cond := c0 // cond true -> tgtT (coming from prevT), false -> tgtF (from prevF)
	for iter := 0; iter < 16; iter++ {
		progressed := false
		// try to extend through tgtF (|| pattern) then through tgtT (&& pattern)
		for _, viaTrue := range []bool{false, true} {
			n, x := tgtF, tgtT
			if viaTrue {
				n, x = tgtT, tgtF
			}
			if n == x || len(n.Preds) != 1 || hasPhi(x) || hasPhi(n) {
				continue
			}
			nif, ok := n.Instrs[len(n.Instrs)-1].(*ssa.If)
			if !ok || (n.Succs[0] != x && n.Succs[1] != x) || n.Succs[0] == n.Succs[1] {
				continue
			}
			if !fr.evalPureBlock(n) {
				continue
			}
			c1, ok := fr.get(nif.Cond).(*Term)
			if !ok {
				continue
			}
			var other *ssa.BasicBlock
			toX := c1 // condition (within n) to go to x
			if n.Succs[0] == x {
				other = n.Succs[1]
			} else {
				other = n.Succs[0]
				toX = C.Not(c1)
			}
			if !viaTrue {
				// cond -> x(=tgtT); else in n: toX -> x, else other
				cond = C.Or(cond, toX)
				tgtF, prevF = other, n
			} else {
				// !cond -> x(=tgtF); else in n: toX -> x, else other
				// new cond (true -> other): cond && !toX
				cond = C.And(cond, C.Not(toX))
				tgtT, prevT = other, n
			}
			progressed = true
			break
		}
		if !progressed {
			break
		}
	}
	if m.Decide(cond) {
		fr.prev, fr.block = prevT, tgtT
	} else {
		fr.prev, fr.block = prevF, tgtF
	}
}

func hasPhi(b *ssa.BasicBlock) bool {
	_, ok := b.Instrs[0].(*ssa.Phi)
	return ok
}

// evalPureBlock speculatively evaluates a block consisting only of side-effect-free,
// non-trapping scalar instructions followed by an If. It reports false (having possibly set some
// registers, which is harmless in SSA) when the block contains anything else.
func (fr *frame) evalPureBlock(b *ssa.BasicBlock) bool {
	m := fr.m
	for _, in := range b.Instrs[:len(b.Instrs)-1] {
		switch in := in.(type) {
		case *ssa.DebugRef:
		case *ssa.BinOp:
			switch in.Op {
			case token.QUO, token.REM:
				return false
			case token.SHL, token.SHR:
				if !isUnsigned(in.Y.Type()) {
					if _, isC := in.Y.(*ssa.Const); !isC {
						return false
					}
				}
			}
			x, y := fr.get(in.X), fr.get(in.Y)
			switch x.(type) {
			case *Term, Str:
			default:
				return false
			}
			fr.setReg(in, m.binop(in.Op, in.X.Type(), in.Y.Type(), x, y))
		case *ssa.UnOp:
			if in.Op == token.MUL || in.Op == token.ARROW {
				return false
			}
			x := fr.get(in.X)
			if _, ok := x.(*Term); !ok {
				return false
			}
			fr.setReg(in, m.unop(in, x))
		case *ssa.Convert:
			x := fr.get(in.X)
			if _, ok := x.(*Term); !ok || !isScalar(in.Type()) {
				return false
			}
			fr.setReg(in, m.conv(in.Type(), in.X.Type(), x))
		case *ssa.ChangeType:
			fr.setReg(in, fr.get(in.X))
		case *ssa.Call:
			callee := in.Call.StaticCallee()
			if callee == nil || in.Call.IsInvoke() || callee.Blocks == nil {
				return false
			}
			if _, isIntr := lookupIntrinsic(m, callee, callee.String()); isIntr {
				return false
			}
			fi := m.info(callee)
			if fi.mergeable == 0 {
				fi.mergeable = -1
				if m.staticMergeable(callee, 0) {
					fi.mergeable = 1
				}
			}
			if fi.mergeable != 1 {
				return false
			}
			args := make([]Value, len(in.Call.Args))
			for i, a := range in.Call.Args {
				args[i] = fr.get(a)
			}
			v, ok := m.mergeCall(callee, args)
			if !ok {
				return false
			}
			fr.setReg(in, v)
		default:
			return false
		}
		m.steps++
	}
	return true
}

func (m *Machine) selectOp(fr *frame, instr *ssa.Select) Value {
	// tuple: (index int, recvOk bool, r_0 T_0, ... r_n-1 T_n-1)
	chosen := -1
	var recvd Value
	recvOk := false
	m.yield()
	ready := m.selectReady(fr, instr)
	if len(ready) == 0 && instr.Blocking {
		m.block(func() bool { ready = m.selectReady(fr, instr); return len(ready) > 0 }, "select")
	}
	if len(ready) > 0 {
		k := 0
		if len(ready) > 1 && m.concurrent() {
			k = m.Choose(len(ready)) // Go picks uniformly among the ready cases
		}
		chosen = ready[k]
		st := instr.States[chosen]
		ch := fr.get(st.Chan).(*Chan)
		if st.Dir == types.RecvOnly {
			m.hbAcquire(ch)
			if len(ch.Buf) > 0 {
				recvd, recvOk = ch.Buf[0], true
				ch.Buf = ch.Buf[1:]
				ch.Taken++
			}
		} else {
			if ch.Closed {
				panic(targetPanic{msg: "send on closed channel", stack: m.stackString()})
			}
			m.hbRelease(ch)
			ch.Buf = append(ch.Buf, fr.get(st.Send))
			ch.Sent++
		}
	}
	r := Tuple{m.C.BV(64, uint64(int64(chosen))), m.C.Bool(recvOk)}
	for i, st := range instr.States {
		if st.Dir == types.RecvOnly {
			el := st.Chan.Type().Underlying().(*types.Chan).Elem()
			if i == chosen && recvOk {
				r = append(r, recvd)
			} else {
				r = append(r, m.zero(el))
			}
		}
	}
	return r
}

func (fr *frame) prepareCall(call *ssa.CallCommon) (Value, []Value) {
	m := fr.m
	v := fr.get(call.Value)
	var fn Value
	var args []Value
	if call.Method == nil {
		fn = v
	} else {
		recv, ok := v.(Iface)
		if !ok {
			if po, isP := v.(Poison); isP {
				m.unsupported("method call on poison: " + po.Why)
			}
			panic(fmt.Sprintf("invoke on %T", v))
		}
		if recv.T == nil {
			m.rtPanic("invalid memory address or nil pointer dereference (method call on nil interface)")
		}
		f := m.Prog.SSA.LookupMethod(recv.T, call.Method.Pkg(), call.Method.Name())
		if f == nil {
			panic(fmt.Sprintf("method set of %v lacks %s", recv.T, call.Method))
		}
		fn = f
		args = append(args, recv.V)
	}
	for _, a := range call.Args {
		args = append(args, fr.get(a))
	}
	return fn, args
}

func (m *Machine) sliceOp(instr *ssa.Slice, x, lo, hi, max Value) Value {
	l := 0
	if lo != nil {
		l = m.ConcInt(m.toInt64(lo, instr.Low.Type()))
	}
	switch x := x.(type) {
	case Str:
		h := x.Len()
		if hi != nil {
			h = m.ConcInt(m.toInt64(hi, instr.High.Type()))
		}
		if l < 0 || h < l || h > x.Len() {
			m.rtPanic(fmt.Sprintf("slice bounds out of range [%d:%d] with length %d", l, h, x.Len()))
		}
		return m.strSlice(x, l, h)
	case Slice:
		h := len(x)
		if hi != nil {
			h = m.ConcInt(m.toInt64(hi, instr.High.Type()))
		}
		mx := cap(x)
		if max != nil {
			mx = m.ConcInt(m.toInt64(max, instr.Max.Type()))
		}
		if l < 0 || h < l || mx < h || mx > cap(x) {
			m.rtPanic(fmt.Sprintf("slice bounds out of range [%d:%d:%d] with capacity %d", l, h, mx, cap(x)))
		}
		if x == nil {
			return Slice(nil)
		}
		return x[l:h:mx]
	case *Value:
		if x == nil {
			m.rtPanic("invalid memory address or nil pointer dereference")
		}
		a := (*x).(Array)
		h := len(a)
		if hi != nil {
			h = m.ConcInt(m.toInt64(hi, instr.High.Type()))
		}
		mx := len(a)
		if max != nil {
			mx = m.ConcInt(m.toInt64(max, instr.Max.Type()))
		}
		if l < 0 || h < l || mx < h || mx > len(a) {
			m.rtPanic(fmt.Sprintf("slice bounds out of range [%d:%d:%d] with capacity %d", l, h, mx, len(a)))
		}
		return Slice(a[l:h:mx])
	case Poison:
		m.unsupported("slice of poison: " + x.Why)
	}
	panic(fmt.Sprintf("sliceOp on %T", x))
}

// panicString renders a panic value.
func (m *Machine) panicString(v Value) string {
	if i, ok := v.(Iface); ok {
		if i.T == nil {
			return "nil"
		}
		switch x := i.V.(type) {
		case Str:
			if x.Concrete() {
				return x.S
			}
			return "<symbolic string>"
		case *Term:
			return m.show(x)
		}
		// error / Stringer
		if s, ok := m.tryErrorString(i); ok {
			return s
		}
		return fmt.Sprintf("(%s) %s", i.T, m.show(i.V))
	}
	return m.show(v)
}

// tryErrorString calls Error() or String() on an interface value, if it has one.
func (m *Machine) tryErrorString(i Iface) (s string, ok bool) {
	depth := len(m.frames)
	for _, name := range []string{"Error", "String"} {
		ms := m.Prog.SSA.MethodSets.MethodSet(i.T)
		sel := ms.Lookup(nil, name)
		if sel == nil {
			continue
		}
		f := m.Prog.SSA.MethodValue(sel)
		if f == nil {
			continue
		}
		func() {
			defer func() {
				if r := recover(); r != nil {
					if ap, isAbort := r.(abortPath); isAbort && ap.kind != "unsupported" {
						panic(r)
					}
					m.frames = m.frames[:depth]
					ok = false
				}
			}()
			r := m.callFn(f, []Value{i.V}, nil)
			if st, isS := r.(Str); isS {
				if st.Concrete() {
					s = st.S
				} else {
					s = "<symbolic string>"
				}
				ok = true
			}
		}()
		if ok {
			return s, true
		}
	}
	return "", false
}

var _ = token.ADD
