package larking

import (
	"net/http"
	"net/url"

	"google.golang.org/grpc/codes"
	"google.golang.org/grpc/status"
)

func init() {
	vfHarnesses["VerifH_twirp_escape"] = VerifH_twirp_escape
}

// refJSONFlatObject parses a JSON object whose members are strings or null (RFC 8259, independent of
// encoding/json): member name -> decoded string ("" and false for null). ok=false: not valid JSON of
// that shape.
func refJSONFlatObject(b []byte) (map[string]string, bool) {
	i := 0
	ws := func() {
		for i < len(b) && (b[i] == ' ' || b[i] == '\t' || b[i] == '\n' || b[i] == '\r') {
			i++
		}
	}
	strTok := func() (string, bool) {
		if i >= len(b) || b[i] != '"' {
			return "", false
		}
		st := i
		i++
		for i < len(b) {
			switch b[i] {
			case '\\':
				i += 2
				continue
			case '"':
				i++
				return vfJSONString(b[st:i])
			}
			i++
		}
		return "", false
	}
	out := map[string]string{}
	ws()
	if i >= len(b) || b[i] != '{' {
		return nil, false
	}
	i++
	ws()
	if i < len(b) && b[i] == '}' {
		i++
	} else {
		for {
			ws()
			k, ok := strTok()
			if !ok {
				return nil, false
			}
			ws()
			if i >= len(b) || b[i] != ':' {
				return nil, false
			}
			i++
			ws()
			if i+4 <= len(b) && string(b[i:i+4]) == "null" {
				i += 4
			} else {
				v, ok := strTok()
				if !ok {
					return nil, false
				}
				out[k] = v
			}
			ws()
			if i < len(b) && b[i] == ',' {
				i++
				continue
			}
			if i < len(b) && b[i] == '}' {
				i++
				break
			}
			return nil, false
		}
	}
	ws()
	return out, i == len(b)
}

// VerifH_twirp_escape (C05): Twirp error bodies for status messages that need JSON escaping (control
// characters, DEL, quotes, backslashes, markup characters, text beyond ASCII and beyond the BMP, line
// separators): the body is valid JSON whose "code" is the Twirp name and whose "msg" decodes to
// exactly the handler's message.
func VerifH_twirp_escape() {
	in := schemaRoute()
	out := newFakeMD("vf.Resp", strField("r"))
	mux, srv, _ := vfMuxWith(vfHTTPRule("GET", "/aa/{f}"), in, out)
	msgs := []string{"a\x01b", "\x00", "\x07\x0b", "\x1f", "\x7f", `q"uote`, `back\slash`, "tab\tnl\ncr\r", "<&>", "é", "日本", "\U0001F600", "  ", "plain", "a\U000E0001b", "%s %q", ""}
	msg := msgs[vfChoice(len(msgs))]
	code := codes.Code(1 + vfChoice(16))
	srv.err = status.Error(code, msg)
	r := &http.Request{Method: "GET", URL: &url.URL{Path: "/aa/zz"}, Header: http.Header{"Accept": []string{"application/x"}, "Twirp-Version": []string{"v7"}},
		Body: vfNopCloser{&vfWholeReader{}}, ProtoMajor: 1, ProtoMinor: 1}
	w := newFakeRW()
	mux.ServeHTTP(w, r)
	vfCheck(w.committed && w.status == refHTTPStatus[int(code)], "HTTP status is not the documented status for the handler's code")
	obj, ok := refJSONFlatObject(w.body)
	vfCheck(ok, "Twirp error body is not valid JSON")
	vfCheck(obj["code"] == refTwirpCode[int(code)], "Twirp error body does not carry the Twirp name of the code")
	vfCheck(obj["msg"] == msg, "Twirp error body does not carry the handler's message")
	vfCover("twirp-escaped")
}
