package sym

import (
	"fmt"
	"go/types"

	"golang.org/x/tools/go/ssa"
)

// Cooperative goroutine model.
//
// `go f(x)` creates a simulated goroutine. Exactly one simulated goroutine runs at a time; control
// changes hands only at scheduling points: mutex / RWMutex / WaitGroup / Once operations, sync/atomic
// operations (including atomic.Value), sync.Pool Get / Put, channel send / receive / close / select,
// goroutine start and end, and the harness's explicit vfYield. At a scheduling point with more than
// one runnable goroutine the engine forks over who runs next (a tape decision, so every schedule
// within the bound is explored and re-executable). Switching away from a goroutine that could have
// continued is a *preemption*; a path may take at most `bound` of them (context bounding); switches
// forced by blocking are free. Plain memory accesses are not scheduling points: interleavings that
// differ only in the order of unsynchronised reads and writes between two scheduling points are not
// explored, and data races are not detected.
//
// Each simulated goroutine runs on a real goroutine of its own (the interpreter is recursive), with
// a baton channel guaranteeing mutual exclusion. Until the first `go` statement nothing changes:
// scheduling points cost one length check.

type gor struct {
	id     int
	frames []*frame
	resume chan struct{}
	exited chan struct{}
	done   bool
	ready  func() bool // nil: runnable; otherwise blocked until it returns true
	what   string
	vc     vclock
}

type killSignal struct{}

type lockState struct {
	writer  bool
	readers int
}

type schedState struct {
	gors     []*gor
	cur      *gor
	preempts int
	bound    int
	killed   bool
	pending  interface{} // panic raised in a child, re-raised in goroutine 0
	locks    map[*Value]*lockState
	wgs      map[*Value]int
	onces    map[*Value]bool // Once currently running its function
	Switches int
	race     raceState
}

func (m *Machine) resetSched() {
	main := &gor{id: 0, resume: make(chan struct{}), exited: make(chan struct{})}
	main.vc[0] = 1
	m.sch = schedState{gors: []*gor{main}, cur: main, bound: 2,
		locks: map[*Value]*lockState{}, wgs: map[*Value]int{}, onces: map[*Value]bool{},
		race: raceState{sync: map[interface{}]*vclock{}, shadow: map[interface{}]*shadowCell{}}}
}

func (m *Machine) concurrent() bool { return len(m.sch.gors) > 1 }

// spawn implements the go statement.
func (m *Machine) spawn(fn Value, args []Value) {
	s := &m.sch
	g := &gor{id: len(s.gors), resume: make(chan struct{}), exited: make(chan struct{})}
	s.gors = append(s.gors, g)
	if len(s.gors) > maxGors {
		m.abort("budget", "more than 16 goroutines")
	}
	// the go statement orders everything the parent did before it ahead of the child
	g.vc = s.cur.vc
	g.vc[g.id] = 1
	s.cur.vc[s.cur.id]++
	go func() {
		defer close(g.exited)
		<-g.resume
		defer func() {
			r := recover()
			g.done = true
			if s.killed {
				return
			}
			if r != nil {
				if _, ok := r.(killSignal); ok {
					return
				}
				if s.pending == nil {
					s.pending = r
				}
			}
			m.goexit(g)
		}()
		if s.killed {
			panic(killSignal{})
		}
		m.callValue(fn, args, nil)
	}()
	m.yield()
}

// goexit passes the baton on after goroutine g ended.
func (m *Machine) goexit(g *gor) {
	s := &m.sch
	main := s.gors[0]
	if s.pending != nil {
		m.handTo(main)
		return
	}
	var run []*gor
	for _, o := range s.gors {
		if !o.done && (o.ready == nil || o.ready()) {
			run = append(run, o)
		}
	}
	if len(run) == 0 {
		s.pending = abortPath{"violation", "deadlock: every goroutine is blocked\n" + m.blockedReport()}
		m.handTo(main)
		return
	}
	k := 0
	if len(run) > 1 {
		// the choice is made on behalf of the dead goroutine; an abort here must reach goroutine 0
		func() {
			defer func() {
				if r := recover(); r != nil {
					s.pending = r
				}
			}()
			k = m.Choose(len(run))
		}()
		if s.pending != nil {
			m.handTo(main)
			return
		}
	}
	m.handTo(run[k])
}

// handTo wakes next without parking the caller (used by a goroutine that ended).
func (m *Machine) handTo(next *gor) {
	s := &m.sch
	s.cur.frames = m.frames
	s.cur = next
	m.frames = next.frames
	s.Switches++
	next.resume <- struct{}{}
}

func (m *Machine) blockedReport() string {
	out := ""
	for _, g := range m.sch.gors {
		if !g.done {
			out += fmt.Sprintf("  goroutine %d blocked on %s\n", g.id, g.what)
		}
	}
	return out
}

// switchTo parks the current goroutine and runs next.
func (m *Machine) switchTo(next *gor) {
	s := &m.sch
	prev := s.cur
	prev.frames = m.frames
	s.cur = next
	m.frames = next.frames
	s.Switches++
	next.resume <- struct{}{}
	<-prev.resume
	// resumed (handTo / switchTo of another goroutine has installed our frames)
	if s.killed {
		panic(killSignal{})
	}
	if prev.id == 0 && s.pending != nil {
		p := s.pending
		s.pending = nil
		panic(p)
	}
}

// yield is a scheduling point.
func (m *Machine) yield() {
	s := &m.sch
	if len(s.gors) <= 1 {
		return
	}
	cur := s.cur
	if cur.id == 0 && s.pending != nil {
		p := s.pending
		s.pending = nil
		panic(p)
	}
	var run []*gor
	for _, g := range s.gors {
		if g != cur && !g.done && (g.ready == nil || g.ready()) {
			run = append(run, g)
		}
	}
	curReady := cur.ready == nil || cur.ready()
	if curReady {
		if len(run) == 0 || s.preempts >= s.bound {
			return
		}
		k := m.Choose(1 + len(run))
		if k == 0 {
			return
		}
		s.preempts++
		m.switchTo(run[k-1])
		return
	}
	if len(run) == 0 {
		m.abort("violation", "deadlock: every goroutine is blocked\n"+m.blockedReport())
	}
	k := 0
	if len(run) > 1 {
		k = m.Choose(len(run))
	}
	m.switchTo(run[k])
}

// block parks the current goroutine until ready() holds. Without any other goroutine a blocked
// operation can never proceed.
func (m *Machine) block(ready func() bool, what string) {
	if ready() {
		return
	}
	if !m.concurrent() {
		m.unsupported("blocked with no other goroutine: " + what)
	}
	cur := m.sch.cur
	for !ready() {
		cur.ready, cur.what = ready, what
		m.yield()
		cur.ready = nil
	}
}

// killGors ends every simulated goroutine still alive at the end of a path.
func (m *Machine) killGors() {
	s := &m.sch
	if len(s.gors) <= 1 {
		return
	}
	s.killed = true
	for _, g := range s.gors[1:] {
		select {
		case <-g.exited:
		default:
			select {
			case g.resume <- struct{}{}:
			case <-g.exited:
			}
			<-g.exited
		}
	}
	s.gors = s.gors[:1]
}

// ---- synchronisation primitives ------------------------------------------------------------

func (m *Machine) lockOf(p Value) *lockState {
	cell, _ := p.(*Value)
	if cell == nil {
		m.rtPanic("invalid memory address or nil pointer dereference")
	}
	l := m.sch.locks[cell]
	if l == nil {
		l = &lockState{}
		m.sch.locks[cell] = l
	}
	return l
}

func init() {
	reg("(*sync.Mutex).Lock", func(m *Machine, fn *ssa.Function, args []Value) Value {
		l := m.lockOf(args[0])
		m.yield()
		if !m.concurrent() {
			if l.writer {
				m.unsupported("sync.Mutex locked twice by the only goroutine (deadlock)")
			}
			l.writer = true
			return nil
		}
		m.block(func() bool { return !l.writer }, "sync.Mutex.Lock")
		l.writer = true
		m.hbAcquire(l)
		return nil
	})
	reg("(*sync.Mutex).TryLock", func(m *Machine, fn *ssa.Function, args []Value) Value {
		l := m.lockOf(args[0])
		m.yield()
		if l.writer {
			return m.C.False
		}
		l.writer = true
		return m.C.True
	})
	reg("(*sync.Mutex).Unlock", func(m *Machine, fn *ssa.Function, args []Value) Value {
		l := m.lockOf(args[0])
		if !l.writer {
			panic(targetPanic{msg: "fatal error: sync: unlock of unlocked mutex", stack: m.stackString()})
		}
		m.hbRelease(l)
		l.writer = false
		m.yield()
		return nil
	})
	reg("(*sync.RWMutex).Lock", func(m *Machine, fn *ssa.Function, args []Value) Value {
		l := m.lockOf(args[0])
		m.yield()
		if !m.concurrent() {
			if l.writer || l.readers > 0 {
				m.unsupported("sync.RWMutex.Lock while held by the only goroutine (deadlock)")
			}
			l.writer = true
			return nil
		}
		m.block(func() bool { return !l.writer && l.readers == 0 }, "sync.RWMutex.Lock")
		l.writer = true
		m.hbAcquire(l)
		return nil
	})
	reg("(*sync.RWMutex).Unlock", func(m *Machine, fn *ssa.Function, args []Value) Value {
		l := m.lockOf(args[0])
		if !l.writer {
			panic(targetPanic{msg: "fatal error: sync: Unlock of unlocked RWMutex", stack: m.stackString()})
		}
		m.hbRelease(l)
		l.writer = false
		m.yield()
		return nil
	})
	reg("(*sync.RWMutex).RLock", func(m *Machine, fn *ssa.Function, args []Value) Value {
		l := m.lockOf(args[0])
		m.yield()
		if !m.concurrent() {
			if l.writer {
				m.unsupported("sync.RWMutex.RLock while write-locked by the only goroutine (deadlock)")
			}
			l.readers++
			return nil
		}
		m.block(func() bool { return !l.writer }, "sync.RWMutex.RLock")
		l.readers++
		m.hbAcquire(l)
		return nil
	})
	reg("(*sync.RWMutex).RUnlock", func(m *Machine, fn *ssa.Function, args []Value) Value {
		l := m.lockOf(args[0])
		if l.readers == 0 {
			panic(targetPanic{msg: "fatal error: sync: RUnlock of unlocked RWMutex", stack: m.stackString()})
		}
		m.hbRelease(l)
		l.readers--
		m.yield()
		return nil
	})
	wgCell := func(m *Machine, v Value) *Value {
		cell, _ := v.(*Value)
		if cell == nil {
			m.rtPanic("invalid memory address or nil pointer dereference")
		}
		return cell
	}
	reg("(*sync.WaitGroup).Add", func(m *Machine, fn *ssa.Function, args []Value) Value {
		c := wgCell(m, args[0])
		n := m.sch.wgs[c] + m.ConcInt(args[1])
		if n < 0 {
			panic(targetPanic{msg: "sync: negative WaitGroup counter", stack: m.stackString()})
		}
		m.sch.wgs[c] = n
		m.hbRelease(c)
		m.yield()
		return nil
	})
	reg("(*sync.WaitGroup).Done", func(m *Machine, fn *ssa.Function, args []Value) Value {
		c := wgCell(m, args[0])
		n := m.sch.wgs[c] - 1
		if n < 0 {
			panic(targetPanic{msg: "sync: negative WaitGroup counter", stack: m.stackString()})
		}
		m.hbRelease(c)
		m.sch.wgs[c] = n
		m.yield()
		return nil
	})
	reg("(*sync.WaitGroup).Wait", func(m *Machine, fn *ssa.Function, args []Value) Value {
		c := wgCell(m, args[0])
		m.yield()
		if !m.concurrent() {
			if m.sch.wgs[c] > 0 {
				m.unsupported("sync.WaitGroup.Wait with a positive counter and no other goroutine (deadlock)")
			}
			return nil
		}
		m.block(func() bool { return m.sch.wgs[c] == 0 }, "sync.WaitGroup.Wait")
		m.hbAcquire(c)
		return nil
	})
	reg("runtime.Caller", func(m *Machine, fn *ssa.Function, args []Value) Value {
		// no call-site information (net/http.ServeMux only uses it to word a conflict message)
		return Tuple{m.C.BV(64, 0), Str{}, m.C.BV(64, 0), m.C.False}
	})
	reg("runtime.Gosched", func(m *Machine, fn *ssa.Function, args []Value) Value {
		m.yield()
		return nil
	})
	reg("time.Sleep", func(m *Machine, fn *ssa.Function, args []Value) Value {
		m.yield()
		return nil
	})
}

// ---- channels ------------------------------------------------------------------------------

func (m *Machine) chanSend(ch *Chan, v Value) {
	if ch == nil {
		m.block(func() bool { return false }, "send on nil channel")
	}
	m.yield()
	if !m.concurrent() {
		// single goroutine: a send never blocks (nobody could ever receive)
		if ch.Closed {
			panic(targetPanic{msg: "send on closed channel", stack: m.stackString()})
		}
		ch.Buf = append(ch.Buf, v)
		ch.Sent++
		return
	}
	room := ch.Cap
	if room == 0 {
		room = 1
	}
	m.block(func() bool { return ch.Closed || len(ch.Buf) < room }, "channel send")
	if ch.Closed {
		panic(targetPanic{msg: "send on closed channel", stack: m.stackString()})
	}
	m.hbRelease(ch)
	ch.Buf = append(ch.Buf, v)
	ch.Sent++
	if ch.Cap == 0 {
		// unbuffered: the send completes when a receiver has taken the value
		seq := ch.Sent
		m.block(func() bool { return ch.Taken >= seq || ch.Closed }, "channel send (waiting for the receiver)")
	}
}

func (m *Machine) chanRecv(ch *Chan) (Value, bool) {
	if ch == nil {
		m.block(func() bool { return false }, "receive from nil channel")
	}
	m.yield()
	ch.Waiting++
	m.block(func() bool { return len(ch.Buf) > 0 || ch.Closed }, "channel receive")
	ch.Waiting--
	m.hbAcquire(ch)
	if len(ch.Buf) > 0 {
		v := ch.Buf[0]
		ch.Buf = ch.Buf[1:]
		ch.Taken++
		return v, true
	}
	return m.zero(ch.Elem), false
}

func (m *Machine) chanClose(ch *Chan) {
	if ch == nil {
		panic(targetPanic{msg: "close of nil channel", stack: m.stackString()})
	}
	if ch.Closed {
		panic(targetPanic{msg: "close of closed channel", stack: m.stackString()})
	}
	m.yield()
	m.hbRelease(ch)
	ch.Closed = true
}

// selectReady lists the cases of a select that can proceed now.
func (m *Machine) selectReady(fr *frame, instr *ssa.Select) []int {
	var ready []int
	for i, st := range instr.States {
		ch, _ := fr.get(st.Chan).(*Chan)
		if ch == nil {
			continue
		}
		if st.Dir == types.RecvOnly {
			if len(ch.Buf) > 0 || ch.Closed {
				ready = append(ready, i)
			}
		} else {
			room := ch.Cap
			if room == 0 {
				// an unbuffered send in a select is ready only if a receiver waits; receivers are not
				// tracked individually, so such a case is treated as ready when the channel is empty
				// and another goroutine is blocked receiving on it
				if ch.Closed || (len(ch.Buf) == 0 && m.someoneReceiving(ch)) {
					ready = append(ready, i)
				}
				continue
			}
			if ch.Closed || len(ch.Buf) < room {
				ready = append(ready, i)
			}
		}
	}
	return ready
}

func (m *Machine) someoneReceiving(ch *Chan) bool {
	return ch.Waiting > 0
}
