package larking

import (
	"net/http"
	"net/url"
	"strconv"

	spb "google.golang.org/genproto/googleapis/rpc/status"
	"google.golang.org/grpc/codes"
	"google.golang.org/grpc/status"
	"google.golang.org/protobuf/encoding/protowire"
	"google.golang.org/protobuf/proto"
	"google.golang.org/protobuf/types/known/anypb"
)

func init() {
	vfHarnesses["VerifH_status_details"] = VerifH_status_details
}

// vfMarshalRPCStatus: the engine's stand-in for proto.Marshal of a google.rpc.Status (fields in
// number order, zero values omitted - protobuf-go's deterministic output for this message); natively
// the real proto.Marshal runs.
func vfMarshalRPCStatus(m proto.Message) ([]byte, error) {
	st := m.(*spb.Status)
	var b []byte
	if st.Code != 0 {
		b = protowire.AppendTag(b, 1, protowire.VarintType)
		b = protowire.AppendVarint(b, uint64(int64(st.Code)))
	}
	if st.Message != "" {
		b = protowire.AppendTag(b, 2, protowire.BytesType)
		b = protowire.AppendString(b, st.Message)
	}
	for _, d := range st.Details {
		var sub []byte
		if d.TypeUrl != "" {
			sub = protowire.AppendTag(sub, 1, protowire.BytesType)
			sub = protowire.AppendString(sub, d.TypeUrl)
		}
		if len(d.Value) > 0 {
			sub = protowire.AppendTag(sub, 2, protowire.BytesType)
			sub = protowire.AppendBytes(sub, d.Value)
		}
		b = protowire.AppendTag(b, 3, protowire.BytesType)
		b = protowire.AppendBytes(b, sub)
	}
	return b, nil
}

type refAny struct {
	url string
	val []byte
}

// refVarintAt: base-128 varint written out independently of protowire.
func refVarintAt(b []byte, i int) (uint64, int, bool) {
	var v uint64
	for s := uint(0); s < 64 && i < len(b); s += 7 {
		c := b[i]
		i++
		v |= uint64(c&0x7f) << s
		if c < 0x80 {
			return v, i, true
		}
	}
	return 0, i, false
}

// refParseRPCStatus decodes the wire form of google.rpc.Status (code = 1, message = 2, details = 3 of
// Any{type_url = 1, value = 2}); fields may come in any order.
func refParseRPCStatus(b []byte) (code int64, msg string, details []refAny, ok bool) {
	for i := 0; i < len(b); {
		tag, j, tok := refVarintAt(b, i)
		if !tok {
			return 0, "", nil, false
		}
		i = j
		switch tag {
		case 1<<3 | 0:
			v, j, vok := refVarintAt(b, i)
			if !vok {
				return 0, "", nil, false
			}
			code, i = int64(int32(v)), j
		case 2<<3 | 2, 3<<3 | 2:
			l, j, lok := refVarintAt(b, i)
			if !lok || j+int(l) > len(b) {
				return 0, "", nil, false
			}
			body := b[j : j+int(l)]
			i = j + int(l)
			if tag == 2<<3|2 {
				msg = string(body)
				continue
			}
			var a refAny
			for k := 0; k < len(body); {
				t2, k2, ok2 := refVarintAt(body, k)
				if !ok2 || (t2 != 1<<3|2 && t2 != 2<<3|2) {
					return 0, "", nil, false
				}
				l2, k3, ok3 := refVarintAt(body, k2)
				if !ok3 || k3+int(l2) > len(body) {
					return 0, "", nil, false
				}
				if t2 == 1<<3|2 {
					a.url = string(body[k3 : k3+int(l2)])
				} else {
					a.val = body[k3 : k3+int(l2)]
				}
				k = k3 + int(l2)
			}
			details = append(details, a)
		default:
			return 0, "", nil, false
		}
	}
	return code, msg, details, true
}

// VerifH_status_details (C05): a handler fails with a status carrying details (1..2 Any values with
// symbolic payload bytes), with an empty or a non-empty message, before or after a reply header:
//   - gRPC: grpc-status, grpc-message and a grpc-status-details-bin trailer whose base64 decodes to
//     a google.rpc.Status with the same code, message and details;
//   - gRPC-web (binary): the same in the trailer frame, or as headers in a trailers-only response;
//   - HTTP transcoding: the google.rpc.Status handed to the codec carries code, message and details.
func VerifH_status_details() {
	in := schemaRoute()
	out := newFakeMD("vf.Resp", strField("r"))
	mux, srv, rec := vfMuxWith(vfHTTPRule("GET", "/aa/{f}"), in, out)
	code := codes.Code(1 + vfChoice(16))
	msg := ""
	if vfBool() {
		msg = "m" + vfPlainString(1)
	}
	nd := 1 + vfLen(1)
	var want []refAny
	p := &spb.Status{Code: int32(code), Message: msg}
	for i := 0; i < nd; i++ {
		a := refAny{url: "type.googleapis.com/vf.D" + string(rune('0'+i)), val: vfBytes(vfLen(2))}
		want = append(want, a)
		p.Details = append(p.Details, &anypb.Any{TypeUrl: a.url, Value: a.val})
	}
	srv.err = status.FromProto(p).Err()
	checkBin := func(enc string, present bool) {
		vfCheck(present, "the status details did not reach the client (no grpc-status-details-bin)")
		raw, ok := refProtoJSONBytes(enc)
		vfCheck(ok, "grpc-status-details-bin is not base64")
		c, m, ds, pok := refParseRPCStatus(raw)
		vfCheck(pok, "grpc-status-details-bin does not decode to a google.rpc.Status")
		vfCheck(c == int64(code) && m == msg, "the Status in grpc-status-details-bin carries another code or message")
		vfCheck(len(ds) == len(want), "the Status in grpc-status-details-bin carries another number of details")
		for i := range want {
			if i < len(ds) {
				vfCheck(ds[i].url == want[i].url && vfBytesEq(ds[i].val, want[i].val), "a status detail was altered on the way to the client")
			}
		}
	}
	switch vfChoice(3) {
	case 0:
		r := vfGRPCRequest("application/grpc+fake", []byte{1}, nil)
		w := newFakeRW()
		mux.ServeHTTP(w, r)
		gs, ok := w.trailer("Grpc-Status")
		vfCheck(ok && len(gs) == 1 && gs[0] == strconv.Itoa(int(code)), "grpc-status trailer is not the handler's code")
		db, ok := w.trailer("Grpc-Status-Details-Bin")
		enc := ""
		if len(db) == 1 {
			enc = db[0]
		}
		checkBin(enc, ok && len(db) == 1)
		vfCover("grpc")
	case 1:
		frame := []byte{0, 0, 0, 0, 1, 1}
		r := &http.Request{Method: "POST", URL: &url.URL{Path: "/vf.S/M0"}, Header: http.Header{"Content-Type": []string{"application/grpc-web+fake"}},
			Body: vfNopCloser{&vfWholeReader{data: frame}}, ContentLength: int64(len(frame)), ProtoMajor: 1, ProtoMinor: 1}
		w := newFakeRW()
		mux.ServeHTTP(w, r)
		w.finish()
		if len(w.body) == 0 {
			db := w.sentHeader["Grpc-Status-Details-Bin"]
			enc := ""
			if len(db) == 1 {
				enc = db[0]
			}
			checkBin(enc, len(db) == 1)
			vfCover("web-trailers-only")
		} else {
			got := w.body
			vfCheck(len(got) >= 5 && got[0] == 0x80, "trailer frame missing")
			tr := vfParseTrailerBlock(got[5:])
			enc, ok := tr["grpc-status-details-bin"]
			checkBin(enc, ok)
			vfCover("web-trailer-frame")
		}
	default:
		r := &http.Request{Method: "GET", URL: &url.URL{Path: "/aa/zz"}, Header: http.Header{"Accept": []string{"application/x"}}, Body: vfNopCloser{&vfWholeReader{}}, ProtoMajor: 1, ProtoMinor: 1}
		w := newFakeRW()
		mux.ServeHTTP(w, r)
		vfCheck(len(rec.statuses) == 1, "google.rpc.Status not marshalled exactly once")
		sp := rec.statuses[0]
		vfCheck(codes.Code(sp.Code) == code && sp.Message == msg, "google.rpc.Status body does not carry the handler's code and message")
		vfCheck(len(sp.Details) == len(want), "google.rpc.Status body does not carry the handler's details")
		for i := range want {
			if i < len(sp.Details) {
				vfCheck(sp.Details[i].TypeUrl == want[i].url && vfBytesEq(sp.Details[i].Value, want[i].val), "a status detail was altered in the google.rpc.Status body")
			}
		}
		vfCover("http")
	}
	if msg == "" {
		vfCover("empty-message")
	}
}
