package larking

import (
	"context"
	"net/http"
	"net/url"

	"google.golang.org/genproto/googleapis/api/annotations"
	"google.golang.org/genproto/googleapis/api/serviceconfig"
	"google.golang.org/grpc"
	grpchealth "google.golang.org/grpc/health"
	healthpb "google.golang.org/grpc/health/grpc_health_v1"
	"google.golang.org/protobuf/reflect/protoreflect"
	lhealth "larking.io/health"
)

func init() {
	vfHarnesses["VerifH_healthz"] = VerifH_healthz
}

// vfHealthBridge adapts the REAL grpc health server to the fake message world: the request decoded
// by larking into a fake HealthCheckRequest is handed to health.Server.Check as the generated
// message, and its reply is copied into a fake HealthCheckResponse.
type vfHealthBridge struct {
	real    *grpchealth.Server
	in, out *fakeMD
	calls   int
	asked   string
}

func vfHealthCheckHandler(srv interface{}, ctx context.Context, dec func(interface{}) error, _ grpc.UnaryServerInterceptor) (interface{}, error) {
	s := srv.(*vfHealthBridge)
	in := newFakeMsg(s.in)
	if err := dec(in); err != nil {
		return nil, err
	}
	s.calls++
	s.asked = in.str("service")
	resp, err := s.real.Check(ctx, &healthpb.HealthCheckRequest{Service: s.asked})
	if err != nil {
		return nil, err
	}
	out := newFakeMsg(s.out)
	if resp.Status != 0 {
		out.vals["status"] = protoreflect.ValueOfEnum(protoreflect.EnumNumber(resp.Status))
	}
	return out, nil
}

var vfServingNames = []string{"UNKNOWN", "SERVING", "NOT_SERVING", "SERVICE_UNKNOWN"}

// VerifH_healthz (C19): health.AddHealthz merged into a service config (empty, or already holding
// a rule of the user's) exposes grpc.health.v1.Health.Check at GET /v1/healthz and Watch at
// WEBSOCKET /v1/healthz; a GET reports precisely the status set on the real grpc health server for
// the service named by ?service=, an unset service is NotFound, and the user's own rule survives.
func VerifH_healthz() {
	en := &fakeED{full: "grpc.health.v1.HealthCheckResponse.ServingStatus", values: vfServingNames}
	in := newFakeMD("grpc.health.v1.HealthCheckRequest", strField("service"))
	out := newFakeMD("grpc.health.v1.HealthCheckResponse", &fakeFD{name: "status", kind: protoreflect.EnumKind, enum: en})
	check := &fakeMethod{full: "grpc.health.v1.Health.Check", in: in, out: out, opts: &fakeOpts{}}
	watch := &fakeMethod{full: "grpc.health.v1.Health.Watch", in: in, out: out, ss: true, opts: &fakeOpts{}}
	svc := &fakeSvc{full: "grpc.health.v1.Health", methods: &fakeMethodList{list: []*fakeMethod{check, watch}}}

	sc := &serviceconfig.Service{}
	userRule := vfBool()
	if userRule {
		own := vfHTTPRule("GET", "/own/check")
		own.Selector = "grpc.health.v1.Health.Check"
		sc.Http = &annotations.Http{Rules: []*annotations.HttpRule{own}}
	}
	otherConfig := vfBool()
	if otherConfig {
		// another configuration, built with AddHealthz earlier and extended afterwards, must not leak
		// into this one
		other := &serviceconfig.Service{}
		lhealth.AddHealthz(other)
		leak := vfHTTPRule("GET", "/leak/check")
		leak.Selector = "grpc.health.v1.Health.Check"
		other.Http.Rules = append(other.Http.Rules, leak)
	}
	lhealth.AddHealthz(sc)
	mux, err := NewMux(ServiceConfigOption(sc), FilesOption(vfRegistry(svc)))
	if err != nil {
		vfFail("NewMux failed")
	}
	hs := lhealth.NewServer()
	br := &vfHealthBridge{real: hs, in: in, out: out}
	sd := &grpc.ServiceDesc{ServiceName: "grpc.health.v1.Health",
		Methods: []grpc.MethodDesc{{MethodName: "Check", Handler: vfHealthCheckHandler}},
		Streams: []grpc.StreamDesc{{StreamName: "Watch", Handler: vfStreamHandler, ServerStreams: true}}}
	if err := mux.registerService(sd, br); err != nil {
		vfFail("registerService failed: " + err.Error())
	}
	// the application sets statuses on the health server
	name := ""
	if vfBool() {
		name = vfPlainString(2)
	}
	setSt := vfInt(0, 3)
	didSet := vfBool()
	if didSet {
		hs.SetServingStatus(name, healthpb.HealthCheckResponse_ServingStatus(setSt))
	}
	// the WebSocket binding routes to Watch
	if wm, _, werr := mux.loadState().match("/v1/healthz", "WEBSOCKET"); werr != nil || wm.name != "/grpc.health.v1.Health/Watch" {
		vfFail("WEBSOCKET /v1/healthz is not bound to grpc.health.v1.Health.Watch")
	}
	ask := ""
	if vfBool() {
		ask = vfPlainString(2)
	}
	path := "/v1/healthz"
	probeOwn := userRule && vfBool()
	if probeOwn {
		path = "/own/check"
	}
	if otherConfig && !probeOwn && vfBool() {
		r := &http.Request{Method: "GET", URL: &url.URL{Path: "/leak/check"}, Header: http.Header{},
			Body: vfNopCloser{&vfWholeReader{}}, ProtoMajor: 1, ProtoMinor: 1}
		w := newFakeRW()
		mux.ServeHTTP(w, r)
		vfCheck(br.calls == 0 && w.status == 404, "a rule added to ANOTHER service config is bound in this mux")
		vfCover("other-config-does-not-leak")
		return
	}
	query := ""
	if len(ask) > 0 {
		query = "service=" + ask
	}
	r := &http.Request{Method: "GET", URL: &url.URL{Path: path, RawQuery: query}, Header: http.Header{},
		Body: vfNopCloser{&vfWholeReader{}}, ProtoMajor: 1, ProtoMinor: 1}
	w := newFakeRW()
	mux.ServeHTTP(w, r)
	w.finish()
	vfCheck(br.calls == 1, "GET /v1/healthz did not reach grpc.health.v1.Health.Check exactly once")
	vfCheck(br.asked == ask, "the service named in the query string is not the one asked of the health server")
	// what the health server holds for the asked name
	want := -1
	if ask == "" {
		want = 1 // NewServer registers "" as SERVING
	}
	if didSet && ask == name {
		want = int(setSt)
	}
	ct := w.sentHeader["Content-Type"]
	if want < 0 {
		vfCheck(w.status == 404, "an unset service is not reported NotFound")
		vfCover("unknown-service")
	} else {
		vfCheck(w.status == 200 && len(ct) == 1 && ct[0] == "application/json", "healthz did not answer 200 application/json")
		got, ok := refJSONStringMember(w.body, "status")
		if want == 0 {
			vfCheck(!ok || got == "UNKNOWN", "status UNKNOWN not reported as the default value")
			vfCover("status-unknown")
		} else {
			vfCheck(ok && got == vfServingNames[vfConc(want)], "healthz reports a status other than the one set on the health server")
			vfCover("status-set")
		}
	}
	if probeOwn {
		vfCover("user-rule-kept")
	}
	if ask == "" {
		vfCover("default-service")
	}
}
