package sym

import (
	"bufio"
	"fmt"
	"io"
	"os/exec"
	"strconv"
	"strings"
	"time"
)

// QueryTimeoutMS bounds every check-sat; a timeout is reported as unknown (inconclusive), never as success.
var QueryTimeoutMS = 30000

// IncrementalTimeoutMS bounds a check-sat in the incremental context before the one-shot fallback is tried.
var IncrementalTimeoutMS = 1000

// Result of a satisfiability query.
type Result int

const (
	Unsat Result = iota
	Sat
	Unknown
)

func (r Result) String() string { return [...]string{"unsat", "sat", "unknown"}[r] }

// Solver is one long-lived SMT solver process driven over a pipe.
type Solver struct {
	Name    string
	cmd     *exec.Cmd
	in      *bufio.Writer
	out     *bufio.Reader
	inRaw   io.WriteCloser
	defined []map[*Term]string // per scope: terms that have a define-fun / declare-const
	Queries struct{ Sat, Unsat, Unknown, Errors int }
	Time    time.Duration
	Log     io.Writer // optional transcript
	dead    error
}

// SolverCommand returns argv for a named solver.
func SolverCommand(name string) []string {
	switch name {
	case "z3-new", "":
		return []string{"z3-new", "-in"}
	case "z3":
		return []string{"/usr/bin/z3", "-in"}
	case "cvc5":
		return []string{"cvc5", "--incremental", "--lang=smt2", "--produce-models", fmt.Sprintf("--tlimit-per=%d", IncrementalTimeoutMS)}
	}
	return strings.Fields(name)
}

func NewSolver(name string) (*Solver, error) {
	argv := SolverCommand(name)
	cmd := exec.Command(argv[0], argv[1:]...)
	inp, err := cmd.StdinPipe()
	if err != nil {
		return nil, err
	}
	outp, err := cmd.StdoutPipe()
	if err != nil {
		return nil, err
	}
	cmd.Stderr = cmd.Stdout
	if err := cmd.Start(); err != nil {
		return nil, err
	}
	s := &Solver{Name: name, cmd: cmd, in: bufio.NewWriterSize(inp, 1<<16), out: bufio.NewReaderSize(outp, 1<<16), inRaw: inp}
	s.defined = []map[*Term]string{{}}
	isCVC := strings.HasSuffix(argv[0], "cvc5")
	if isCVC {
		s.send("(set-logic QF_BV)")
	}
	s.send("(set-option :produce-models true)")
	if !isCVC {
		s.send(fmt.Sprintf("(set-option :timeout %d)", IncrementalTimeoutMS))
	}
	return s, nil
}

func (s *Solver) Close() {
	if s.cmd != nil {
		s.inRaw.Close()
		s.cmd.Process.Kill()
		s.cmd.Wait()
		s.cmd = nil
	}
}

func (s *Solver) send(line string) {
	if s.Log != nil {
		fmt.Fprintln(s.Log, line)
	}
	s.in.WriteString(line)
	s.in.WriteByte('\n')
}

func (s *Solver) Push() {
	s.send("(push 1)")
	s.defined = append(s.defined, map[*Term]string{})
}

func (s *Solver) Pop() {
	s.send("(pop 1)")
	s.defined = s.defined[:len(s.defined)-1]
}

// Depth is the current number of scopes above the base.
func (s *Solver) Depth() int { return len(s.defined) - 1 }

func (s *Solver) lookup(t *Term) (string, bool) {
	for i := len(s.defined) - 1; i >= 0; i-- {
		if n, ok := s.defined[i][t]; ok {
			return n, true
		}
	}
	return "", false
}

// ref returns a name for t, emitting define-fun / declare-const lines as needed.
func (s *Solver) ref(t *Term) string {
	if t.Op == OpConst {
		return constString(t)
	}
	if n, ok := s.lookup(t); ok {
		return n
	}
	// iterative post-order to avoid deep recursion on long chains
	type item struct {
		t    *Term
		done bool
	}
	stack := []item{{t, false}}
	for len(stack) > 0 {
		it := stack[len(stack)-1]
		stack = stack[:len(stack)-1]
		if it.t.Op == OpConst {
			continue
		}
		if _, ok := s.lookup(it.t); ok {
			continue
		}
		if it.t.Op == OpVar {
			s.send(fmt.Sprintf("(declare-const %s %s)", it.t.Name, sortString(it.t.W)))
			s.defined[len(s.defined)-1][it.t] = it.t.Name
			continue
		}
		if !it.done {
			stack = append(stack, item{it.t, true})
			for i := it.t.N - 1; i >= 0; i-- {
				stack = append(stack, item{it.t.A[i], false})
			}
			continue
		}
		name := "t" + strconv.Itoa(it.t.ID)
		body := it.t.head(func(x *Term) string {
			if x.Op == OpConst {
				return constString(x)
			}
			n, ok := s.lookup(x)
			if !ok {
				panic("solver.ref: child not defined")
			}
			return n
		})
		s.send(fmt.Sprintf("(define-fun %s () %s %s)", name, sortString(it.t.W), body))
		s.defined[len(s.defined)-1][it.t] = name
	}
	n, _ := s.lookup(t)
	return n
}

// Assert adds t to the current scope.
func (s *Solver) Assert(t *Term) {
	s.send("(assert " + s.ref(t) + ")")
}

func (s *Solver) readLine() (string, error) {
	line, err := s.out.ReadString('\n')
	if err != nil {
		s.dead = err
		return "", err
	}
	return strings.TrimSpace(line), nil
}

// Check runs check-sat on the current assertion stack.
func (s *Solver) Check() Result {
	if s.dead != nil {
		s.Queries.Errors++
		return Unknown
	}
	t0 := time.Now()
	s.send("(check-sat)")
	s.in.Flush()
	var res Result = Unknown
	for {
		line, err := s.readLine()
		if err != nil {
			s.Queries.Errors++
			break
		}
		if s.Log != nil {
			fmt.Fprintln(s.Log, "; ->", line)
		}
		if line == "" {
			continue
		}
		if strings.Contains(line, "(error") || strings.HasPrefix(line, "(error") {
			s.Queries.Errors++
			// keep reading until an answer arrives; the answer is not believed.
			s.dead = fmt.Errorf("solver error: %s", line)
			break
		}
		switch line {
		case "sat":
			res = Sat
		case "unsat":
			res = Unsat
		case "unknown":
			res = Unknown
		default:
			// warnings and similar: skip
			continue
		}
		break
	}
	s.Time += time.Since(t0)
	switch res {
	case Sat:
		s.Queries.Sat++
	case Unsat:
		s.Queries.Unsat++
	default:
		s.Queries.Unknown++
	}
	return res
}

// CheckAssuming checks satisfiability of the current stack plus t, leaving the stack unchanged.
func (s *Solver) CheckAssuming(t *Term) Result {
	s.Push()
	s.Assert(t)
	r := s.Check()
	s.Pop()
	return r
}

// GetModel returns values for the given variables (after a Sat answer, in the same scope).
func (s *Solver) GetModel(vars []*Term) (Model, error) {
	m := Model{}
	if len(vars) == 0 {
		return m, nil
	}
	var sb strings.Builder
	sb.WriteString("(get-value (")
	for i, v := range vars {
		if i > 0 {
			sb.WriteByte(' ')
		}
		sb.WriteString(s.ref(v))
	}
	sb.WriteString("))")
	s.send(sb.String())
	s.in.Flush()
	// read a balanced s-expression
	depth := 0
	var buf strings.Builder
	started := false
	for !started || depth > 0 {
		line, err := s.readLine()
		if err != nil {
			return nil, err
		}
		if strings.HasPrefix(line, "(error") {
			s.dead = fmt.Errorf("solver error: %s", line)
			return nil, s.dead
		}
		for _, ch := range line {
			if ch == '(' {
				depth++
				started = true
			} else if ch == ')' {
				depth--
			}
		}
		buf.WriteString(line)
		buf.WriteByte(' ')
	}
	toks := tokenize(buf.String())
	// ((name val) (name val) ...), where val is #x.., #b.., true, false, or (_ bvN W)
	i := 0
	expect := func(tok string) error {
		if i >= len(toks) || toks[i] != tok {
			return fmt.Errorf("model parse: expected %q at %d in %v", tok, i, toks)
		}
		i++
		return nil
	}
	if err := expect("("); err != nil {
		return nil, err
	}
	for i < len(toks) && toks[i] == "(" {
		i++
		name := toks[i]
		i++
		var val uint64
		switch {
		case toks[i] == "(":
			// (_ bvN W)
			i++
			if toks[i] != "_" {
				return nil, fmt.Errorf("model parse: unexpected %v", toks[i:])
			}
			i++
			v, err := strconv.ParseUint(strings.TrimPrefix(toks[i], "bv"), 10, 64)
			if err != nil {
				return nil, err
			}
			val = v
			i += 2 // value, width
			if err := expect(")"); err != nil {
				return nil, err
			}
		case strings.HasPrefix(toks[i], "#x"):
			v, err := strconv.ParseUint(toks[i][2:], 16, 64)
			if err != nil {
				return nil, err
			}
			val = v
			i++
		case strings.HasPrefix(toks[i], "#b"):
			v, err := strconv.ParseUint(toks[i][2:], 2, 64)
			if err != nil {
				return nil, err
			}
			val = v
			i++
		case toks[i] == "true":
			val = 1
			i++
		case toks[i] == "false":
			val = 0
			i++
		default:
			return nil, fmt.Errorf("model parse: unexpected value %q", toks[i])
		}
		if err := expect(")"); err != nil {
			return nil, err
		}
		m[name] = val
	}
	return m, nil
}

func tokenize(s string) []string {
	var toks []string
	cur := strings.Builder{}
	flush := func() {
		if cur.Len() > 0 {
			toks = append(toks, cur.String())
			cur.Reset()
		}
	}
	for _, ch := range s {
		switch ch {
		case '(', ')':
			flush()
			toks = append(toks, string(ch))
		case ' ', '\t', '\n', '\r':
			flush()
		default:
			cur.WriteRune(ch)
		}
	}
	flush()
	return toks
}

// Reset returns the solver to its base scope.
func (s *Solver) Reset() {
	for s.Depth() > 0 {
		s.Pop()
	}
}

// Err reports a fatal solver error (any "(error" line or a broken pipe).
func (s *Solver) Err() error { return s.dead }

// OneShot decides the conjunction of terms in a fresh, non-incremental context: z3 then uses its
// bit-blasting tactic pipeline, which decides multiplier chains that the incremental core does not.
func (s *Solver) OneShot(terms []*Term, vars []*Term, timeoutMS int) (Result, Model) {
	s.send("(reset)")
	s.defined = []map[*Term]string{{}}
	s.send("(set-option :produce-models true)")
	if !strings.HasSuffix(SolverCommand(s.Name)[0], "cvc5") {
		s.send(fmt.Sprintf("(set-option :timeout %d)", timeoutMS))
	} else {
		s.send("(set-logic QF_BV)")
		s.send(fmt.Sprintf("(set-option :tlimit-per %d)", timeoutMS))
	}
	for _, v := range vars {
		s.ref(v)
	}
	for _, t := range terms {
		s.Assert(t)
	}
	r := s.Check()
	var m Model
	if r == Sat {
		mm, err := s.GetModel(vars)
		if err == nil {
			m = mm
		}
	}
	return r, m
}
