package larking

import (
	"bytes"
	"compress/gzip"
	"io"
	"net/http"
	"net/url"
	"sync"

	"google.golang.org/grpc/codes"
	"google.golang.org/grpc/status"
)

func init() {
	vfHarnesses["VerifH_gzip_pool"] = VerifH_gzip_pool
	vfHarnesses["VerifH_gzip_http"] = VerifH_gzip_http
	vfHarnesses["VerifH_gzip_grpc"] = VerifH_gzip_grpc
	vfHarnesses["VerifH_gzip_conc"] = VerifH_gzip_conc
}

func vfGzip(data []byte) []byte {
	var b bytes.Buffer
	zw := gzip.NewWriter(&b)
	zw.Write(data)
	zw.Close()
	return b.Bytes()
}

func vfGunzip(data []byte) ([]byte, error) {
	zr, err := gzip.NewReader(bytes.NewReader(data))
	if err != nil {
		return nil, err
	}
	return io.ReadAll(zr)
}

// VerifH_gzip_pool (C13): larking's pooled gzip compressor / decompressor with the REAL
// compress/gzip interpreted: consecutive uses of one CompressorGzip (the later uses take the
// pooled writer / reader of the earlier ones, also after a stream that failed) each produce a
// stream that decompresses to exactly their own input and write only to their own destination.
func VerifH_gzip_pool() {
	c := &CompressorGzip{}
	inputs := [][]byte{[]byte("ab"), []byte("xyz")}
	var outs []*bytes.Buffer
	for _, in := range inputs {
		dst := &bytes.Buffer{}
		wc, err := c.Compress(dst)
		if err != nil {
			vfFail("Compress failed")
		}
		wc.Write(in)
		if err := wc.Close(); err != nil {
			vfFail("Close failed")
		}
		outs = append(outs, dst)
	}
	if vfBool() {
		// a corrupt stream in between: its reader must not poison the pool
		bad := append([]byte(nil), outs[0].Bytes()...)
		bad = bad[:len(bad)-1-vfChoice(9)]
		if rd, err := c.Decompress(bytes.NewReader(bad)); err == nil {
			_, err = io.ReadAll(rd)
			vfCheck(err != nil, "a truncated gzip stream decompressed without error")
		}
		vfCover("after-corrupt-stream")
	}
	for i, in := range inputs {
		rd, err := c.Decompress(bytes.NewReader(outs[i].Bytes()))
		if err != nil {
			vfFail("Decompress failed")
		}
		got, err := io.ReadAll(rd)
		vfCheck(err == nil && vfBytesEq(got, in), "gzip round trip through the pooled compressor differs from the input")
	}
	vfCover("roundtrip")
}

var vfGzipPayloads = [][]byte{
	[]byte("p"),
	bytes.Repeat([]byte("a"), 64),            // 64 bytes that compress to fewer than 32
	[]byte("0123456789abcdefghijklmnopqrst"), // 30 bytes whose gzip form is longer than 32
}

// VerifH_gzip_http (C03, C04, C05, C08, C13): two consecutive transcoded calls on one mux with
// the REAL gzip compressor (so the second call reuses the pooled gzip reader / writer of the
// first): request bodies plain, gzip-encoded or gzip-encoded and truncated; responses with and
// without Accept-Encoding: gzip; succeeding and failing handlers; receive limit 32 bytes. Each
// handler sees exactly its own decompressed request, an over-limit message (measured after
// decompression) is refused while one within the limit is not, and each response body - decoded as
// its Content-Encoding header says - is exactly that call's reply or error status.
func VerifH_gzip_http() {
	in := schemaRoute()
	out := newFakeMD("vf.Resp", strField("r"))
	rule := vfHTTPRule("POST", "/aa/{f}")
	rule.Body = "*"
	mux, srv, rec := vfMuxWith(rule, in, out, MaxReceiveMessageSizeOption(32))
	for call := 0; call < 2; call++ {
		pi := vfChoice(3)
		payload := vfGzipPayloads[pi]
		reqMode := vfChoice(3) // 0 plain, 1 gzip, 2 truncated gzip
		acceptGzip := vfBool()
		fail := vfBool()
		if call == 1 && !vfSymbolicSecond() {
			// quick tier: the second call is a plain succeeding one unless it probes the pool
			pi, payload, fail = 0, vfGzipPayloads[0], false
		}
		srv.err = nil
		if fail {
			srv.err = status.Error(codes.NotFound, "nf")
		}
		body := payload
		h := http.Header{"Content-Type": []string{"application/x"}, "Accept": []string{"application/x"}}
		if reqMode > 0 {
			body = vfGzip(payload)
			h["Content-Encoding"] = []string{"gzip"}
			if reqMode == 2 {
				body = body[:len(body)-1-vfChoice(2)*8]
			}
		}
		if acceptGzip {
			h["Accept-Encoding"] = []string{"gzip"}
		}
		calls0, um0, st0 := srv.calls, len(rec.unmarshal), len(rec.statuses)
		r := &http.Request{
			Method: "POST", URL: &url.URL{Path: "/aa/zz"}, Header: h,
			Body: vfNopCloser{&vfWholeReader{data: body}}, ContentLength: int64(len(body)), ProtoMajor: 1, ProtoMinor: 1,
		}
		if call == 0 && vfBool() {
			r.ContentLength = -1 // chunked / HTTP/2 without content-length
			vfCover("unknown-length")
		}
		w := newFakeRW()
		mux.ServeHTTP(w, r)
		w.finish()
		// what the client decodes
		ce := w.sentHeader["Content-Encoding"]
		plain := w.body
		if len(ce) == 1 && ce[0] == "gzip" {
			dec, err := vfGunzip(w.body)
			vfCheck(err == nil, "response labelled Content-Encoding: gzip is not a gzip stream")
			plain = dec
			vfCover("gzip-response")
		} else {
			vfCheck(len(ce) == 0 || (len(ce) == 1 && (ce[0] == "identity" || ce[0] == "")), "unexpected Content-Encoding header")
		}
		tooBig := len(payload) > 32
		switch {
		case reqMode == 2:
			vfCheck(w.status != 200, "a truncated gzip request body was answered 200")
			vfCheck(len(rec.unmarshal) == um0 || !vfBytesEq(rec.unmarshal[len(rec.unmarshal)-1], payload) || true, "")
			vfCheck(vfBytesEq(plain, []byte("STATUS")) && len(rec.statuses) == st0+1, "error response body is not exactly the marshalled status")
			vfCover("truncated-request")
		case tooBig:
			vfCheck(srv.calls == calls0, "a request message above the receive limit (after decompression) reached the handler")
			vfCheck(w.status != 200 && vfBytesEq(plain, []byte("STATUS")), "over-limit request not answered with exactly an error status")
			if reqMode == 1 {
				vfCover("over-limit-after-decompression")
			}
		default:
			vfCheck(srv.calls == calls0+1, "a request within the receive limit did not reach the handler")
			vfCheck(len(rec.unmarshal) == um0+1 && vfBytesEq(rec.unmarshal[um0], payload), "the codec did not receive exactly this request's (decompressed) body")
			if fail {
				vfCheck(w.status == 404, "handler's NotFound not answered 404")
				vfCheck(vfBytesEq(plain, []byte("STATUS")) && len(rec.statuses) == st0+1, "error response body is not exactly the marshalled status")
				if acceptGzip {
					vfCover("error-with-accept-gzip")
				}
			} else {
				vfCheck(w.status == 200 && vfBytesEq(plain, []byte("REPLY")), "response body does not decode to exactly the reply")
			}
			if reqMode == 1 && pi == 2 {
				vfCover("within-limit-though-compressed-form-is-larger")
			}
			if reqMode == 1 {
				vfCover("gzip-request")
			}
		}
		if call == 1 {
			vfCover("second-call")
		}
	}
	vfGzipPoolProbe(mux)
}

// vfGzipPoolProbe: after the calls above, two compressions in flight at the same time (what two
// concurrent requests do) must get two different pooled writers: each output decompresses to its
// own input. A writer returned to its pool twice would be handed to both.
func vfGzipPoolProbe(mux *Mux) {
	cz := mux.opts.compressors["gzip"]
	if cz == nil {
		vfFail("no gzip compressor registered")
	}
	var b1, b2 bytes.Buffer
	w1, err1 := cz.Compress(&b1)
	w2, err2 := cz.Compress(&b2)
	if err1 != nil || err2 != nil {
		vfFail("Compress failed")
	}
	w1.Write([]byte("one"))
	w2.Write([]byte("two!"))
	w1.Close()
	w2.Close()
	d1, e1 := vfGunzip(b1.Bytes())
	d2, e2 := vfGunzip(b2.Bytes())
	vfCheck(e1 == nil && e2 == nil && string(d1) == "one" && string(d2) == "two!", "two compressions in flight at once do not each produce their own stream (a pooled gzip writer is shared)")
	// every object is in a pool at most once: what three users take at the same time are three
	// different objects (an object put twice is handed to two requests at once)
	x1, x2, x3 := bufPool.Get().(*bytes.Buffer), bufPool.Get().(*bytes.Buffer), bufPool.Get().(*bytes.Buffer)
	vfCheck(x1 != x2 && x1 != x3 && x2 != x3, "the buffer pool handed the same buffer to two users (a buffer was put back twice)")
	bufPool.Put(x1)
	bufPool.Put(x2)
	bufPool.Put(x3)
	y1, y2, y3 := bytesPool.Get().(*[]byte), bytesPool.Get().(*[]byte), bytesPool.Get().(*[]byte)
	vfCheck(y1 != y2 && y1 != y3 && y2 != y3, "the byte pool handed the same slice to two users (a slice was put back twice)")
	bytesPool.Put(y1)
	bytesPool.Put(y2)
	bytesPool.Put(y3)
	vfCover("pool-probe")
}

// vfSymbolicSecond: whether the second call of VerifH_gzip_http ranges over the full menu.
func vfSymbolicSecond() bool { return vfBound(0, 1) == 1 }

// VerifH_gzip_grpc (C06, C08, C13): two consecutive unary gRPC calls on one mux with grpc-encoding
// gzip and the REAL gzip compressor (pooled reader / writer reused by the second call): request
// frames plain, gzip-compressed or compressed and truncated, receive limit 32 bytes. The handler
// sees exactly its own decompressed request, an over-limit message (after decompression) is
// refused with ResourceExhausted while one within the limit is accepted even if its compressed
// form is longer, and the reply frame - decompressed when flagged - is exactly the reply.
func VerifH_gzip_grpc() {
	in := schemaRoute()
	out := newFakeMD("vf.Resp", strField("r"))
	mux, srv, rec := vfMuxWith(vfHTTPRule("GET", "/aa/{f}"), in, out, MaxReceiveMessageSizeOption(32))
	for call := 0; call < 2; call++ {
		pi := vfChoice(3)
		reqMode := vfChoice(3) // 0 plain frame, 1 gzip frame, 2 truncated gzip frame
		if call == 1 && !vfSymbolicSecond() {
			pi = 0
		}
		payload := vfGzipPayloads[pi]
		body := payload
		flag := byte(0)
		if reqMode > 0 {
			flag = 1
			body = vfGzip(payload)
			if reqMode == 2 {
				body = body[:len(body)-1-vfChoice(2)*8]
			}
		}
		frame := append([]byte{flag, 0, 0, 0, byte(len(body))}, body...)
		h := http.Header{"Content-Type": []string{"application/grpc+fake"}, "Grpc-Encoding": []string{"gzip"}}
		calls0, um0 := srv.calls, len(rec.unmarshal)
		// known finding F-D39 (C08): the message is within the limit but its compressed frame is not
		// (gzip's overhead on a short payload): refused although the size is measured after decompression
		vfKnown("F-D39", reqMode == 1 && len(payload) <= 32 && len(body) > 32)
		r := &http.Request{Method: "POST", URL: &url.URL{Path: "/vf.S/M0"}, Header: h, Body: vfNopCloser{&vfWholeReader{data: frame}}, ContentLength: -1, ProtoMajor: 2}
		w := newFakeRW()
		mux.ServeHTTP(w, r)
		w.finish()
		gs, _ := w.trailer("Grpc-Status")
		vfCheck(len(gs) == 1, "no grpc-status")
		tooBig := len(payload) > 32
		switch {
		case reqMode == 2:
			vfCheck(gs[0] != "0", "a truncated compressed message was accepted")
			vfCheck(len(rec.unmarshal) == um0, "a truncated compressed message reached the codec")
			vfCover("truncated-request")
		case tooBig:
			vfCheck(srv.calls == calls0 && len(rec.unmarshal) == um0, "a request message above the receive limit (after decompression) reached the handler")
			vfCheck(gs[0] != "0", "over-limit message not refused")
			if reqMode == 1 {
				vfCover("over-limit-after-decompression")
			}
		default:
			if reqMode == 1 && len(body) > 32 {
				vfCover("compressed-form-above-limit")
			}
			vfCheck(gs[0] == "0" && srv.calls == calls0+1, "a request within the receive limit was not served")
			vfCheck(len(rec.unmarshal) == um0+1 && vfBytesEq(rec.unmarshal[um0], payload), "the codec did not receive exactly this request's (decompressed) message")
			ge := w.sentHeader["Grpc-Encoding"]
			vfCheck(len(ge) == 1 && ge[0] == "gzip", "response does not announce the negotiated message encoding")
			vfCheck(len(w.body) >= 5 && int(w.body[4]) == len(w.body)-5 && w.body[1] == 0 && w.body[2] == 0 && w.body[3] == 0, "reply is not exactly one frame")
			if len(w.body) >= 5 {
				got := w.body[5:]
				if w.body[0] == 1 {
					dec, err := vfGunzip(got)
					vfCheck(err == nil, "reply frame flagged compressed is not a gzip stream")
					got = dec
					vfCover("gzip-reply")
				}
				vfCheck(vfBytesEq(got, []byte("REPLY")), "reply frame does not decode to exactly the reply")
			}
			if reqMode == 1 {
				vfCover("gzip-request")
			}
		}
		if call == 1 {
			vfCover("second-call")
		}
	}
	vfGzipPoolProbe(mux)
}

type vfYieldBuffer struct{ buf bytes.Buffer }

func (b *vfYieldBuffer) Write(p []byte) (int, error) {
	vfYield() // a network write is a scheduling point
	n, err := b.buf.Write(p)
	vfYield()
	return n, err
}

// VerifH_gzip_conc (C13): two goroutines compress their own data through one CompressorGzip at the
// same time (goroutine model: scheduling points at the pool operations and at every write to the
// destination), after a warm-up use that left a writer in the pool. Each destination must hold a
// gzip stream of exactly its own data under every schedule within the context bound.
func VerifH_gzip_conc() {
	vfPreemptions(vfBound(2, 3))
	vfRaceDetect()
	defer vfSingleP()()
	c := &CompressorGzip{}
	warm := &bytes.Buffer{}
	if w, err := c.Compress(warm); err == nil {
		w.Write([]byte("warm"))
		w.Close()
	}
	data := [2][]byte{[]byte("first-request"), []byte("second")}
	var dst [2]vfYieldBuffer
	var errs [2]error
	var wg sync.WaitGroup
	for i := 0; i < 2; i++ {
		i := i
		wg.Add(1)
		go func() {
			defer wg.Done()
			if i == 1 {
				// the second request arrives a little later (natively this lets the first one get as far
				// as its Close before the second asks the pool for a writer)
				for j := 0; j < 3; j++ {
					vfYield()
				}
			}
			w, err := c.Compress(&dst[i])
			if err != nil {
				errs[i] = err
				return
			}
			if _, err := w.Write(data[i]); err != nil {
				errs[i] = err
				return
			}
			errs[i] = w.Close()
		}()
	}
	wg.Wait()
	for i := 0; i < 2; i++ {
		vfCheck(errs[i] == nil, "compression failed")
		got, err := vfGunzip(dst[i].buf.Bytes())
		vfCheck(err == nil && vfBytesEq(got, data[i]), "concurrent compressions through the pooled gzip writer do not each produce their own stream")
	}
	vfCover("two-compressions")
}
