package larking

import (
	"context"

	"google.golang.org/protobuf/reflect/protoreflect"
)

func init() {
	vfHarnesses["VerifH_pool_alias"] = VerifH_pool_alias
}

// VerifH_pool_alias (C13, sequentialised part): two requests processed back to back share larking's
// byte pool (the pool hands the second request the buffer the first one returned). What the first
// request's handler retained - the HttpBody data, the bytes decoded from a query parameter, the
// reply bytes the client received - must be unchanged after the second request has been processed
// with independent bytes.
func VerifH_pool_alias() {
	in := schemaHTTPBody()
	mk := func(body []byte) *streamHTTP {
		return &streamHTTP{
			opts: muxOptions{
				maxReceiveMessageSize: 128, // buffers are recycled only when cap < maxReceiveMessageSize
				maxSendMessageSize:    128,
				codecs:                map[string]Codec{"google.api.HttpBody": codecHTTPBody{}},
			},
			ctx:         context.Background(),
			method:      &method{desc: &fakeMethod{full: "vf.S.Up", in: in, out: in, cs: vfStreamingUpload}, name: "/vf.S/Up", hasBody: true},
			r:           &vfWholeReader{data: body},
			w:           &vfFlushSink{},
			wHeader:     map[string][]string{},
			contentType: "image/x",
			accept:      "image/x",
			hasBody:     true,
		}
	}
	// a recycled buffer smaller than the body makes the codec grow it (a different buffer than the
	// pool handed out); a fresh pool starts with capacity 64
	switch vfChoice(3) {
	case 1:
		b := make([]byte, 0, 1)
		bytesPool.Put(&b)
		vfCover("small-pooled-buffer")
	case 2:
		b := make([]byte, 0, 2)
		bytesPool.Put(&b)
	}
	n := 1 + vfLen(3)
	body1 := vfBytes(n)
	body2 := vfBytes(n)
	s1 := mk(body1)
	msg1 := newFakeMsg(in)
	vfCheck(s1.RecvMsg(msg1) == nil, "first upload refused")
	data1 := msg1.vals["data"].Bytes()
	vfCheck(vfBytesEq(data1, body1), "first request's data differs from its body")
	// reply of request 1 through the pooled encode buffer
	reply1 := newFakeMsg(in)
	reply1.vals["content_type"] = protoreflect.ValueOfString("image/x")
	// the handler keeps the data it replies with (a cached asset): it stays the handler's
	kept1 := append(make([]byte, 0, 8), body1...)
	reply1.vals["data"] = protoreflect.ValueOfBytes(kept1)
	vfCheck(s1.SendMsg(reply1) == nil, "first reply refused")
	sent1 := s1.w.(*vfFlushSink).buf

	s2 := mk(body2)
	msg2 := newFakeMsg(in)
	vfCheck(s2.RecvMsg(msg2) == nil, "second upload refused")
	reply2 := newFakeMsg(in)
	reply2.vals["content_type"] = protoreflect.ValueOfString("image/x")
	reply2.vals["data"] = protoreflect.ValueOfBytes(append([]byte{}, body2...))
	vfCheck(s2.SendMsg(reply2) == nil, "second reply refused")

	vfCheck(vfBytesEq(data1, body1), "bytes retained by the first request's handler were overwritten by the second request (pooled buffer aliased)")
	vfCheck(vfBytesEq(msg2.vals["data"].Bytes(), body2), "second request's data differs from its body")
	vfCheck(vfBytesEq(sent1, body1), "reply bytes of the first request changed after the second request")
	vfCheck(vfBytesEq(kept1, body1), "the data a handler replied with (and kept) was overwritten by a later request: the reply's own slice went into the buffer pool")
	vfCheck(vfBytesEq(s2.w.(*vfFlushSink).buf, body2), "second reply differs from its data")
	vfCover("two-requests")
}

var vfStreamingUpload = false
