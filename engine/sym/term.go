// Package sym is a bounded symbolic interpreter for go/ssa with an SMT back end.
package sym

import (
	"fmt"
	"math/bits"
	"strings"
)

// Op is a term operator.
type Op uint8

const (
	OpConst Op = iota
	OpVar
	OpNot
	OpAnd
	OpOr
	OpIte
	OpEq
	OpAdd
	OpSub
	OpMul
	OpUDiv
	OpSDiv
	OpURem
	OpSRem
	OpBAnd
	OpBOr
	OpBXor
	OpShl
	OpLShr
	OpAShr
	OpBNot
	OpNeg
	OpUlt
	OpUle
	OpSlt
	OpSle
	OpExtract
	OpConcat
	OpZext
	OpSext
)

var opNames = [...]string{
	OpConst: "const", OpVar: "var", OpNot: "not", OpAnd: "and", OpOr: "or", OpIte: "ite", OpEq: "=",
	OpAdd: "bvadd", OpSub: "bvsub", OpMul: "bvmul", OpUDiv: "bvudiv", OpSDiv: "bvsdiv", OpURem: "bvurem",
	OpSRem: "bvsrem", OpBAnd: "bvand", OpBOr: "bvor", OpBXor: "bvxor", OpShl: "bvshl", OpLShr: "bvlshr",
	OpAShr: "bvashr", OpBNot: "bvnot", OpNeg: "bvneg", OpUlt: "bvult", OpUle: "bvule", OpSlt: "bvslt",
	OpSle: "bvsle", OpExtract: "extract", OpConcat: "concat", OpZext: "zero_extend", OpSext: "sign_extend",
}

// Term is a hash-consed SMT term. W==0 means sort Bool, otherwise (_ BitVec W), W<=64.
type Term struct {
	Op   Op
	W    int
	A    [3]*Term
	N    int    // number of args
	Val  uint64 // const value; extract: hi<<8|lo
	Name string // var name
	ID   int
}

func (t *Term) IsConst() bool { return t.Op == OpConst }
func (t *Term) IsBool() bool  { return t.W == 0 }

type termKey struct {
	op         Op
	w          int
	a0, a1, a2 int
	val        uint64
	name       string
}

// Ctx owns a hash-consing table. Not safe for concurrent use: one per worker.
type Ctx struct {
	tab    map[termKey]*Term
	nextID int
	True   *Term
	False  *Term
}

func NewCtx() *Ctx {
	c := &Ctx{tab: make(map[termKey]*Term)}
	c.True = c.mk(OpConst, 0, 1, "")
	c.False = c.mk(OpConst, 0, 0, "")
	return c
}

func id(t *Term) int {
	if t == nil {
		return -1
	}
	return t.ID
}

func (c *Ctx) mk(op Op, w int, val uint64, name string, args ...*Term) *Term {
	var a [3]*Term
	copy(a[:], args)
	k := termKey{op, w, id(a[0]), id(a[1]), id(a[2]), val, name}
	if t, ok := c.tab[k]; ok {
		return t
	}
	t := &Term{Op: op, W: w, A: a, N: len(args), Val: val, Name: name, ID: c.nextID}
	c.nextID++
	c.tab[k] = t
	return t
}

func mask(w int) uint64 {
	if w >= 64 {
		return ^uint64(0)
	}
	return (uint64(1) << uint(w)) - 1
}

func sext64(v uint64, w int) int64 {
	if w >= 64 {
		return int64(v)
	}
	sh := uint(64 - w)
	return int64(v<<sh) >> sh
}

// BV makes a bit-vector constant.
func (c *Ctx) BV(w int, v uint64) *Term { return c.mk(OpConst, w, v&mask(w), "") }

// Bool makes a Boolean constant.
func (c *Ctx) Bool(b bool) *Term {
	if b {
		return c.True
	}
	return c.False
}

// Var makes a fresh-or-existing variable by name.
func (c *Ctx) Var(name string, w int) *Term { return c.mk(OpVar, w, 0, name) }

func (c *Ctx) Not(a *Term) *Term {
	if a.IsConst() {
		return c.Bool(a.Val == 0)
	}
	if a.Op == OpNot {
		return a.A[0]
	}
	return c.mk(OpNot, 0, 0, "", a)
}

func (c *Ctx) And(a, b *Term) *Term {
	if a.IsConst() {
		if a.Val == 0 {
			return c.False
		}
		return b
	}
	if b.IsConst() {
		if b.Val == 0 {
			return c.False
		}
		return a
	}
	if a == b {
		return a
	}
	if a == c.Not(b) {
		return c.False
	}
	return c.mk(OpAnd, 0, 0, "", a, b)
}

func (c *Ctx) Or(a, b *Term) *Term {
	if a.IsConst() {
		if a.Val != 0 {
			return c.True
		}
		return b
	}
	if b.IsConst() {
		if b.Val != 0 {
			return c.True
		}
		return a
	}
	if a == b {
		return a
	}
	if a == c.Not(b) {
		return c.True
	}
	return c.mk(OpOr, 0, 0, "", a, b)
}

func (c *Ctx) Ite(cond, a, b *Term) *Term {
	if cond.IsConst() {
		if cond.Val != 0 {
			return a
		}
		return b
	}
	if a == b {
		return a
	}
	if a.W == 0 {
		if a.IsConst() && b.IsConst() {
			if a.Val != 0 {
				return cond
			}
			return c.Not(cond)
		}
		if a.IsConst() {
			if a.Val != 0 {
				return c.Or(cond, b)
			}
			return c.And(c.Not(cond), b)
		}
		if b.IsConst() {
			if b.Val != 0 {
				return c.Or(c.Not(cond), a)
			}
			return c.And(cond, a)
		}
	}
	if cond.Op == OpNot {
		return c.mk(OpIte, a.W, 0, "", cond.A[0], b, a)
	}
	return c.mk(OpIte, a.W, 0, "", cond, a, b)
}

func (c *Ctx) Eq(a, b *Term) *Term {
	if a.W != b.W {
		panic(fmt.Sprintf("Eq width mismatch %d %d", a.W, b.W))
	}
	if a == b {
		return c.True
	}
	if a.IsConst() && b.IsConst() {
		return c.Bool(a.Val == b.Val)
	}
	if a.IsConst() {
		a, b = b, a
	}
	if a.W == 0 {
		if b.IsConst() {
			if b.Val != 0 {
				return a
			}
			return c.Not(a)
		}
	}
	if b.IsConst() {
		switch a.Op {
		case OpIte:
			// (ite c x y) == k with constant arms
			x, y := a.A[1], a.A[2]
			if x.IsConst() || y.IsConst() {
				return c.Ite(a.A[0], c.Eq(x, b), c.Eq(y, b))
			}
		case OpZext:
			in := a.A[0]
			if b.Val > mask(in.W) {
				return c.False
			}
			return c.Eq(in, c.BV(in.W, b.Val))
		case OpSext:
			in := a.A[0]
			// b must be representable as sign-extension of in.W bits
			sv := sext64(b.Val, a.W)
			lo := sext64(b.Val&mask(in.W), in.W)
			if sv != lo {
				return c.False
			}
			return c.Eq(in, c.BV(in.W, b.Val))
		case OpConcat:
			hi, lo := a.A[0], a.A[1]
			return c.And(c.Eq(hi, c.BV(hi.W, b.Val>>uint(lo.W))), c.Eq(lo, c.BV(lo.W, b.Val)))
		case OpAdd:
			if a.A[1].IsConst() {
				return c.Eq(a.A[0], c.BV(a.W, b.Val-a.A[1].Val))
			}
		case OpSub:
			if a.A[1].IsConst() {
				return c.Eq(a.A[0], c.BV(a.W, b.Val+a.A[1].Val))
			}
		}
	}
	if a.ID > b.ID && !b.IsConst() {
		a, b = b, a
	}
	return c.mk(OpEq, 0, 0, "", a, b)
}

func (c *Ctx) binConst(op Op, w int, x, y uint64) (uint64, bool) {
	m := mask(w)
	switch op {
	case OpAdd:
		return (x + y) & m, true
	case OpSub:
		return (x - y) & m, true
	case OpMul:
		return (x * y) & m, true
	case OpUDiv:
		if y == 0 {
			return m, true
		}
		return (x / y) & m, true
	case OpURem:
		if y == 0 {
			return x, true
		}
		return (x % y) & m, true
	case OpSDiv:
		sx, sy := sext64(x, w), sext64(y, w)
		if sy == 0 {
			if sx >= 0 {
				return m, true
			}
			return 1, true
		}
		if sy == -1 {
			return uint64(-sx) & m, true
		}
		return uint64(sx/sy) & m, true
	case OpSRem:
		sx, sy := sext64(x, w), sext64(y, w)
		if sy == 0 {
			return x, true
		}
		if sy == -1 {
			return 0, true
		}
		return uint64(sx%sy) & m, true
	case OpBAnd:
		return x & y, true
	case OpBOr:
		return x | y, true
	case OpBXor:
		return x ^ y, true
	case OpShl:
		if y >= uint64(w) {
			return 0, true
		}
		return (x << y) & m, true
	case OpLShr:
		if y >= uint64(w) {
			return 0, true
		}
		return (x >> y) & m, true
	case OpAShr:
		sx := sext64(x, w)
		if y >= uint64(w) {
			y = uint64(w - 1)
		}
		return uint64(sx>>y) & m, true
	}
	return 0, false
}

// Bin builds a binary bit-vector operation.
func (c *Ctx) Bin(op Op, a, b *Term) *Term {
	if a.W != b.W || a.W == 0 {
		panic(fmt.Sprintf("Bin %s width mismatch %d %d", opNames[op], a.W, b.W))
	}
	w := a.W
	if a.IsConst() && b.IsConst() {
		if v, ok := c.binConst(op, w, a.Val, b.Val); ok {
			return c.BV(w, v)
		}
	}
	switch op {
	case OpAdd:
		if a.IsConst() {
			a, b = b, a
		}
		if b.IsConst() {
			if b.Val == 0 {
				return a
			}
			if a.Op == OpAdd && a.A[1].IsConst() {
				return c.Bin(OpAdd, a.A[0], c.BV(w, a.A[1].Val+b.Val))
			}
			if a.Op == OpSub && a.A[1].IsConst() {
				return c.Bin(OpAdd, a.A[0], c.BV(w, b.Val-a.A[1].Val))
			}
		}
	case OpSub:
		if b.IsConst() {
			if b.Val == 0 {
				return a
			}
			return c.Bin(OpAdd, a, c.BV(w, -b.Val))
		}
		if a == b {
			return c.BV(w, 0)
		}
	case OpMul:
		if a.IsConst() {
			a, b = b, a
		}
		if b.IsConst() {
			if b.Val == 0 {
				return b
			}
			if b.Val == 1 {
				return a
			}
		}
	case OpBAnd:
		if a.IsConst() {
			a, b = b, a
		}
		if b.IsConst() {
			if b.Val == 0 {
				return b
			}
			if b.Val == mask(w) {
				return a
			}
			if a.Op == OpZext && b.Val >= mask(a.A[0].W) && b.Val&mask(a.A[0].W) == mask(a.A[0].W) {
				return a
			}
		}
		if a == b {
			return a
		}
	case OpBOr:
		if a.IsConst() {
			a, b = b, a
		}
		if b.IsConst() {
			if b.Val == 0 {
				return a
			}
			if b.Val == mask(w) {
				return b
			}
		}
		if a == b {
			return a
		}
	case OpBXor:
		if a.IsConst() {
			a, b = b, a
		}
		if b.IsConst() && b.Val == 0 {
			return a
		}
		if a == b {
			return c.BV(w, 0)
		}
	case OpShl, OpLShr, OpAShr:
		if b.IsConst() && b.Val == 0 {
			return a
		}
		if b.IsConst() && b.Val >= uint64(w) && op != OpAShr {
			return c.BV(w, 0)
		}
	case OpUDiv, OpSDiv:
		if b.IsConst() && b.Val == 1 {
			return a
		}
	}
	return c.mk(op, w, 0, "", a, b)
}

// Cmp builds a comparison (OpUlt, OpUle, OpSlt, OpSle).
func (c *Ctx) Cmp(op Op, a, b *Term) *Term {
	if a.W != b.W || a.W == 0 {
		panic(fmt.Sprintf("Cmp %s width mismatch %d %d", opNames[op], a.W, b.W))
	}
	w := a.W
	if a.IsConst() && b.IsConst() {
		switch op {
		case OpUlt:
			return c.Bool(a.Val < b.Val)
		case OpUle:
			return c.Bool(a.Val <= b.Val)
		case OpSlt:
			return c.Bool(sext64(a.Val, w) < sext64(b.Val, w))
		case OpSle:
			return c.Bool(sext64(a.Val, w) <= sext64(b.Val, w))
		}
	}
	if a == b {
		return c.Bool(op == OpUle || op == OpSle)
	}
	// comparisons through zero-extension against constants
	if a.Op == OpZext && b.IsConst() {
		in := a.A[0]
		neg := (op == OpSlt || op == OpSle) && sext64(b.Val, w) < 0
		if neg {
			return c.False // zext value is non-negative
		}
		if b.Val > mask(in.W) {
			return c.True
		}
		uop := op
		if op == OpSlt {
			uop = OpUlt
		} else if op == OpSle {
			uop = OpUle
		}
		return c.Cmp(uop, in, c.BV(in.W, b.Val))
	}
	if b.Op == OpZext && a.IsConst() {
		in := b.A[0]
		neg := (op == OpSlt || op == OpSle) && sext64(a.Val, w) < 0
		if neg {
			return c.True
		}
		if a.Val > mask(in.W) {
			return c.False
		}
		uop := op
		if op == OpSlt {
			uop = OpUlt
		} else if op == OpSle {
			uop = OpUle
		}
		return c.Cmp(uop, c.BV(in.W, a.Val), in)
	}
	if a.Op == OpZext && b.Op == OpZext && a.A[0].W == b.A[0].W {
		uop := op
		if op == OpSlt {
			uop = OpUlt
		} else if op == OpSle {
			uop = OpUle
		}
		return c.Cmp(uop, a.A[0], b.A[0])
	}
	switch op {
	case OpUlt:
		if b.IsConst() && b.Val == 0 {
			return c.False
		}
		if a.IsConst() && a.Val == mask(w) {
			return c.False
		}
	case OpUle:
		if a.IsConst() && a.Val == 0 {
			return c.True
		}
		if b.IsConst() && b.Val == mask(w) {
			return c.True
		}
	}
	return c.mk(op, 0, 0, "", a, b)
}

func (c *Ctx) BNot(a *Term) *Term {
	if a.IsConst() {
		return c.BV(a.W, ^a.Val)
	}
	if a.Op == OpBNot {
		return a.A[0]
	}
	return c.mk(OpBNot, a.W, 0, "", a)
}

func (c *Ctx) Neg(a *Term) *Term {
	if a.IsConst() {
		return c.BV(a.W, -a.Val)
	}
	return c.mk(OpNeg, a.W, 0, "", a)
}

// Extract bits hi..lo inclusive.
func (c *Ctx) Extract(a *Term, hi, lo int) *Term {
	if lo == 0 && hi == a.W-1 {
		return a
	}
	w := hi - lo + 1
	if a.IsConst() {
		return c.BV(w, a.Val>>uint(lo))
	}
	switch a.Op {
	case OpZext, OpSext:
		in := a.A[0]
		if hi < in.W {
			return c.Extract(in, hi, lo)
		}
		if a.Op == OpZext && lo >= in.W {
			return c.BV(w, 0)
		}
		if lo == 0 {
			// widening less
			if a.Op == OpZext {
				return c.Zext(in, w)
			}
			return c.Sext(in, w)
		}
	case OpConcat:
		h, l := a.A[0], a.A[1]
		if hi < l.W {
			return c.Extract(l, hi, lo)
		}
		if lo >= l.W {
			return c.Extract(h, hi-l.W, lo-l.W)
		}
	case OpExtract:
		ilo := int(a.Val & 0xff)
		return c.Extract(a.A[0], hi+ilo, lo+ilo)
	case OpBAnd, OpBOr, OpBXor:
		if lo == 0 {
			return c.Bin(a.Op, c.Extract(a.A[0], hi, lo), c.Extract(a.A[1], hi, lo))
		}
	case OpAdd, OpSub, OpMul:
		if lo == 0 {
			return c.Bin(a.Op, c.Extract(a.A[0], hi, 0), c.Extract(a.A[1], hi, 0))
		}
	case OpIte:
		if a.A[1].IsConst() || a.A[2].IsConst() {
			return c.Ite(a.A[0], c.Extract(a.A[1], hi, lo), c.Extract(a.A[2], hi, lo))
		}
	}
	return c.mk(OpExtract, w, uint64(hi)<<8|uint64(lo), "", a)
}

func (c *Ctx) Concat(hi, lo *Term) *Term {
	w := hi.W + lo.W
	if w > 64 {
		panic("Concat wider than 64")
	}
	if hi.IsConst() && lo.IsConst() {
		return c.BV(w, hi.Val<<uint(lo.W)|lo.Val)
	}
	if hi.IsConst() && hi.Val == 0 {
		return c.Zext(lo, w)
	}
	return c.mk(OpConcat, w, 0, "", hi, lo)
}

func (c *Ctx) Zext(a *Term, w int) *Term {
	if w == a.W {
		return a
	}
	if w < a.W {
		return c.Extract(a, w-1, 0)
	}
	if a.IsConst() {
		return c.BV(w, a.Val)
	}
	if a.Op == OpZext {
		return c.Zext(a.A[0], w)
	}
	if a.Op == OpIte && (a.A[1].IsConst() || a.A[2].IsConst()) {
		return c.Ite(a.A[0], c.Zext(a.A[1], w), c.Zext(a.A[2], w))
	}
	return c.mk(OpZext, w, 0, "", a)
}

func (c *Ctx) Sext(a *Term, w int) *Term {
	if w == a.W {
		return a
	}
	if w < a.W {
		return c.Extract(a, w-1, 0)
	}
	if a.IsConst() {
		return c.BV(w, uint64(sext64(a.Val, a.W)))
	}
	if a.Op == OpZext {
		return c.Zext(a.A[0], w)
	}
	if a.Op == OpSext {
		return c.Sext(a.A[0], w)
	}
	if a.Op == OpIte && (a.A[1].IsConst() || a.A[2].IsConst()) {
		return c.Ite(a.A[0], c.Sext(a.A[1], w), c.Sext(a.A[2], w))
	}
	return c.mk(OpSext, w, 0, "", a)
}

// ---------------------------------------------------------------------------------------
// Evaluation under a model.

// Model maps variable names to values. Missing variables evaluate to 0.
type Model map[string]uint64

// Eval evaluates t under m.
func Eval(t *Term, m Model) uint64 {
	memo := make(map[*Term]uint64)
	return eval(t, m, memo)
}

func eval(t *Term, m Model, memo map[*Term]uint64) uint64 {
	switch t.Op {
	case OpConst:
		return t.Val
	case OpVar:
		return m[t.Name] & maskB(t.W)
	}
	if v, ok := memo[t]; ok {
		return v
	}
	var r uint64
	a := func(i int) uint64 { return eval(t.A[i], m, memo) }
	b2u := func(b bool) uint64 {
		if b {
			return 1
		}
		return 0
	}
	switch t.Op {
	case OpNot:
		r = 1 - a(0)
	case OpAnd:
		if a(0) != 0 {
			r = a(1)
		}
	case OpOr:
		if a(0) != 0 {
			r = 1
		} else {
			r = a(1)
		}
	case OpIte:
		if a(0) != 0 {
			r = a(1)
		} else {
			r = a(2)
		}
	case OpEq:
		r = b2u(a(0) == a(1))
	case OpUlt:
		r = b2u(a(0) < a(1))
	case OpUle:
		r = b2u(a(0) <= a(1))
	case OpSlt:
		w := t.A[0].W
		r = b2u(sext64(a(0), w) < sext64(a(1), w))
	case OpSle:
		w := t.A[0].W
		r = b2u(sext64(a(0), w) <= sext64(a(1), w))
	case OpBNot:
		r = ^a(0) & mask(t.W)
	case OpNeg:
		r = -a(0) & mask(t.W)
	case OpExtract:
		lo := uint(t.Val & 0xff)
		r = (a(0) >> lo) & mask(t.W)
	case OpConcat:
		r = a(0)<<uint(t.A[1].W) | a(1)
	case OpZext:
		r = a(0)
	case OpSext:
		r = uint64(sext64(a(0), t.A[0].W)) & mask(t.W)
	default:
		var c Ctx
		v, ok := c.binConst(t.Op, t.W, a(0), a(1))
		if !ok {
			panic("eval: unknown op " + opNames[t.Op])
		}
		r = v
	}
	memo[t] = r
	return r
}

func maskB(w int) uint64 {
	if w == 0 {
		return 1
	}
	return mask(w)
}

// ---------------------------------------------------------------------------------------
// Printing.

func sortString(w int) string {
	if w == 0 {
		return "Bool"
	}
	return fmt.Sprintf("(_ BitVec %d)", w)
}

func constString(t *Term) string {
	if t.W == 0 {
		if t.Val != 0 {
			return "true"
		}
		return "false"
	}
	if t.W%4 == 0 {
		return fmt.Sprintf("#x%0*x", t.W/4, t.Val)
	}
	return fmt.Sprintf("#b%0*b", t.W, t.Val)
}

// String renders the term as an SMT-LIB tree (for debugging / evidence; may be large).
func (t *Term) String() string {
	var sb strings.Builder
	t.write(&sb, 0)
	return sb.String()
}

func (t *Term) write(sb *strings.Builder, depth int) {
	if depth > 40 {
		sb.WriteString("...")
		return
	}
	switch t.Op {
	case OpConst:
		sb.WriteString(constString(t))
	case OpVar:
		sb.WriteString(t.Name)
	case OpExtract:
		fmt.Fprintf(sb, "((_ extract %d %d) ", t.Val>>8, t.Val&0xff)
		t.A[0].write(sb, depth+1)
		sb.WriteString(")")
	case OpZext, OpSext:
		fmt.Fprintf(sb, "((_ %s %d) ", opNames[t.Op], t.W-t.A[0].W)
		t.A[0].write(sb, depth+1)
		sb.WriteString(")")
	default:
		sb.WriteString("(")
		sb.WriteString(opNames[t.Op])
		for i := 0; i < t.N; i++ {
			sb.WriteString(" ")
			t.A[i].write(sb, depth+1)
		}
		sb.WriteString(")")
	}
}

// head renders the term with children referenced by their defined names.
func (t *Term) head(ref func(*Term) string) string {
	switch t.Op {
	case OpConst:
		return constString(t)
	case OpVar:
		return t.Name
	case OpExtract:
		return fmt.Sprintf("((_ extract %d %d) %s)", t.Val>>8, t.Val&0xff, ref(t.A[0]))
	case OpZext, OpSext:
		return fmt.Sprintf("((_ %s %d) %s)", opNames[t.Op], t.W-t.A[0].W, ref(t.A[0]))
	}
	var sb strings.Builder
	sb.WriteString("(")
	sb.WriteString(opNames[t.Op])
	for i := 0; i < t.N; i++ {
		sb.WriteString(" ")
		sb.WriteString(ref(t.A[i]))
	}
	sb.WriteString(")")
	return sb.String()
}

var _ = bits.Len
