#!/bin/bash
# Runs every stored seeded change against /repo's current HEAD through the quick check of the
# property it breaks and writes seeded/RESULTS.md. /repo is restored after each seed.
cd /verif || exit 2
out=seeded/RESULTS.md
echo "# Seeded changes vs. the registered quick checks (repo $(git -C /repo log --format=%h -1), verif $(git log --format=%h -1))" > $out
echo >> $out
echo "| seed | property | result | first violation reported |" >> $out
echo "|---|---|---|---|" >> $out
for d in seeded/*/; do
  id=$(basename $d)
  [ -f $d/patch.diff ] || continue
  prop=$(python3 -c "import json;d=json.load(open('$d/meta.json'));print(d.get('check_property') or d['breaks_property'])")
  if ! git -C /repo diff --quiet; then echo "repo dirty"; exit 2; fi
  if ! git -C /repo apply $PWD/$d/patch.diff 2>/dev/null; then
    if ! git -C /repo apply -3 $PWD/$d/patch.diff 2>/dev/null; then
      echo "| $id | $prop | patch does not apply to this HEAD | |" >> $out; git -C /repo checkout -- . ; git -C /repo reset -q; continue
    fi
    git -C /repo reset -q
  fi
  # run the harness that is recorded as catching the seed (plus the selftest); fall back to the whole
  # property check when that is not a single harness of this property (FULL=1 forces the whole check)
  only=$(python3 -c "
import json,re
d=json.load(open('$d/meta.json')); h=(d.get('detected_by') or '').strip()
print(h if re.fullmatch(r'VerifH_[A-Za-z0-9_]+',h) else '')")
  if [ -n "$only" ] && [ -z "$FULL" ]; then
    res=$(timeout 1800 ./bin/symgo check -prop $prop -tier quick -only $only 2>&1)
    if ! echo "$res" | grep -q "^$only:"; then res=$(timeout 1800 ./bin/symgo check -prop $prop -tier quick 2>&1); fi
  else
    res=$(timeout 1800 ./bin/symgo check -prop $prop -tier quick 2>&1)
  fi
  code=$(echo "$res" | grep -o "exit=[0-9]" | tail -1)
  viol=$(echo "$res" | grep -m1 "harness=" | sed 's/^ *//' | cut -c1-160 | tr '|' '/')
  git -C /repo checkout -- .
  case "$code" in
    exit=1) r="caught";;
    exit=0) r="MISSED"; python3 -c "import json,sys;sys.exit(0 if json.load(open('$d/meta.json')).get('expected_missed') else 1)" && r="missed (expected: outside the technique's reach, see meta.json)";;
    *) r="inconclusive ($code)";;
  esac
  echo "| $id | $prop | $r | $viol |" >> $out
  echo "$id $prop $r"
done
git -C /repo status --short | head -3
