package larking

import (
	"net/http"
	"net/url"
)

func init() {
	vfHarnesses["VerifH_serveHTTP_sendlimit"] = VerifH_serveHTTP_sendlimit
}

// VerifH_serveHTTP_sendlimit (C04, C08, C05): unary transcoded replies of limit-1, limit and limit+1
// bytes through ServeHTTP with MaxSendMessageSizeOption: a reply within the limit arrives as a 200
// with exactly its bytes; a reply over the limit is not delivered.
func VerifH_serveHTTP_sendlimit() {
	in := schemaRoute()
	out := newFakeMD("vf.Resp", strField("r"))
	const limit = 5
	mux, srv, _ := vfMuxWith(vfHTTPRule("GET", "/aa/{f}"), in, out, MaxSendMessageSizeOption(limit))
	n := limit - 1 + vfChoice(3)
	payload := vfBytes(n)
	srv.reply.payload = payload
	r := &http.Request{Method: "GET", URL: &url.URL{Path: "/aa/zz"}, Header: http.Header{"Accept": []string{"application/x"}}, Body: vfNopCloser{&vfWholeReader{}}, ProtoMajor: 1, ProtoMinor: 1}
	w := newFakeRW()
	mux.ServeHTTP(w, r)
	vfCheck(w.committed, "no response was produced")
	if n <= limit {
		vfCheck(w.status == 200 && vfBytesEq(w.body, payload), "a reply within the send limit did not arrive as a 200 with exactly its bytes")
		vfCover("within")
		return
	}
	vfAssume(!vfBytesEq(payload, []byte("STATUS"))) // what the recording codec writes for a google.rpc.Status
	vfCheck(!vfBytesEq(w.body, payload), "a reply over the send limit was delivered")
	// Observation, not asserted (no listed property fixes the status of a reply refused for its size):
	// on this tree the refusal is answered with HTTP 200 and a google.rpc.Status body, because
	// SendMsg's deferred Flush commits the response before the error is rendered (DESIGN 10.18).
	if w.status == 200 {
		vfCover("refused-with-200")
	}
	vfCover("refused")
}
