package larking

import (
	"context"
	"net/http"
	"strconv"
	"time"

	"google.golang.org/grpc"
	"google.golang.org/grpc/codes"
	"google.golang.org/grpc/metadata"
	"google.golang.org/grpc/status"
)

func init() {
	vfHarnesses["VerifH_serveGRPC"] = VerifH_serveGRPC
	vfHarnesses["VerifH_serveGRPC_timeout"] = VerifH_serveGRPC_timeout
}

func refPercentDecode(s string) ([]byte, bool) {
	var out []byte
	for i := 0; i < len(s); {
		if s[i] == '%' {
			if i+2 >= len(s)+0 && i+2 > len(s)-1 {
				return nil, false
			}
			hi, lo := refUnhex(s[i+1]), refUnhex(s[i+2])
			if hi < 0 || lo < 0 {
				return nil, false
			}
			out = append(out, byte(hi<<4|lo))
			i += 3
		} else {
			out = append(out, s[i])
			i++
		}
	}
	return out, true
}

// VerifH_serveGRPC (C05, C14, C18): one unary call through the real serveGRPC with the
// ResponseWriter model: status code / message / headers / trailers as the client sees them, the
// interceptor and the stats event sequence, and the same client-visible result with options on
// and off.
func VerifH_serveGRPC() {
	in := schemaRoute()
	out := newFakeMD("vf.Resp", strField("r"))
	withStats := vfBool()
	withInterceptor := vfBool()
	var st *fakeStats
	ilog := &vfInterceptorLog{}
	var opts []MuxOption
	if withStats {
		st = &fakeStats{}
		opts = append(opts, StatsOption(st))
	}
	if withInterceptor {
		opts = append(opts, UnaryServerInterceptorOption(func(ctx context.Context, req interface{}, info *grpc.UnaryServerInfo, handler grpc.UnaryHandler) (interface{}, error) {
			ilog.calls++
			ilog.method = info.FullMethod
			return handler(ctx, req)
		}))
	}
	mux, srv, rec := vfMuxWith(vfHTTPRule("GET", "/aa/{f}"), in, out, opts...)
	fail := vfBool()
	var code codes.Code
	var msg string
	if fail {
		code = codes.Code(vfInt(1, 17))
		msg = vfString(vfLen(vfBound(2, 4)))
		srv.err = status.Error(code, msg)
	}
	hv := vfPlainString(2)
	tv := vfPlainString(2)
	srv.setHdr = metadata.MD{"x-h": []string{hv}}
	rawBin := []byte{0xfb, 0xef, 0xbe} // base64 "++++": distinguishes the standard from the URL alphabet; symbolic bytes are covered by VerifH_binhdr
	srv.setTrail = metadata.MD{"x-t": []string{tv}, "x-b-bin": []string{string(rawBin)}, "grpc-status": []string{"0"}, "grpc-message": []string{"forged"}}
	// metadata set in several calls accumulates: a second SetHeader / SetTrailer with the SAME keys
	twice := vfBool()
	if twice {
		srv.setHdr2 = metadata.MD{"x-h": []string{"h2"}}
		srv.setTrail2 = metadata.MD{"x-t": []string{"t2"}, "x-b-bin": []string{"\x00\x01"}}
		// ... and SendHeader called with the same key again: values keep the order of the calls
		srv.sendHdrFirst = true
		srv.sendHdrWith = metadata.MD{"x-h": []string{"sent"}}
		vfCover("metadata-set-twice")
	}
	payload := vfBytes(vfLen(2))
	r := vfGRPCRequest("application/grpc+fake", payload, nil)
	w := newFakeRW()
	mux.ServeHTTP(w, r)

	vfCheck(w.committed && w.status == 200 && w.superfluous == 0, "gRPC response must be committed once with HTTP 200")
	ct := w.sentHeader["Content-Type"]
	vfCheck(len(ct) == 1 && ct[0] == "application/grpc+fake", "gRPC response content-type missing or wrong")
	vfCheck(srv.calls == 1, "handler not invoked exactly once")
	vfCheck(len(rec.unmarshal) == 1 && vfBytesEq(rec.unmarshal[0], payload), "request message did not reach the codec intact")
	// status
	gs, ok := w.trailer("Grpc-Status")
	vfCheck(ok && len(gs) == 1 && gs[0] == strconv.Itoa(int(code)), "grpc-status trailer is not the handler's code")
	gm, ok := w.trailer("Grpc-Message")
	if msg == "" {
		vfCheck(!ok || (len(gm) == 1 && gm[0] == ""), "grpc-message present although the status has no message")
	} else {
		vfCheck(ok && len(gm) == 1, "grpc-message trailer missing")
		dec, dok := refPercentDecode(gm[0])
		vfCheck(dok && string(dec) == msg, "grpc-message does not decode to the handler's message")
	}
	// metadata
	xh := w.sentHeader["X-H"]
	xt, ok := w.trailer("X-T")
	xb, okb := w.trailer("X-B-Bin")
	if twice {
		vfCheck(len(xh) == 3 && xh[0] == hv && xh[1] == "h2" && xh[2] == "sent", "header metadata set in several calls (SetHeader, SetHeader, SendHeader) did not reach the client completely and in the order of the calls")
		vfCheck(ok && len(xt) == 2 && xt[0] == tv && xt[1] == "t2", "trailer metadata set in two calls did not reach the client completely and in order")
		vfCheck(okb && len(xb) == 2 && (xb[1] == refBase64Encode([]byte{0, 1}, false) || xb[1] == refBase64Encode([]byte{0, 1}, true)), "binary trailer metadata set in two calls did not reach the client completely")
	} else {
		vfCheck(len(xh) == 1 && xh[0] == hv, "header metadata set by the handler did not reach the client")
		vfCheck(ok && len(xt) == 1 && xt[0] == tv, "trailer metadata set by the handler did not reach the client")
	}
	vfCheck(okb && len(xb) >= 1 && (xb[0] == refBase64Encode(rawBin, false) || xb[0] == refBase64Encode(rawBin, true)), "binary trailer metadata is not the base64 of the handler's bytes")
	// reply
	if !fail {
		want := append([]byte{0, 0, 0, 0, 5}, []byte("REPLY")...)
		vfCheck(vfBytesEq(w.body, want), "reply frame is not flag + big-endian length + marshalled reply")
		vfCover("ok")
	} else {
		vfCheck(len(w.body) == 0, "a failed unary call wrote message bytes")
		vfCover("failed")
		if code > 16 {
			vfCover("out-of-range-code")
		}
	}
	if withInterceptor {
		vfCheck(ilog.calls == 1 && ilog.method == "/vf.S/M0", "unary interceptor not invoked exactly once with the full method name")
		vfCover("interceptor")
	}
	if withStats {
		want := []string{"tag", "inheader", "begin", "inpayload", "outheader"}
		if !fail {
			want = append(want, "outpayload")
		}
		want = append(want, "outtrailer", "end")
		vfCheck(len(st.events) == len(want), "stats event sequence has a wrong length")
		for i := range want {
			vfCheck(i < len(st.events) && st.events[i] == want[i], "stats event sequence is not tag, in-header, begin, payloads, out-trailer, end")
		}
		vfCheck(st.ends == 1, "End stats event not delivered exactly once")
		if fail {
			vfCheck(st.endErr != nil && status.Code(st.endErr) == code, "End stats event does not carry the handler's error")
		} else {
			vfCheck(st.endErr == nil, "End stats event carries an error for a successful call")
		}
		vfCover("stats")
	}
}

// VerifH_serveGRPC_timeout (C15): the grpc-timeout header: a malformed value is refused with 400
// and the handler never runs; a well-formed one becomes the handler context's deadline.
func VerifH_serveGRPC_timeout() {
	in := schemaRoute()
	out := newFakeMD("vf.Resp", strField("r"))
	var topts []MuxOption
	if vfBool() {
		topts = append(topts, StatsOption(&fakeStats{})) // a stats handler must not change the deadline
		vfCover("with-stats")
	}
	mux, srv, _ := vfMuxWith(vfHTTPRule("GET", "/aa/{f}"), in, out, topts...)
	var tv string
	var want time.Duration
	wellFormed := vfBool()
	if wellFormed {
		d := vfByte()
		vfAssume(d >= '0' && d <= '9')
		unit := []byte("HMSmun")[vfChoice(6)]
		tv = string([]byte{d, unit})
		units := map[byte]time.Duration{'H': time.Hour, 'M': time.Minute, 'S': time.Second, 'm': time.Millisecond, 'u': time.Microsecond, 'n': time.Nanosecond}
		want = time.Duration(vfConc(int(d-'0'))) * units[unit]
	} else {
		tv = vfAsciiString(1 + vfLen(2))
		// not digits+unit
		_, err := decodeTimeout(tv)
		vfAssume(err != nil)
	}
	r := vfGRPCRequest("application/grpc+fake", nil, http.Header{"Grpc-Timeout": []string{tv}})
	w := newFakeRW()
	mux.ServeHTTP(w, r)
	if !wellFormed {
		vfCheck(w.committed && w.status == 400, "malformed grpc-timeout not refused with 400")
		vfCheck(srv.calls == 0, "handler invoked although grpc-timeout is malformed")
		vfCover("malformed")
		return
	}
	if want == 0 {
		// a zero timeout has expired on receipt: whether the handler still starts is unspecified
		vfCover("zero-timeout")
		return
	}
	if want < time.Second {
		// a sub-second timeout may expire before the handler starts; when it does start the deadline
		// must still not be later than the timeout
		if srv.calls == 1 {
			if dl, ok := srv.ctxSeen.Deadline(); ok {
				vfCheck(time.Until(dl) <= want, "handler deadline is later than grpc-timeout after receipt")
			}
		}
		vfCover("sub-second")
		return
	}
	vfCheck(srv.calls == 1, "handler not invoked for a well-formed grpc-timeout")
	dl, ok := srv.ctxSeen.Deadline()
	vfCheck(ok, "handler context has no deadline although grpc-timeout was sent")
	left := time.Until(dl)
	vfCheck(left <= want, "handler deadline is later than grpc-timeout after receipt")
	if want > time.Minute {
		vfCheck(left > want-time.Minute, "handler deadline is much earlier than grpc-timeout after receipt")
	}
	vfCover("deadline")
}
