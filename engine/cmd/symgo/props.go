package main

// HarnessSpec says how one harness is run for a property.
type HarnessSpec struct {
	Name       string
	Covers     []string // labels that must be reached (vacuity guard)
	Terminates bool     // a path that exhausts the step budget is a violation (termination obligation)
	MaxPathsQ  int      // path budgets (0 = default)
	MaxPathsT  int
	StepsQ     int
	StepsT     int
}

// PropSpec describes the check of one property.
type PropSpec struct {
	ID        string
	Harnesses []HarnessSpec
	Bounds    map[string]string // human-readable bounds per tier
	Assume    []string
	Outside   []string
}

var props = map[string]*PropSpec{}

func addProp(p *PropSpec) { props[p.ID] = p }

func init() {
	addProp(&PropSpec{
		ID: "C15",
		Harnesses: []HarnessSpec{
			{Name: "VerifH_timeout", Covers: []string{"accepted", "clamped", "rejected-shape", "rejected-nondigit", "signed-unspecified"}},
		},
		Bounds: map[string]string{
			"quick":    "every grpc-timeout string of length 0..10 (all bytes symbolic)",
			"thorough": "every grpc-timeout string of length 0..10 (all bytes symbolic)",
		},
		Assume:  []string{"strconv.ParseInt interpreted from source (go1.23.5)", "fmt.Errorf texts are placeholders"},
		Outside: []string{"client cancellation / disconnect releasing a blocked handler (needs goroutines and the HTTP/2 server)", "sign-prefixed values (+1S, -1S) are declared unspecified"},
	})
}
