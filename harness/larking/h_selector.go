package larking

import "google.golang.org/genproto/googleapis/api/annotations"

func init() {
	vfHarnesses["VerifH_selector"] = VerifH_selector
}

// refSelectorWF: non-empty dot-separated components; '*' only as the whole last component.
func refSelectorWF(s string) bool {
	if len(s) == 0 {
		return false
	}
	compStart := 0
	for i := 0; i <= len(s); i++ {
		if i == len(s) || s[i] == '.' {
			if i == compStart {
				return false
			}
			compStart = i + 1
			continue
		}
		if s[i] == '*' {
			// must be the whole last component
			if i != compStart || i != len(s)-1 {
				return false
			}
		}
	}
	return true
}

// refNameWF: a method full name: >= 2 non-empty components, no '*'.
func refNameWF(s string) bool {
	dots := 0
	compStart := 0
	for i := 0; i <= len(s); i++ {
		if i == len(s) || s[i] == '.' {
			if i == compStart {
				return false
			}
			compStart = i + 1
			if i < len(s) {
				dots++
			}
			continue
		}
		if s[i] == '*' {
			return false
		}
	}
	return dots >= 1
}

// refSelector: 1 = selects, 0 = does not, -1 = unspecified (wildcard with zero further components).
func refSelector(sel, name string) int {
	if sel == name || sel == "*" {
		return 1
	}
	n := len(sel)
	if n >= 2 && sel[n-2:] == ".*" {
		p := sel[:n-2]
		if name == p {
			return -1
		}
		if len(name) > len(p)+1 && name[:len(p)+1] == sel[:n-1] {
			return 1
		}
	}
	return 0
}

func vfHasRule(rules []*annotations.HttpRule, r *annotations.HttpRule) bool {
	for _, x := range rules {
		if x == r {
			return true
		}
	}
	return false
}

// VerifH_selector (C19): a service-config rule is returned for a method name iff its selector is
// that name or a trailing-wildcard pattern covering it.
func VerifH_selector() {
	selA := vfAsciiString(1 + vfLen(vfBound(5, 6)))
	vfAssume(refSelectorWF(selA))
	var selB string
	switch vfChoice(3) {
	case 0:
		selB = "aa.*"
	case 1:
		selB = "aa.bb"
	default:
		selB = "*"
	}
	name := vfAsciiString(3 + vfLen(vfBound(4, 6)))
	vfAssume(refNameWF(name))
	a := &annotations.HttpRule{Selector: selA}
	b := &annotations.HttpRule{Selector: selB}
	var rs ruleSelector
	if vfBool() {
		rs.setRules([]*annotations.HttpRule{a, b})
	} else {
		rs.setRules([]*annotations.HttpRule{b, a})
	}
	got := rs.getRules(name)
	wa, wb := refSelector(selA, name), refSelector(selB, name)
	if wa >= 0 {
		vfCheck(vfHasRule(got, a) == (wa == 1), "service-config rule bound to a method its selector does not select (or not bound to one it selects)")
	}
	if wb >= 0 {
		vfCheck(vfHasRule(got, b) == (wb == 1), "service-config rule bound to a method its selector does not select (or not bound to one it selects)")
	}
	vfCheck(len(got) <= 2, "a rule was returned twice")
	if wa == 1 {
		vfCover("selected")
		if selA[len(selA)-1] == '*' {
			vfCover("selected-by-wildcard")
		} else {
			vfCover("selected-exact")
		}
	} else if wa == 0 {
		vfCover("not-selected")
	}
}
