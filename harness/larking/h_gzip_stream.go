package larking

import (
	"bytes"
	"io"
	"net/http"
	"net/url"

	"google.golang.org/grpc"
)

func init() {
	vfHarnesses["VerifH_gzip_stream"] = VerifH_gzip_stream
}

// VerifH_gzip_stream (C13, C06, C03): a client-streaming upload over plain HTTP whose body is gzip
// content-encoded (REAL gzip, pooled reader), with known and unknown body length; the handler gets
// exactly the messages. Afterwards two decompressions are in flight at the same time - what two
// concurrent compressed requests do: each must read its own stream (a pooled gzip reader that went
// back to the pool twice is handed to both).
func VerifH_gzip_stream() {
	in := schemaRoute()
	out := newFakeMD("vf.Resp", strField("r"))
	rule := vfHTTPRule("POST", "/up/{f}")
	rule.Body = "*"
	md := &fakeMethod{full: "vf.S.Up", in: in, out: out, cs: true, opts: &fakeOpts{rule: rule}}
	svc := &fakeSvc{full: "vf.S", methods: &fakeMethodList{list: []*fakeMethod{md}}}
	rec := &fakeCodec{name: "fake"}
	mux, err := NewMux(FilesOption(vfRegistry(svc)), CodecOption("application/x", fakeStreamCodec{rec, CodecProto{}}))
	if err != nil {
		vfFail("NewMux failed")
	}
	srv := &vfStreamSrv{in: in}
	rp := newFakeMsg(out)
	rp.payload = []byte("REPLY")
	srv.replies = []*fakeMsg{rp}
	sd := &grpc.ServiceDesc{ServiceName: "vf.S", Streams: []grpc.StreamDesc{{StreamName: "Up", Handler: vfStreamHandler, ClientStreams: true}}}
	if err := mux.registerService(sd, srv); err != nil {
		vfFail("registerService failed: " + err.Error())
	}
	k := 1 + vfLen(1)
	msgs := [][]byte{[]byte("first"), []byte("second!")}[:k]
	sink := &vfSink{}
	for _, m := range msgs {
		CodecProto{}.WriteNext(sink, m)
	}
	body := vfGzip(sink.buf)
	r := &http.Request{Method: "POST", URL: &url.URL{Path: "/up/zz"},
		Header: http.Header{"Content-Type": []string{"application/x"}, "Accept": []string{"application/x"}, "Content-Encoding": []string{"gzip"}},
		Body:   vfNopCloser{&vfWholeReader{data: body}}, ContentLength: int64(len(body)), ProtoMajor: 1, ProtoMinor: 1}
	if vfBool() {
		r.ContentLength = -1
		r.ProtoMajor, r.ProtoMinor = 2, 0
		vfCover("unknown-length")
	}
	w := newFakeRW()
	mux.ServeHTTP(w, r)
	vfCheck(w.committed && w.status == 200, "a gzip-encoded client-streaming upload was not answered 200")
	vfCheck(len(srv.got) == k, "the handler did not receive exactly the client's messages from a gzip-encoded upload")
	for i := 0; i < k && i < len(srv.got); i++ {
		vfCheck(vfBytesEq(srv.got[i], msgs[i]), "a message of a gzip-encoded upload reached the handler altered")
	}
	vfCover("gzip-upload")
	// two decompressions in flight
	cz := mux.opts.compressors["gzip"]
	if cz == nil {
		vfFail("no gzip compressor registered")
	}
	g1, g2 := vfGzip([]byte("stream-one")), vfGzip([]byte("stream-two!"))
	z1, e1 := cz.Decompress(bytes.NewReader(g1))
	z2, e2 := cz.Decompress(bytes.NewReader(g2))
	if e1 != nil || e2 != nil {
		vfFail("Decompress failed")
	}
	o1, r1 := io.ReadAll(z1)
	o2, r2 := io.ReadAll(z2)
	vfCheck(r1 == nil && r2 == nil && string(o1) == "stream-one" && string(o2) == "stream-two!", "two decompressions in flight at once do not each read their own stream (a pooled gzip reader is shared: it went back to the pool twice)")
	vfCover("two-decompressions")
}
