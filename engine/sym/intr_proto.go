package sym

import (
	"go/types"
	"strings"

	"golang.org/x/tools/go/ssa"
)

// protoreflect.Value is a union built with unsafe. Only its unsafe leaf helpers are modelled; the
// public methods (Interface, String, Bytes, Message, ... with their type-mismatch panics) are
// interpreted from protobuf-go's source.
//
//	struct value { DoNotCompare; typ unsafe.Pointer; ptr unsafe.Pointer; num uint64 }
const protoreflectPkg = "google.golang.org/protobuf/reflect/protoreflect"

func (m *Machine) typeToken(t types.Type) *Value {
	if t == nil {
		return nil
	}
	key := "typeToken:" + t.String()
	if p, ok := m.Prog.tokens.Load(key); ok {
		return p.(*Value)
	}
	p := new(Value)
	*p = Str{S: key}
	act, _ := m.Prog.tokens.LoadOrStore(key, p)
	return act.(*Value)
}

// protoTypeGlobal reads protoreflect's own type sentinel (stringType, bytesType, ...).
func (m *Machine) protoTypeGlobal(name string) *Value {
	g, _ := m.Prog.Package(protoreflectPkg).Members[name].(*ssa.Global)
	if g == nil {
		m.unsupported("protoreflect." + name + " not found")
	}
	p, _ := m.load(m.global(g)).(*Value)
	return p
}

func init() {
	// larking.getExtensionHTTP(desc.Options()): answered from the harness's fakeOpts (stub contract:
	// proto.GetExtension(E_Http) returns the rule the fake descriptor carries).
	reg("larking.io/larking.getExtensionHTTP", func(m *Machine, fn *ssa.Function, args []Value) Value {
		i, _ := args[0].(Iface)
		res := fn.Signature.Results().At(0).Type()
		if i.T == nil {
			return m.zero(res)
		}
		if p, ok := i.V.(*Value); ok && p != nil {
			if st, ok := (*p).(Struct); ok && len(st) == 1 {
				return st[0]
			}
		}
		m.unsupported("getExtensionHTTP on " + i.T.String())
		return nil
	})
	// proto.Marshal is modelled for google.rpc.Status only (the grpc-status-details-bin trailer): the
	// harness's vfMarshalRPCStatus writes the wire form; natively the real proto.Marshal runs.
	reg("google.golang.org/protobuf/proto.Marshal", func(m *Machine, fn *ssa.Function, args []Value) Value {
		i, _ := args[0].(Iface)
		if i.T == nil || i.T.String() != "*google.golang.org/genproto/googleapis/rpc/status.Status" {
			m.unsupported("proto.Marshal of " + m.show(i))
		}
		f := m.Prog.Func("vfMarshalRPCStatus")
		if f == nil {
			m.unsupported("vfMarshalRPCStatus not defined by the harness")
		}
		return m.callFn(f, []Value{i}, nil)
	})
	// proto.Clone: field-wise copy of the pointed-to struct (used for google.rpc.Status).
	reg("google.golang.org/protobuf/proto.Clone", func(m *Machine, fn *ssa.Function, args []Value) Value {
		i, _ := args[0].(Iface)
		if i.T == nil {
			return i
		}
		p, ok := i.V.(*Value)
		if !ok {
			m.unsupported("proto.Clone on " + i.T.String())
		}
		if p == nil {
			return i
		}
		cell := new(Value)
		*cell = copyVal(*p)
		return Iface{T: i.T, V: cell}
	})
	// proto.Merge(dst, src) is reflection driven. It is modelled for *serviceconfig.Service only, and
	// only for its Http field (the one health.AddHealthz fills): an unset dst.Http takes src.Http, a
	// set one has src's rules appended (repeated fields concatenate under Merge). Any other source
	// field that is set makes the path unsupported.
	reg("google.golang.org/protobuf/proto.Merge", func(m *Machine, fn *ssa.Function, args []Value) Value {
		d, _ := args[0].(Iface)
		s, _ := args[1].(Iface)
		const want = "*google.golang.org/genproto/googleapis/api/serviceconfig.Service"
		if d.T != nil && s.T != nil && strings.HasSuffix(d.T.String(), ".fakeMsg") && strings.HasSuffix(s.T.String(), ".fakeMsg") {
			// the harness's fake messages: reflective merge written against protoreflect (model_wkt.go);
			// natively the real proto.Merge runs on them
			f := m.Prog.Func("vfProtoMerge")
			if f == nil {
				m.unsupported("vfProtoMerge not defined by the harness")
			}
			return m.callFn(f, []Value{d, s}, nil)
		}
		if d.T == nil || s.T == nil || d.T.String() != want || s.T.String() != want {
			m.unsupported("proto.Merge on " + m.show(d))
		}
		dp, _ := d.V.(*Value)
		sp, _ := s.V.(*Value)
		if dp == nil || sp == nil {
			m.unsupported("proto.Merge with nil message")
		}
		st := d.T.(*types.Pointer).Elem().Underlying().(*types.Struct)
		httpIdx := -1
		for i := 0; i < st.NumFields(); i++ {
			if st.Field(i).Name() == "Http" {
				httpIdx = i
			}
		}
		if httpIdx < 0 {
			m.unsupported("serviceconfig.Service has no Http field")
		}
		ds, ss := (*dp).(Struct), (*sp).(Struct)
		for i := 0; i < st.NumFields(); i++ {
			if i == httpIdx || !st.Field(i).Exported() {
				continue
			}
			switch v := ss[i].(type) {
			case *Value:
				if v != nil {
					m.unsupported("proto.Merge: source field " + st.Field(i).Name() + " set (not modelled)")
				}
			case Slice:
				if len(v) != 0 {
					m.unsupported("proto.Merge: source field " + st.Field(i).Name() + " set (not modelled)")
				}
			case Str:
				if v.Len() != 0 {
					m.unsupported("proto.Merge: source field " + st.Field(i).Name() + " set (not modelled)")
				}
			}
		}
		sh, _ := ss[httpIdx].(*Value)
		if sh == nil {
			return nil
		}
		dh, _ := ds[httpIdx].(*Value)
		if dh == nil {
			cell := new(Value)
			*cell = copyVal(*sh)
			m.set(&ds[httpIdx], cell)
			return nil
		}
		ht := st.Field(httpIdx).Type().(*types.Pointer).Elem().Underlying().(*types.Struct)
		rulesIdx := -1
		for i := 0; i < ht.NumFields(); i++ {
			if ht.Field(i).Name() == "Rules" {
				rulesIdx = i
			}
		}
		dhs, shs := (*dh).(Struct), (*sh).(Struct)
		dr, _ := dhs[rulesIdx].(Slice)
		sr, _ := shs[rulesIdx].(Slice)
		out := make(Slice, 0, len(dr)+len(sr))
		out = append(out, dr...)
		out = append(out, sr...)
		m.set(&dhs[rulesIdx], out)
		return nil
	})
	// String() of a generated message (prototext formatting) is only ever used to word error
	// messages: a placeholder
	reg("(google.golang.org/protobuf/internal/impl.Export).MessageStringOf", func(m *Machine, fn *ssa.Function, args []Value) Value {
		return Str{S: "<proto message>"}
	})
	reg("math/rand.Intn", func(m *Machine, fn *ssa.Function, args []Value) Value {
		n := m.ConcInt(args[0])
		if n <= 0 {
			panic(targetPanic{msg: "invalid argument to Intn", stack: m.stackString()})
		}
		return m.i64(m.Choose(n))
	})
}

func init() {
	P := protoreflectPkg
	reg(P+".typeOf", func(m *Machine, fn *ssa.Function, args []Value) Value {
		i := args[0].(Iface)
		return m.typeToken(i.T)
	})
	mkValue := func(m *Machine, typ *Value, ptr Value, num *Term) Value {
		return Struct{Array{}, typ, ptr, num}
	}
	reg(P+".valueOfString", func(m *Machine, fn *ssa.Function, args []Value) Value {
		s := args[0].(Str)
		cell := new(Value)
		*cell = s
		return mkValue(m, m.protoTypeGlobal("stringType"), cell, m.C.BV(64, uint64(s.Len())))
	})
	reg(P+".valueOfBytes", func(m *Machine, fn *ssa.Function, args []Value) Value {
		s, _ := args[0].(Slice)
		cell := new(Value)
		*cell = s
		return mkValue(m, m.protoTypeGlobal("bytesType"), cell, m.C.BV(64, uint64(len(s))))
	})
	reg(P+".valueOfIface", func(m *Machine, fn *ssa.Function, args []Value) Value {
		i := args[0].(Iface)
		cell := new(Value)
		*cell = i
		return mkValue(m, m.typeToken(i.T), cell, m.C.BV(64, 0))
	})
	get := func(m *Machine, v Value) Value {
		st := v.(Struct)
		p, _ := st[2].(*Value)
		if p == nil {
			return nil
		}
		return *p
	}
	reg("("+P+".Value).getString", func(m *Machine, fn *ssa.Function, args []Value) Value {
		if s, ok := get(m, args[0]).(Str); ok {
			return s
		}
		return Str{}
	})
	reg("("+P+".Value).getBytes", func(m *Machine, fn *ssa.Function, args []Value) Value {
		if s, ok := get(m, args[0]).(Slice); ok {
			return s
		}
		return Slice(nil)
	})
	reg("("+P+".Value).getIface", func(m *Machine, fn *ssa.Function, args []Value) Value {
		if i, ok := get(m, args[0]).(Iface); ok {
			return i
		}
		return Iface{}
	})
}
