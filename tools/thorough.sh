#!/bin/bash
# Runs the thorough tier of the given properties from the current directory's /verif snapshot
# (vp run --with-repo: against the repo snapshot in $VP_RUN_REPO, so edits to /repo do not disturb it).
export GOFLAGS=-mod=mod GOPROXY=off GOSUMDB=off GOTOOLCHAIN=local
export VERIF_DIR=$PWD
[ -n "$VP_RUN_REPO" ] && export VERIF_REPO=$VP_RUN_REPO
(cd engine && go build -o ../bin/symgo ./cmd/symgo) || exit 2
for p in "$@"; do
  echo "=== $p"; /usr/bin/time -f "%es %MKB" ./bin/symgo check -prop $p -tier ${TIER:-thorough} ${ONLY:+-only $ONLY} 2>&1 | grep "paths=\|INCON\|VIOL\|exit=\|KB" | cut -c1-300
done
