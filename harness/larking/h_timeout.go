package larking

import "time"

func init() { vfHarnesses["VerifH_timeout"] = VerifH_timeout }

// VerifH_timeout: decodeTimeout on every string of length 0..10 against refTimeout (C15, C09).
func VerifH_timeout() {
	n := vfLen(10)
	s := vfString(n)
	d, err := decodeTimeout(s)
	// reference
	okShape := n >= 2 && n <= 9
	var unit time.Duration
	if okShape {
		switch s[n-1] {
		case 'H':
			unit = time.Hour
		case 'M':
			unit = time.Minute
		case 'S':
			unit = time.Second
		case 'm':
			unit = time.Millisecond
		case 'u':
			unit = time.Microsecond
		case 'n':
			unit = time.Nanosecond
		default:
			okShape = false
		}
	}
	if !okShape {
		vfCheck(err != nil, "malformed timeout (length/unit) accepted")
		vfCover("rejected-shape")
		return
	}
	allDigits := true
	var val int64
	for i := 0; i < n-1; i++ {
		c := s[i]
		if c < '0' || c > '9' {
			allDigits = false
			break
		}
		val = val*10 + int64(c-'0')
	}
	if allDigits {
		vfCheck(err == nil, "well-formed timeout rejected")
		const maxHours = int64(^uint64(0)>>1) / int64(time.Hour)
		if unit == time.Hour && val > maxHours {
			vfCheck(d == time.Duration(int64(^uint64(0)>>1)), "overflowing hours not clamped to the maximum duration")
			vfCover("clamped")
			return
		}
		// no overflow possible: 8 digits x at most an hour below the clamp, or x <= a minute
		vfCheck(d == time.Duration(val)*unit, "timeout value differs from digits x unit")
		vfCheck(d >= 0, "accepted timeout is negative")
		vfCover("accepted")
		return
	}
	// TimeoutValue is "a positive integer as ASCII string of at most 8 digits" (gRPC over HTTP/2): a
	// sign is not a digit; "-5S" would hand the handler a deadline in the past, "+5S" is a shape no
	// conforming client sends. Everything with a non-digit must be rejected.
	signed := (s[0] == '+' || s[0] == '-') && n >= 3
	if signed {
		vfCover("signed")
	}
	vfCheck(err != nil, "timeout with a non-digit value accepted")
	vfCover("rejected-nondigit")
}
