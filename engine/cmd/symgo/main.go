package main

import (
	"flag"
	"fmt"
	"os"
	"runtime"
	"sort"
	"time"

	"verif/engine/sym"
)

func main() {
	if len(os.Args) < 2 {
		fmt.Fprintln(os.Stderr, "usage: symgo run|check|replay|selftest ...")
		os.Exit(2)
	}
	switch os.Args[1] {
	case "run":
		os.Exit(cmdRun(os.Args[2:]))
	case "check":
		os.Exit(cmdCheck(os.Args[2:]))
	case "list":
		// the harness inventory: property -> harnesses (flags)
		var ids []string
		for id := range props {
			ids = append(ids, id)
		}
		sort.Strings(ids)
		for _, id := range ids {
			fmt.Printf("%s:", id)
			seen := map[string]bool{}
			for _, hs := range props[id].Harnesses {
				if seen[hs.Name] {
					continue
				}
				seen[hs.Name] = true
				fl := ""
				if hs.Concurrent {
					fl += " [concurrent]"
				}
				if hs.ThoroughOnly {
					fl += " [thorough only]"
				}
				if hs.MustViolate != "" {
					fl += " [engine self-validation: must violate]"
				}
				fmt.Printf(" %s%s;", hs.Name, fl)
			}
			fmt.Println()
		}
		os.Exit(0)
	case "replay":
		os.Exit(cmdReplay(os.Args[2:]))
	default:
		fmt.Fprintln(os.Stderr, "unknown command", os.Args[1])
		os.Exit(2)
	}
}

func loadProgram() (*sym.Program, error) {
	repo := os.Getenv("VERIF_REPO")
	if repo == "" {
		repo = "/repo"
	}
	hd := os.Getenv("VERIF_HARNESS")
	if hd == "" {
		hd = verifDir + "/harness/larking"
	}
	p, err := sym.Load(repo, "larking", "larking.io/larking", hd)
	if err == nil {
		for f, msg := range p.Dropped {
			fmt.Fprintf(os.Stderr, "WARNING: harness file %s does not compile against this tree and was left out: %s\n", f, msg)
		}
	}
	return p, err
}

// loadProgramOverlayOnly builds just the overlay map (no type-checking), for native replays.
func loadProgramOverlayOnly() (*sym.Program, error) {
	repo := os.Getenv("VERIF_REPO")
	if repo == "" {
		repo = "/repo"
	}
	hd := os.Getenv("VERIF_HARNESS")
	if hd == "" {
		hd = verifDir + "/harness/larking"
	}
	return sym.OverlayOnly(repo, "larking", hd)
}

func cmdRun(args []string) int {
	fs := flag.NewFlagSet("run", flag.ExitOnError)
	harness := fs.String("harness", "", "harness function name")
	workers := fs.Int("workers", runtime.NumCPU(), "workers")
	solver := fs.String("solver", "z3-new", "solver")
	trace := fs.Bool("trace", false, "trace instructions")
	maxPaths := fs.Int("max-paths", 0, "path budget")
	steps := fs.Int("steps", 0, "step budget per path")
	verbose := fs.Bool("v", false, "verbose")
	thorough := fs.Bool("thorough", false, "thorough-tier bounds (vfBound)")
	fs.Parse(args)
	t0 := time.Now()
	prog, err := loadProgram()
	if err != nil {
		fmt.Fprintln(os.Stderr, err)
		return 2
	}
	fmt.Printf("loaded in %.1fs\n", time.Since(t0).Seconds())
	ex := &sym.Explorer{Prog: prog, Workers: *workers, Solver: *solver, Cfg: sym.Config{StepBudget: *steps, Thorough: *thorough}}
	if err := ex.Start(); err != nil {
		fmt.Fprintln(os.Stderr, err)
		return 2
	}
	defer ex.Close()
	ex.SetTrace(*trace)
	fmt.Printf("init %.1fs, poisoned globals: %d\n", ex.InitTime.Seconds(), len(ex.Poisoned))
	if *verbose {
		sort.Strings(ex.Poisoned)
		for _, p := range ex.Poisoned {
			fmt.Println("  poisoned:", p)
		}
	}
	res, err := ex.Run(*harness, *maxPaths, 5)
	if err != nil {
		fmt.Fprintln(os.Stderr, err)
		return 2
	}
	fmt.Println(res.Summary())
	for _, v := range res.Violations {
		fmt.Printf("VIOLATION kind=%s msg=%s\n  draws=%v\n%s\n", v.Kind, v.Msg, sym.ConcreteDraws(v.Draws, v.Model), v.Stack)
	}
	for id, hs := range res.KnownHits {
		fmt.Printf("KNOWN %s: %d hits, e.g. %s draws=%v\n", id, len(hs), hs[0].Msg, sym.ConcreteDraws(hs[0].Draws, hs[0].Model))
	}
	for _, v := range res.Inconclusive {
		fmt.Printf("INCONCLUSIVE kind=%s msg=%s\n", v.Kind, v.Msg)
	}
	if *verbose {
		for l, o := range res.CoverSamples {
			fmt.Printf("cover %s: draws=%v\n", l, sym.ConcreteDraws(o.Draws, o.Model))
		}
		for k, v := range res.ForkSites {
			fmt.Printf("  fork %6d %s\n", v, k)
		}
		var fnames []string
		for k := range res.Funcs {
			fnames = append(fnames, k)
		}
		sort.Strings(fnames)
		for _, k := range fnames {
			fmt.Printf("  func %s: %d\n", k, res.Funcs[k])
		}
		for k, v := range res.Intrinsics {
			fmt.Printf("  intrinsic %s: %d\n", k, v)
		}
	}
	if len(res.Violations) > 0 {
		return 1
	}
	if len(res.Inconclusive) > 0 || res.PathBudget {
		return 2
	}
	return 0
}
