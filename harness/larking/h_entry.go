package larking

import (
	"bytes"
	"context"
	"encoding/base64"
	"net/http"
	"net/url"
	"strconv"
	"strings"

	"google.golang.org/grpc"
	"google.golang.org/grpc/codes"
	"google.golang.org/grpc/metadata"
	"google.golang.org/grpc/status"
)

func init() {
	vfHarnesses["VerifH_entry_empty"] = VerifH_entry_empty
	vfHarnesses["VerifH_entry"] = VerifH_entry
	vfHarnesses["VerifH_grpcweb"] = VerifH_grpcweb
}

// VerifH_entry (C09): any request - HTTP version, method, content type, Accept, path, body - gets
// a response from the mux; nothing panics, whichever entry path it takes.
func VerifH_entry() {
	mux, _, _ := vfMuxAllFake(MaxReceiveMessageSizeOption(8)) // small limit: frame sizes are enumerated by the engine
	major := 1 + vfChoice(2)
	method := "POST"
	if vfBool() {
		method = "GET"
	}
	// one dimension is varied at a time (the others stay at a well-formed default), otherwise the
	// product of the menus drowns the run
	focus := vfChoice(4)
	ct := "application/x"
	if focus == 0 || focus == 3 {
		switch vfChoice(10) {
		case 0:
			ct = ""
		case 1:
			ct = "application/x"
		case 2:
			ct = "application/grpc"
		case 3:
			ct = "application/grpc+fake"
		case 4:
			ct = "application/grpc+body"
		case 5:
			ct = "application/grpc-web+fake"
		case 6:
			ct = "application/grpc-web-text+fake"
		case 7:
			ct = "application/grpc+" + vfAsciiString(1+vfLen(2))
		case 8:
			ct = "application/grpc-web" + vfAsciiString(vfLen(2))
		default:
			ct = "application/json"
		}
	}
	h := http.Header{}
	if ct != "" {
		h["Content-Type"] = []string{ct}
	}
	if focus == 1 {
		switch vfChoice(5) {
		case 0:
		case 1:
			h["Accept"] = []string{"application/x"}
		case 2:
			h["Accept"] = []string{"google.api.HttpBody"}
		case 3:
			h["Accept"] = []string{"*/*"}
		default:
			h["Accept"] = []string{vfString(vfLen(3))}
		}
	}
	path := "/aa/zz"
	if focus == 0 || focus == 3 {
		path = "/vf.S/M0"
	}
	if focus == 2 {
		switch vfChoice(3) {
		case 0:
			path = "/vf.S/M0"
		case 1:
			path = "/nope"
		default:
			path = vfString(vfLen(3))
		}
	}
	body := []byte{0, 0, 0, 0, 1, 7}
	if focus == 3 {
		body = vfBytes(vfLen(vfBound(6, 7)))
	}
	r := &http.Request{
		Method:        method,
		URL:           &url.URL{Path: path},
		Header:        h,
		Body:          vfNopCloser{&vfWholeReader{data: body}},
		ContentLength: int64(len(body)),
		ProtoMajor:    major,
	}
	w := newFakeRW()
	mux.ServeHTTP(w, r)
	w.finish()
	vfCheck(w.status >= 100 && w.status <= 599, "response status outside 100..599")
	if strings.HasPrefix(ct, "application/grpc-web") {
		vfCover("grpc-web-entry")
	} else if strings.HasPrefix(ct, "application/grpc") && major == 2 {
		vfCover("grpc-entry")
	} else {
		vfCover("http-entry")
	}
}

// VerifH_grpcweb (C05, C06, C14): a unary gRPC-web call (binary and base64 text mode, over
// HTTP/1.1 and HTTP/2): the call reaches the handler, and decoding everything the client received
// yields the reply frame (if any) followed by one well-formed trailer frame with grpc-status,
// grpc-message and the handler's trailer metadata.
func VerifH_grpcweb() {
	mux, srv, rec := vfMuxAllFake()
	text := vfBool()
	major := 1 + vfChoice(2)
	fail := vfBool()
	var code codes.Code
	if fail {
		code = codes.Code(1 + vfChoice(16))
		srv.err = status.Error(code, "m%")
	}
	srv.reply.payload = vfBytes(vfLen(vfBound(3, 4))) // all residues mod 3
	tv := vfPlainString(2)
	rawBin := []byte{0xfb, 0xef, 0xbe} // base64 "++++": distinguishes the standard from the URL alphabet; symbolic bytes are covered by VerifH_binhdr
	srv.setTrail = metadata.MD{"x-t": []string{tv}, "x-b-bin": []string{string(rawBin)}}
	if vfBool() {
		// the same key as header AND trailer metadata: both must arrive
		srv.setHdr = metadata.MD{"x-t": []string{"hdr"}}
		vfCover("same-key-header-and-trailer")
	}
	payload := vfBytes(vfLen(2))
	frame := append([]byte{0, 0, 0, 0, byte(len(payload))}, payload...)
	ct := "application/grpc-web+fake"
	bodyBytes := frame
	if text {
		ct = "application/grpc-web-text+fake"
		bodyBytes = []byte(base64.StdEncoding.EncodeToString(frame))
	}
	r := &http.Request{
		Method:        "POST",
		URL:           &url.URL{Path: "/vf.S/M0"},
		Header:        http.Header{"Content-Type": []string{ct}},
		Body:          vfNopCloser{&vfWholeReader{data: bodyBytes}},
		ContentLength: int64(len(bodyBytes)),
		ProtoMajor:    major,
	}
	w := newFakeRW()
	mux.ServeHTTP(w, r)
	w.finish()
	vfCheck(w.status == 200, "gRPC-web call not answered 200 (the transport does not carry the call)")
	vfCheck(srv.calls == 1, "gRPC-web call did not reach the handler exactly once")
	vfCheck(len(rec.unmarshal) == 1 && vfBytesEq(rec.unmarshal[0], payload), "request message did not reach the codec intact")
	got := w.body
	if text {
		dec, err := base64.StdEncoding.DecodeString(string(w.body))
		vfCheck(err == nil, "gRPC-web-text response body is not valid base64 (bytes lost at the end?)")
		got = dec
	}
	if fail && len(w.body) == 0 {
		// trailers-only response: status and trailer metadata travel as headers
		gs := w.sentHeader["Grpc-Status"]
		vfCheck(len(gs) == 1 && gs[0] == strconv.Itoa(int(code)), "trailers-only response without the handler's grpc-status header")
		gm := w.sentHeader["Grpc-Message"]
		vfCheck(len(gm) == 1 && gm[0] == "m%25", "trailers-only response without the percent-encoded grpc-message header")
		xt := w.sentHeader["X-T"]
		vfCheck(len(xt) == 1 && xt[0] == tv, "trailer metadata set by the handler is not visible in a trailers-only response")
		xb := w.sentHeader["X-B-Bin"]
		vfCheck(len(xb) == 1 && (xb[0] == refBase64Encode(rawBin, false) || xb[0] == refBase64Encode(rawBin, true)), "binary trailer metadata of a trailers-only response is not the base64 of the handler's bytes")
		vfCover("trailers-only")
		return
	}
	rct := w.sentHeader["Content-Type"]
	vfCheck(len(rct) == 1 && rct[0] == ct, "gRPC-web response content-type differs from the request's")
	off := 0
	if !fail {
		n := len(srv.reply.payload)
		vfCheck(len(got) >= 5+n && got[0] == 0 && int(got[4]) == n && got[1] == 0 && got[2] == 0 && got[3] == 0, "reply frame header wrong")
		vfCheck(vfBytesEq(got[5:5+n], srv.reply.payload), "reply frame payload differs from the marshalled reply")
		off = 5 + n
	}
	vfCheck(len(got) >= off+5 && got[off] == 0x80, "trailer frame missing")
	tl := int(got[off+1])<<24 | int(got[off+2])<<16 | int(got[off+3])<<8 | int(got[off+4])
	vfCheck(off+5+tl == len(got), "trailer frame length does not cover the rest of the body")
	tr := vfParseTrailerBlock(got[off+5:])
	_, bad := tr["<malformed>"]
	vfCheck(!bad, "trailer frame has a malformed line")
	vfCheck(tr["grpc-status"] == strconv.Itoa(int(code)), "grpc-status in the trailer frame is not the handler's code")
	if fail {
		vfCheck(tr["grpc-message"] == "m%25", "grpc-message in the trailer frame is not the percent-encoded message")
		vfCover("failed")
	} else {
		vfCover("ok")
	}
	vfCheck(tr["x-t"] == tv, "trailer metadata set by the handler is not in the trailer frame")
	vfCheck(tr["x-b-bin"] == refBase64Encode(rawBin, false) || tr["x-b-bin"] == refBase64Encode(rawBin, true), "binary trailer metadata in the trailer frame is not the base64 of the handler's bytes")
	if text {
		vfCover("text")
	} else {
		vfCover("binary")
	}
	if major == 2 {
		vfCover("http2")
	}
}

// VerifH_entry_empty (C09, C11): a mux on which nothing has been registered yet: every entry (gRPC,
// gRPC-web, transcoding, WebSocket upgrade) answers without a crash and without success, and
// DropConn of an unknown connection reports false.
func VerifH_entry_empty() {
	// with and without a stats handler; on an empty mux, and on a populated one asked for a method
	// nobody registered
	var opts []MuxOption
	if vfBool() {
		opts = append(opts, StatsOption(&fakeStats{}))
		vfCover("with-stats")
	}
	var mux *Mux
	method, path := "POST", "/vf.S/M0"
	if vfBool() {
		mux, _, _ = vfMuxAllFake(opts...)
		path = "/vf.S/Nope"
		vfCover("unknown-method")
	} else {
		m, err := NewMux(opts...)
		if err != nil {
			vfFail("NewMux failed")
		}
		mux = m
		vfCheck(!mux.DropConn(context.Background(), new(grpc.ClientConn)), "DropConn of an unknown connection on an empty mux did not report false")
	}
	h := http.Header{}
	major := 1
	switch vfChoice(4) {
	case 0:
		h["Content-Type"] = []string{"application/grpc"}
		major = 2
		vfCover("grpc")
	case 1:
		h["Content-Type"] = []string{"application/grpc-web"}
		vfCover("grpc-web")
	case 2:
		method, path = "GET", "/v1/things/x"
		vfCover("http")
	default:
		method, path = "GET", "/v1/things/x"
		h["Upgrade"] = []string{"websocket"}
		h["Connection"] = []string{"Upgrade"}
		h["Sec-Websocket-Version"] = []string{"13"}
		h["Sec-Websocket-Key"] = []string{"dGhlIHNhbXBsZSBub25jZQ=="}
		vfCover("websocket")
	}
	r := &http.Request{Method: method, URL: &url.URL{Path: path}, Header: h, Host: "h",
		Body: vfNopCloser{&vfWholeReader{data: []byte{0, 0, 0, 0, 0}}}, ContentLength: 5, ProtoMajor: major, ProtoMinor: 1}
	w := newFakeRW()
	mux.ServeHTTP(w, r)
	w.finish()
	gs, hasGS := w.trailer("Grpc-Status")
	if !hasGS {
		gs = w.sentHeader["Grpc-Status"]
	}
	ok := w.status >= 400 || (len(gs) == 1 && gs[0] != "0") || bytes.Contains(w.body, []byte("grpc-status: 12")) || bytes.Contains(w.body, []byte("grpc-status:12"))
	vfCheck(ok, "a request to a mux with nothing registered was answered as a success")
}
