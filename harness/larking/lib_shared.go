package larking

import (
	"context"
	"io"
	"net"
	"net/http"
	"net/url"
	"strings"
	"time"

	"google.golang.org/grpc/codes"
	"google.golang.org/grpc/credentials/insecure"
	"google.golang.org/grpc/metadata"
	"google.golang.org/grpc/reflection"
	rpb "google.golang.org/grpc/reflection/grpc_reflection_v1alpha"
	"google.golang.org/grpc/status"
	"google.golang.org/grpc/test/bufconn"

	"github.com/gobwas/ws"
	"google.golang.org/genproto/googleapis/api/annotations"
	"google.golang.org/grpc"
	"google.golang.org/protobuf/proto"
	"google.golang.org/protobuf/reflect/protodesc"
	"google.golang.org/protobuf/reflect/protoreflect"
	"google.golang.org/protobuf/reflect/protoregistry"
	"google.golang.org/protobuf/types/descriptorpb"
	"google.golang.org/protobuf/types/dynamicpb"
)

// Declarations shared by several harness files (moved here by tools: engine/cmd/splitlib).

// (from h_codec.go)
// vfCapMenu picks the capacity of the caller's buffer: exact fits, one spare byte, roomy.
func vfCapMenu() int {
	switch vfChoice(3) {
	case 0:
		return 0
	case 1:
		return 1
	}
	return 64
}

// (from h_codec_json.go)
func vfIsPlainStringByte(c byte) bool { return c >= 0x20 && c != '"' && c != '\\' }

// (from h_codec_json.go)
func vfIsDigit(c byte) bool { return c >= '0' && c <= '9' }

// (from h_codec_json.go)
// vfJSONMessage picks a JSON object from a small grammar; filler bytes are symbolic.
func vfJSONMessage() []byte {
	switch vfChoice(6) {
	case 0:
		return []byte(`{}`)
	case 1:
		d := vfByte()
		vfAssume(vfIsDigit(d))
		return []byte{'{', '"', 'a', '"', ':', d, '}'}
	case 2:
		// string value with an arbitrary plain byte (may be a brace)
		x := vfByte()
		vfAssume(vfIsPlainStringByte(x))
		return []byte{'{', '"', 's', '"', ':', '"', x, '"', '}'}
	case 3:
		// escaped quote or backslash inside a string, followed by a brace
		e := byte('"')
		if vfBool() {
			e = '\\'
		}
		return []byte{'{', '"', 's', '"', ':', '"', '\\', e, '}', '"', '}'}
	case 4:
		return []byte(`{"o":{}}`)
	}
	return []byte(`{"o":{"p":"{"}}`)
}

// (from h_codes.go)
// Frozen copies of larking's documented status tables (code.go at the pinned revision): the tables
// are the documentation, so a change to them is a change of the documented mapping.
var refHTTPStatus = [17]int{200, 408, 500, 400, 504, 404, 409, 403, 429, 400, 409, 400, 501, 500, 503, 500, 401}

// (from h_codes.go)
var refWSStatus = [17]ws.StatusCode{1000, 1001, 1011, 1003, 1001, 1011, 1001, 1011, 1011, 1011, 1011, 1011, 1003, 1011, 1011, 1011, 1008}

// (from h_codes.go)
func refUnhex(c byte) int {
	if c >= '0' && c <= '9' {
		return int(c - '0')
	}
	if c >= 'a' && c <= 'f' {
		return int(c-'a') + 10
	}
	if c >= 'A' && c <= 'F' {
		return int(c-'A') + 10
	}
	return -1
}

// (from h_encoding.go)
// vfMarkCompressor is a recognisable "compression": Compress prefixes the stream with "Z:",
// Decompress strips it (and fails on input without the marker).
type vfMarkCompressor struct{ compressCalls, decompressCalls int }

// (from h_encoding.go)
type vfMarkWriter struct {
	w       io.Writer
	started bool
}

// (from h_encoding.go)
func (m *vfMarkWriter) Write(p []byte) (int, error) {
	if !m.started {
		m.started = true
		if _, err := m.w.Write([]byte("Z:")); err != nil {
			return 0, err
		}
	}
	return m.w.Write(p)
}

// (from h_encoding.go)
func (m *vfMarkWriter) Close() error { return nil }

// (from h_encoding.go)
func (c *vfMarkCompressor) Name() string { return "zz" }

// (from h_encoding.go)
func (c *vfMarkCompressor) Compress(w io.Writer) (io.WriteCloser, error) {
	c.compressCalls++
	return &vfMarkWriter{w: w}, nil
}

// (from h_encoding.go)
func (c *vfMarkCompressor) Decompress(r io.Reader) (io.Reader, error) {
	c.decompressCalls++
	all, err := io.ReadAll(r)
	if err != nil {
		return nil, err
	}
	if len(all) < 2 || all[0] != 'Z' || all[1] != ':' {
		return nil, errVfCodec
	}
	return &vfWholeReader{data: all[2:]}, nil
}

// (from h_entry.go)
// vfMuxAllFake: as vfMuxWith but every built-in media type is served by the recording codec, so no
// request can reach protobuf-go's real codecs with a fake message.
func vfMuxAllFake(opts ...MuxOption) (*Mux, *vfServer, *fakeCodec) {
	in := schemaRoute()
	out := newFakeMD("vf.Resp", strField("r"))
	md := &fakeMethod{full: "vf.S.M0", in: in, out: out, opts: &fakeOpts{rule: vfHTTPRule("POST", "/aa/{f}")}}
	svc := &fakeSvc{full: "vf.S", methods: &fakeMethodList{list: []*fakeMethod{md}}}
	rec := &fakeCodec{name: "fake"} // ONE codec: codecsByName is keyed by Name()
	all := append([]MuxOption{
		FilesOption(vfRegistry(svc)),
		CodecOption("application/x", rec),
		CodecOption("application/json", rec),
		CodecOption("application/protobuf", rec),
		CodecOption("application/octet-stream", rec),
	}, opts...)
	mux, err := NewMux(all...)
	if err != nil {
		vfFail("NewMux failed")
	}
	srv := &vfServer{in: in, out: out, reply: newFakeMsg(out)}
	srv.reply.payload = []byte("REPLY")
	sd := &grpc.ServiceDesc{ServiceName: "vf.S", Methods: []grpc.MethodDesc{{MethodName: "M0", Handler: vfUnaryHandler}}}
	if err := mux.registerService(sd, srv); err != nil {
		vfFail("registerService failed: " + err.Error())
	}
	return mux, srv, rec
}

// (from h_httpstatus.go)
func vfIsJSONPlain(c byte) bool {
	return c >= 0x20 && c < 0x7f && c != '"' && c != '\\' && c != '<' && c != '>' && c != '&'
}

// (from h_httpstream.go)
func schemaHTTPBody() *fakeMD {
	return newFakeMD("google.api.HttpBody",
		&fakeFD{name: "content_type", kind: protoreflect.StringKind},
		&fakeFD{name: "data", kind: protoreflect.BytesKind},
	)
}

// (from h_limits.go)
type vfFlushSink struct{ vfSink }

// (from h_match.go)
type vfRule struct {
	m    int    // method index
	verb string // GET, POST, ... or "*" (custom kind)
	tmpl string
}

// (from h_match.go)
func vfHTTPRule(verb, tmpl string) *annotations.HttpRule {
	r := &annotations.HttpRule{}
	switch verb {
	case "GET":
		r.Pattern = &annotations.HttpRule_Get{Get: tmpl}
	case "POST":
		r.Pattern = &annotations.HttpRule_Post{Post: tmpl}
	case "PUT":
		r.Pattern = &annotations.HttpRule_Put{Put: tmpl}
	case "DELETE":
		r.Pattern = &annotations.HttpRule_Delete{Delete: tmpl}
	case "PATCH":
		r.Pattern = &annotations.HttpRule_Patch{Patch: tmpl}
	default:
		r.Pattern = &annotations.HttpRule_Custom{Custom: &annotations.CustomHttpPattern{Kind: verb, Path: tmpl}}
	}
	return r
}

// (from h_match.go)
// vfRoute: a request path as Mux.ServeHTTP hands it to match: it starts with '/' (the mux prepends
// one otherwise); all bytes ASCII in this tier.
func vfRoute(max int) string {
	n := 1 + vfLen(max-1)
	s := vfAsciiString(n)
	vfAssume(s[0] == '/')
	return s
}

// (from h_match.go)
func vfAsciiString(n int) string {
	s := vfString(n)
	for i := 0; i < n; i++ {
		vfAssume(s[i] < 0x80)
	}
	return s
}

// (from h_match.go)
func vfParamField(p param) string {
	s := ""
	for i, fd := range p.fds {
		if i > 0 {
			s += "."
		}
		s += string(fd.Name())
	}
	return s
}

// (from h_metadata.go)
const refB64Std = "ABCDEFGHIJKLMNOPQRSTUVWXYZabcdefghijklmnopqrstuvwxyz0123456789+/"

// (from h_metadata.go)
// refBase64Encode: RFC 4648 standard alphabet, optionally padded.
func refBase64Encode(b []byte, pad bool) string {
	out := make([]byte, 0, (len(b)+2)/3*4)
	for i := 0; i < len(b); i += 3 {
		var v uint32
		n := 0
		for j := 0; j < 3; j++ {
			v <<= 8
			if i+j < len(b) {
				v |= uint32(b[i+j])
				n++
			}
		}
		out = append(out, refB64Std[(v>>18)&63], refB64Std[(v>>12)&63])
		if n >= 2 {
			out = append(out, refB64Std[(v>>6)&63])
		} else if pad {
			out = append(out, '=')
		}
		if n >= 3 {
			out = append(out, refB64Std[v&63])
		} else if pad {
			out = append(out, '=')
		}
	}
	return string(out)
}

// (from h_params.go)
// refJSONInt: the JSON number grammar restricted to integers (optional '-', no leading zeros, no
// '+', no fraction / exponent), for texts short enough to fit int32; surrounding JSON whitespace
// is allowed.
func refJSONInt(s string) (int, bool) {
	for len(s) > 0 && (s[0] == ' ' || s[0] == '\t' || s[0] == '\n' || s[0] == '\r') {
		s = s[1:]
	}
	for len(s) > 0 && (s[len(s)-1] == ' ' || s[len(s)-1] == '\t' || s[len(s)-1] == '\n' || s[len(s)-1] == '\r') {
		s = s[:len(s)-1]
	}
	neg := false
	if len(s) > 0 && s[0] == '-' {
		neg = true
		s = s[1:]
	}
	if len(s) == 0 || len(s) > 9 || (len(s) > 1 && s[0] == '0') {
		return 0, false
	}
	v := 0
	for i := 0; i < len(s); i++ {
		if s[i] < '0' || s[i] > '9' {
			return 0, false
		}
		v = v*10 + int(s[i]-'0')
	}
	if neg {
		v = -v
	}
	return v, true
}

// (from h_servegrpc.go)
type vfInterceptorLog struct {
	calls  int
	method string
}

// (from h_servegrpc.go)
func vfGRPCRequest(ct string, payload []byte, extra http.Header) *http.Request {
	frame := append([]byte{0, 0, 0, 0, byte(len(payload))}, payload...)
	h := http.Header{"Content-Type": []string{ct}, "Te": []string{"trailers"}}
	for k, v := range extra {
		h[k] = v
	}
	return &http.Request{
		Method:        "POST",
		URL:           &url.URL{Path: "/vf.S/M0"},
		Header:        h,
		Body:          vfNopCloser{&vfWholeReader{data: frame}},
		ContentLength: -1,
		ProtoMajor:    2,
	}
}

// (from h_servehttp.go)
type vfNopCloser struct{ io.Reader }

// (from h_servehttp.go)
func (vfNopCloser) Close() error { return nil }

// (from h_servehttp.go)
// vfMuxWith builds a real Mux (NewMux + registerService) exposing the unary method vf.S.M0 with
// the given annotation, a recording codec for application/x and the fake application server.
func vfMuxWith(rule *annotations.HttpRule, in, out *fakeMD, opts ...MuxOption) (*Mux, *vfServer, *fakeCodec) {
	md := &fakeMethod{full: "vf.S.M0", in: in, out: out, opts: &fakeOpts{rule: rule}}
	svc := &fakeSvc{full: "vf.S", methods: &fakeMethodList{list: []*fakeMethod{md}}}
	rec := &fakeCodec{name: "fake"}
	all := append([]MuxOption{FilesOption(vfRegistry(svc)), CodecOption("application/x", rec)}, opts...)
	mux, err := NewMux(all...)
	if err != nil {
		vfFail("NewMux failed")
	}
	srv := &vfServer{in: in, out: out, reply: newFakeMsg(out)}
	srv.reply.payload = []byte("REPLY")
	sd := &grpc.ServiceDesc{ServiceName: "vf.S", Methods: []grpc.MethodDesc{{MethodName: "M0", Handler: vfUnaryHandler}}}
	if err := mux.registerService(sd, srv); err != nil {
		vfFail("registerService failed: " + err.Error())
	}
	return mux, srv, rec
}

// (from h_servehttp.go)
func vfIsPlainQueryByte(c byte) bool {
	return c < 0x80 && refIsPathByte(c) && c != '&' && c != ';' && c != '=' && c != '+' && c != '*' && c != '!' && c != '$' && c != '\'' && c != '(' && c != ')' && c != ',' && c != '@' && c != '~'
}

// (from h_servehttp.go)
func vfPlainString(max int) string {
	n := 1 + vfLen(max-1)
	s := vfString(n)
	for i := 0; i < n; i++ {
		vfAssume(vfIsPlainQueryByte(s[i]))
	}
	return s
}

// (from h_registry.go)
// ---- the two services of the registration harness (DESIGN C11 "service shapes") -----------------
//
//	vf.A.M1: GET /v1/xx/yy                      vf.B.M1: custom "*" /v1/xx   (kind-* on an interior node)
//	vf.A.M2: GET /v1/a2/{f} + POST /v1/a2b      vf.B.M2: GET /v1/{f}
type vfMethodSpec struct {
	name  string
	verb  string
	tmpl  string
	extra []vfRule // additional bindings (m unused)
	cs    bool     // client streaming
	ss    bool     // server streaming
}

// (from h_registry.go)
type vfSvcSpec struct {
	full    string
	file    string
	reqName string
	methods []vfMethodSpec
}

// (from h_registry.go)
var vfSvcA = vfSvcSpec{full: "vf.A", file: "vfa.proto", reqName: "ReqA", methods: []vfMethodSpec{
	{name: "M1", verb: "GET", tmpl: "/v1/xx/yy"},
	{name: "M2", verb: "GET", tmpl: "/v1/a2/{f}", extra: []vfRule{{verb: "POST", tmpl: "/v1/a2b"}}},
}}

// (from h_registry.go)
var vfSvcB = vfSvcSpec{full: "vf.B", file: "vfb.proto", reqName: "ReqB", methods: []vfMethodSpec{
	{name: "M1", verb: "*", tmpl: "/v1/xx"},
	{name: "M2", verb: "GET", tmpl: "/v1/{f}"},
}}

// (from h_registry.go)
// vfSvcA2 / vfSvcB2: the same two services defined together in ONE proto file (a backend whose
// file declares several services).
var vfSvcA2 = vfSvcSpec{full: "vf.A", file: "vfab.proto", reqName: "ReqA", methods: vfSvcA.methods}

// (from h_registry.go)
var vfSvcB2 = vfSvcSpec{full: "vf.B", file: "vfab.proto", reqName: "ReqB", methods: vfSvcB.methods}

// (from h_registry.go)
func vfSpecsOfFile(file string) []vfSvcSpec {
	var out []vfSvcSpec
	for _, sp := range []vfSvcSpec{vfSvcA, vfSvcB, vfSvcA2, vfSvcB2, vfSvcP, vfSvcBad} {
		if sp.file == file {
			out = append(out, sp)
		}
	}
	return out
}

// (from h_registry.go)
func vfSpecRule(ms vfMethodSpec) *annotations.HttpRule {
	r := vfHTTPRule(ms.verb, ms.tmpl)
	for _, e := range ms.extra {
		r.AdditionalBindings = append(r.AdditionalBindings, vfHTTPRule(e.verb, e.tmpl))
	}
	return r
}

// (from h_registry.go)
// vfFakeSvc builds the fake descriptors of a service spec.
func vfFakeSvc(sp vfSvcSpec) *fakeSvc {
	req := newFakeMD("vf."+sp.reqName, strField("f"), strField("g"))
	resp := newFakeMD("vf.Resp"+sp.reqName, strField("r"))
	svc := &fakeSvc{full: sp.full, methods: &fakeMethodList{}}
	for _, ms := range sp.methods {
		fm := &fakeMethod{full: sp.full + "." + ms.name, in: req, out: resp, cs: ms.cs, ss: ms.ss, opts: &fakeOpts{}}
		if ms.tmpl != "" {
			fm.opts = &fakeOpts{rule: vfSpecRule(ms)}
		}
		svc.methods.list = append(svc.methods.list, fm)
	}
	return svc
}

// vfSvcBad: a service whose HTTP rule names a field its request type does not have, so that
// registering a backend that exposes it fails half-way.
var vfSvcBad = vfSvcSpec{full: "vf.C", file: "vfc.proto", reqName: "ReqC", methods: []vfMethodSpec{
	{name: "M1", verb: "GET", tmpl: "/v1/cc/{nofield}"},
}}

// vfSvcP: a backend service with one method of each streaming shape and no HTTP annotations
// (reached through the implicit /vf.P/<Method> gRPC binding), for the proxy harness.
var vfSvcP = vfSvcSpec{full: "vf.P", file: "vfp.proto", reqName: "ReqP", methods: []vfMethodSpec{
	{name: "U"}, {name: "CS", cs: true}, {name: "SS", ss: true}, {name: "BD", cs: true, ss: true},
}}

// (from h_registry.go)
// vfFileBytes returns the serialized FileDescriptorProto of a service spec. Natively these are the
// real bytes (descriptorpb + the google.api.http extension) that proto.Unmarshal / protodesc.NewFile
// consume; under the engine the function is intercepted and returns the file name as opaque bytes.
func vfFileBytes(file string) []byte {
	specs := vfSpecsOfFile(file)
	if len(specs) == 0 {
		panic("verif: unknown descriptor " + file)
	}
	str := descriptorpb.FieldDescriptorProto_TYPE_STRING.Enum()
	opt := descriptorpb.FieldDescriptorProto_LABEL_OPTIONAL.Enum()
	fd := &descriptorpb.FileDescriptorProto{
		Name:       proto.String(file),
		Package:    proto.String("vf"),
		Syntax:     proto.String("proto3"),
		Dependency: []string{"google/api/annotations.proto"},
	}
	for _, sp := range specs {
		fd.MessageType = append(fd.MessageType,
			&descriptorpb.DescriptorProto{Name: proto.String(sp.reqName), Field: []*descriptorpb.FieldDescriptorProto{
				{Name: proto.String("f"), JsonName: proto.String("f"), Number: proto.Int32(1), Type: str, Label: opt},
				{Name: proto.String("g"), JsonName: proto.String("g"), Number: proto.Int32(2), Type: str, Label: opt},
			}},
			&descriptorpb.DescriptorProto{Name: proto.String("Resp" + sp.reqName), Field: []*descriptorpb.FieldDescriptorProto{
				{Name: proto.String("r"), JsonName: proto.String("r"), Number: proto.Int32(1), Type: str, Label: opt},
			}})
		svc := &descriptorpb.ServiceDescriptorProto{Name: proto.String(sp.full[3:])}
		for _, ms := range sp.methods {
			mo := &descriptorpb.MethodOptions{}
			if ms.tmpl != "" {
				proto.SetExtension(mo, annotations.E_Http, vfSpecRule(ms))
			}
			mdp := &descriptorpb.MethodDescriptorProto{
				Name: proto.String(ms.name), InputType: proto.String(".vf." + sp.reqName), OutputType: proto.String(".vf.Resp" + sp.reqName), Options: mo,
			}
			if ms.cs {
				mdp.ClientStreaming = proto.Bool(true)
			}
			if ms.ss {
				mdp.ServerStreaming = proto.Bool(true)
			}
			svc.Method = append(svc.Method, mdp)
		}
		fd.Service = append(fd.Service, svc)
	}
	b, err := proto.Marshal(fd)
	if err != nil {
		panic(err)
	}
	return b
}

// (from h_registry.go)
// vfReflStream is the server-reflection conversation of a backend exposing the given services.
type vfReflStream struct {
	grpc.ClientStream
	svcs    []vfSvcSpec
	pending *rpb.ServerReflectionResponse
	closed  bool
	yields  bool // every message is a network round trip: a scheduling point for the engine
}

// (from h_registry.go)
func (s *vfReflStream) Send(req *rpb.ServerReflectionRequest) error {
	if s.yields {
		vfYield()
	}
	switch r := req.MessageRequest.(type) {
	case *rpb.ServerReflectionRequest_ListServices:
		var list []*rpb.ServiceResponse
		for _, sp := range s.svcs {
			list = append(list, &rpb.ServiceResponse{Name: sp.full})
		}
		s.pending = &rpb.ServerReflectionResponse{MessageResponse: &rpb.ServerReflectionResponse_ListServicesResponse{
			ListServicesResponse: &rpb.ListServiceResponse{Service: list}}}
	case *rpb.ServerReflectionRequest_FileContainingSymbol:
		for _, sp := range s.svcs {
			if sp.full == r.FileContainingSymbol {
				s.pending = &rpb.ServerReflectionResponse{MessageResponse: &rpb.ServerReflectionResponse_FileDescriptorResponse{
					FileDescriptorResponse: &rpb.FileDescriptorResponse{FileDescriptorProto: [][]byte{vfFileBytes(sp.file)}}}}
			}
		}
	default:
		s.pending = &rpb.ServerReflectionResponse{}
	}
	return nil
}

// (from h_registry.go)
func (s *vfReflStream) Recv() (*rpb.ServerReflectionResponse, error) {
	if s.yields {
		vfYield()
	}
	r := s.pending
	s.pending = nil
	return r, nil
}

// (from h_registry.go)
func (s *vfReflStream) CloseSend() error { s.closed = true; return nil }

// (from h_conc.go)
var vfNativeCleanup []func()

// (from h_conc.go)
func vfCloseBackends() {
	for _, f := range vfNativeCleanup {
		f()
	}
	vfNativeCleanup = nil
}

// (from h_conc.go)
// vfNativeBackend is a live in-process backend (natively): a real grpc.Server over bufconn whose
// reflection service describes the CURRENT spec set (vfBackendSetSpecs changes it, as a backend that
// was redeployed with other services would).
type vfNativeBackend struct {
	specs []vfSvcSpec
	cc    *grpc.ClientConn
}

// (from h_conc.go)
var vfNativeBackends = map[*grpc.ClientConn]*vfNativeBackend{}

// (from h_conc.go)
func (b *vfNativeBackend) files() *protoregistry.Files {
	files := new(protoregistry.Files)
	seen := map[string]bool{}
	for _, sp := range b.specs {
		if seen[sp.file] {
			continue
		}
		seen[sp.file] = true
		fdp := &descriptorpb.FileDescriptorProto{}
		if err := proto.Unmarshal(vfFileBytes(sp.file), fdp); err != nil {
			panic(err)
		}
		fd, err := protodesc.NewFile(fdp, protoregistry.GlobalFiles)
		if err != nil {
			panic(err)
		}
		if err := files.RegisterFile(fd); err != nil {
			panic(err)
		}
	}
	return files
}

// (from h_conc.go)
// GetServiceInfo implements reflection.ServiceInfoProvider.
func (b *vfNativeBackend) GetServiceInfo() map[string]grpc.ServiceInfo {
	out := map[string]grpc.ServiceInfo{}
	for _, sp := range b.specs {
		out[sp.full] = grpc.ServiceInfo{Metadata: sp.file}
	}
	return out
}

// (from h_conc.go)
func (b *vfNativeBackend) FindFileByPath(p string) (protoreflect.FileDescriptor, error) {
	if fd, err := b.files().FindFileByPath(p); err == nil {
		return fd, nil
	}
	return protoregistry.GlobalFiles.FindFileByPath(p)
}

// (from h_conc.go)
func (b *vfNativeBackend) FindDescriptorByName(n protoreflect.FullName) (protoreflect.Descriptor, error) {
	if d, err := b.files().FindDescriptorByName(n); err == nil {
		return d, nil
	}
	return protoregistry.GlobalFiles.FindDescriptorByName(n)
}

// (from h_conc.go)
// vfBackendSetSpecs (native body; intercepted by the engine): the backend behind cc now exposes specs.
func vfBackendSetSpecs(cc *grpc.ClientConn, specs []vfSvcSpec) {
	if b := vfNativeBackends[cc]; b != nil {
		b.specs = specs
	}
}

// (from h_conc.go)
// vfBackendConn (native body; intercepted by the engine): a live backend exposing specs.
func vfBackendConn(specs []vfSvcSpec) *grpc.ClientConn {
	b := &vfNativeBackend{specs: specs}
	files := b.files()
	srv := grpc.NewServer()
	var ccp *grpc.ClientConn
	for _, sp := range specs {
		sd := &grpc.ServiceDesc{ServiceName: sp.full, HandlerType: (*interface{})(nil), Metadata: sp.file}
		reqD, _ := files.FindDescriptorByName(protoreflect.FullName("vf." + sp.reqName))
		respD, _ := files.FindDescriptorByName(protoreflect.FullName("vf.Resp" + sp.reqName))
		for _, ms := range sp.methods {
			// every method is served by the scripted backend application (h_proxy.go)
			h := vfNativeProxyHandler(func() *vfProxyBackend { return vfProxyTable[ccp] }, ms.cs, reqD.(protoreflect.MessageDescriptor), respD.(protoreflect.MessageDescriptor))
			sd.Streams = append(sd.Streams, grpc.StreamDesc{StreamName: ms.name, Handler: h, ClientStreams: ms.cs, ServerStreams: ms.ss})
		}
		srv.RegisterService(sd, struct{}{})
	}
	rs := reflection.NewServer(reflection.ServerOptions{Services: b, DescriptorResolver: b, ExtensionResolver: protoregistry.GlobalTypes})
	rpb.RegisterServerReflectionServer(srv, rs)
	lis := bufconn.Listen(1 << 16)
	go srv.Serve(lis)
	cc, err := grpc.NewClient("passthrough:///verif",
		grpc.WithContextDialer(func(ctx context.Context, _ string) (net.Conn, error) { return lis.DialContext(ctx) }),
		grpc.WithTransportCredentials(insecure.NewCredentials()))
	if err != nil {
		panic(err)
	}
	ccp = cc
	b.cc = cc
	vfNativeBackends[cc] = b
	vfNativeCleanup = append(vfNativeCleanup, func() { delete(vfNativeBackends, cc); cc.Close(); srv.Stop() })
	return cc
}

// (from h_proxy.go)
type vfBackendScript struct {
	replies [][]byte // encoded reply messages, in order
	final   error    // the handler's return value (nil or a status error)
	failAt  int      // with final != nil: 0 before reading anything, 1 right after the first reply, 2 at the end
	drain   int      // client-streaming shapes: 0 read the requests up to end-of-stream before replying, 1 after replying, 2 never (the handler returns without reading the rest)
}

// (from h_proxy.go)
type vfBackendObs struct {
	calls  int
	reqs   [][]byte
	md     []string
	mdGrpc []string // values of grpc-previous-rpc-attempts
	mdBin  []string // values of x-tok-bin
	sawEOF bool
}

// (from h_proxy.go)
type vfByteStream interface {
	Context() context.Context
	RecvBytes() ([]byte, error) // io.EOF at the client's end-of-stream
	SendBytes([]byte) error
}

// (from h_proxy.go)
func vfBackendRun(sc *vfBackendScript, obs *vfBackendObs, cs bool, st vfByteStream) error {
	obs.calls++
	if md, ok := metadata.FromIncomingContext(st.Context()); ok {
		obs.md = md["x-md"]
		obs.mdGrpc = md["grpc-previous-rpc-attempts"]
		obs.mdBin = md["x-tok-bin"]
	}
	if sc.final != nil && sc.failAt == 0 {
		return sc.final
	}
	drain := func() error {
		for {
			b, err := st.RecvBytes()
			if err == io.EOF {
				obs.sawEOF = true
				return nil
			}
			if err != nil {
				return err
			}
			obs.reqs = append(obs.reqs, b)
		}
	}
	if !cs {
		b, err := st.RecvBytes()
		if err != nil {
			return status.Error(codes.Internal, "backend: no request")
		}
		obs.reqs = append(obs.reqs, b)
	} else if sc.drain == 0 {
		if err := drain(); err != nil {
			return err
		}
	}
	for i, rp := range sc.replies {
		if err := st.SendBytes(rp); err != nil {
			return err
		}
		if sc.final != nil && sc.failAt == 1 && i == 0 {
			return sc.final
		}
	}
	if cs && sc.drain == 1 {
		if err := drain(); err != nil {
			return err
		}
	}
	return sc.final
}

// (from h_proxy.go)
// vfProxyBackends: what each backend connection does (set by the harness before the call).
type vfProxyBackend struct {
	script *vfBackendScript
	obs    *vfBackendObs
}

// (from h_proxy.go)
var vfProxyTable = map[*grpc.ClientConn]*vfProxyBackend{}

// (from h_proxy.go)
type vfNativeByteStream struct {
	grpc.ServerStream
	req, resp protoreflect.MessageDescriptor
}

// (from h_proxy.go)
func (s vfNativeByteStream) RecvBytes() ([]byte, error) {
	m := dynamicpb.NewMessage(s.req)
	if err := s.ServerStream.RecvMsg(m); err != nil {
		return nil, err
	}
	return proto.Marshal(m)
}

// (from h_proxy.go)
func (s vfNativeByteStream) SendBytes(b []byte) error {
	m := dynamicpb.NewMessage(s.resp)
	if err := proto.Unmarshal(b, m); err != nil {
		return err
	}
	return s.ServerStream.SendMsg(m)
}

// (from h_proxy.go)
// vfNativeProxyHandler is installed by vfBackendConn for every method of a backend natively.
func vfNativeProxyHandler(be func() *vfProxyBackend, cs bool, req, resp protoreflect.MessageDescriptor) grpc.StreamHandler {
	return func(srv interface{}, stream grpc.ServerStream) error {
		b := be()
		if b == nil {
			return status.Error(codes.Unavailable, "verif: unknown backend")
		}
		return vfBackendRun(b.script, b.obs, cs, vfNativeByteStream{stream, req, resp})
	}
}

// (from h_registry.go)
type vfRouteProbe struct{ route, verb string }

// (from h_registry.go)
var vfAllMethods = []struct {
	name   string
	route  string
	verb   string
	others []vfRouteProbe // additional bindings
}{
	{"/vf.A/M1", "/v1/xx/yy", "GET", nil},
	{"/vf.A/M2", "/v1/a2/zz", "GET", []vfRouteProbe{{"/v1/a2b", "POST"}}},
	{"/vf.B/M1", "/v1/xx", "PUT", nil},
	{"/vf.B/M2", "/v1/zz", "GET", nil},
}

// (from h_registry.go)
func vfFingerprint(s *state) string {
	if s == nil {
		return "nil"
	}
	fp := s.path.String()
	for _, me := range vfAllMethods {
		fp += "|" + me.name + "=" + string(rune('0'+len(s.handlers[me.name])))
	}
	fp += "|conns=" + string(rune('0'+len(s.conns)))
	return fp
}

// (from h_proxy.go)
// vfWatchdog runs f; natively a hang (no return within the limit) is reported the way the engine
// reports it: as a deadlock.
func vfWatchdog(f func()) {
	if vfSymbolic() {
		f()
		return
	}
	done := make(chan interface{}, 1)
	go func() {
		defer func() { done <- recover() }()
		f()
	}()
	select {
	case r := <-done:
		if r != nil {
			panic(r)
		}
	case <-time.After(8 * time.Second):
		panic(vfCheckFailed{"deadlock: the call did not complete"})
	}
}

// (from h_params.go)
const refB64URL = "ABCDEFGHIJKLMNOPQRSTUVWXYZabcdefghijklmnopqrstuvwxyz0123456789-_"

func refB64Val(c byte, urlAlphabet bool) int {
	switch {
	case c >= 'A' && c <= 'Z':
		return int(c - 'A')
	case c >= 'a' && c <= 'z':
		return int(c-'a') + 26
	case c >= '0' && c <= '9':
		return int(c-'0') + 52
	case !urlAlphabet && c == '+', urlAlphabet && c == '-':
		return 62
	case !urlAlphabet && c == '/', urlAlphabet && c == '_':
		return 63
	}
	return -1
}

// refProtoJSONBytes: the proto3-JSON rule for bytes in text form: URL alphabet iff the text
// contains '-' or '_', otherwise standard; padding expected iff len%4 == 0.
func refProtoJSONBytes(s string) ([]byte, bool) {
	urlAlpha := false
	for i := 0; i < len(s); i++ {
		if s[i] == '-' || s[i] == '_' {
			urlAlpha = true
		}
	}
	body := s
	if len(s)%4 == 0 {
		// padded form: strip up to two '='
		for k := 0; k < 2 && len(body) > 0 && body[len(body)-1] == '='; k++ {
			body = body[:len(body)-1]
		}
	}
	if len(body)%4 == 1 {
		return nil, false
	}
	var out []byte
	var acc uint32
	bits := 0
	for i := 0; i < len(body); i++ {
		v := refB64Val(body[i], urlAlpha)
		if v < 0 {
			return nil, false
		}
		acc = acc<<6 | uint32(v)
		bits += 6
		if bits >= 8 {
			bits -= 8
			out = append(out, byte(acc>>uint(bits)))
			acc &= 1<<uint(bits) - 1
		}
	}
	if acc != 0 {
		return nil, false // non-zero trailing bits: strict decoders reject; larking may accept (unspecified)
	}
	return out, true
}

// (from h_entry.go)
func vfParseTrailerBlock(b []byte) map[string]string {
	out := map[string]string{}
	for _, line := range strings.Split(string(b), "\r\n") {
		if line == "" {
			continue
		}
		k, v, ok := strings.Cut(line, ": ")
		if !ok {
			out["<malformed>"] = line
			continue
		}
		out[k] = v
	}
	return out
}

// (from h_httpstatus.go)
// refTwirpCode: Twirp v7 error-code table keyed by the canonical gRPC code.
var refTwirpCode = [17]string{"", "canceled", "unknown", "invalid_argument", "deadline_exceeded", "not_found", "already_exists",
	"permission_denied", "resource_exhausted", "failed_precondition", "aborted", "out_of_range", "unimplemented", "internal",
	"unavailable", "dataloss", "unauthenticated"}

// (from h_match.go)
func vfMethodName(i int) string {
	if i == 0 {
		return "/vf.S/M0"
	}
	return "/vf.S/M1"
}

// (from h_match.go)
type vfBuilt struct {
	root  *path
	rules []vfRule   // including implicit rules
	tmpls []*refTmpl // parsed reference templates, parallel to rules
}

// (from h_match.go)
// vfBuild registers the rules in the given order with the real addRule.
func vfBuild(set []vfRule, order []int) *vfBuilt {
	in := schemaRoute()
	out := newFakeMD("vf.Resp", strField("r"))
	descs := []*fakeMethod{
		{full: "vf.S.M0", in: in, out: out},
		{full: "vf.S.M1", in: in, out: out},
	}
	b := &vfBuilt{root: newPath()}
	var all []vfRule
	for i := 0; i < 2; i++ {
		all = append(all, vfRule{i, "*", vfMethodName(i)})
	}
	for _, k := range order {
		all = append(all, set[k])
	}
	for _, r := range all {
		rule := vfHTTPRule(r.verb, r.tmpl)
		if r.tmpl == vfMethodName(r.m) {
			rule.Body = "*"
		}
		if err := b.root.addRule(rule, descs[r.m], vfMethodName(r.m)); err != nil {
			vfFail("rule set of the family rejected by addRule: " + r.tmpl)
		}
		t, st := refParseTemplate(r.tmpl)
		if st != refValid {
			vfFail("rule set of the family is not valid per the reference grammar: " + r.tmpl)
		}
		b.rules = append(b.rules, r)
		b.tmpls = append(b.tmpls, t)
	}
	return b
}

// (from h_match.go)
func vfIdentityOrder(n int) []int {
	o := make([]int, n)
	for i := range o {
		o[i] = i
	}
	return o
}

// (from h_match.go)
// vfParamsMatch: the params with a field path are exactly the rule's variables with the reference
// captures (order is not part of the claim); params without a field path carry no value.
func vfParamsMatch(ps params, t *refTmpl, caps []string) bool {
	used := make([]bool, len(t.vars))
	for _, p := range ps {
		if len(p.fds) == 0 {
			continue
		}
		f := vfParamField(p)
		val := p.val.String()
		found := false
		for k, v := range t.vars {
			if !used[k] && v.field == f && caps[k] == val {
				used[k] = true
				found = true
				break
			}
		}
		if !found {
			return false
		}
	}
	for _, u := range used {
		if !u {
			return false
		}
	}
	return true
}

// (from h_match.go)
func vfVerbOK(r vfRule, verb string) bool { return r.verb == "*" || r.verb == verb }

// (from h_match.go)
// vfCheckSound: whatever match dispatches is covered by a rule of that method (liberal ':').
func vfCheckSound(b *vfBuilt, route, verb string) {
	m, ps, err := b.root.match(route, verb)
	if err != nil {
		vfCover("not-dispatched")
		return
	}
	vfCover("dispatched")
	segs, ok := refSplit(route)
	vfCheck(ok, "dispatched although the path is not a sequence of non-empty segments")
	covered := false
	for i, r := range b.rules {
		if vfMethodName(r.m) != m.name || !vfVerbOK(r, verb) {
			continue
		}
		mok, caps := refMatch(b.tmpls[i], segs, false)
		if mok && vfParamsMatch(ps, b.tmpls[i], caps) {
			covered = true
			if len(b.tmpls[i].vars) > 0 {
				vfCover("captured")
			}
			break
		}
	}
	vfCheck(covered, "request dispatched to a method none of whose rules covers verb+path with these captures")
}

// (from h_match.go)
// vfCheckComplete: a strictly matching rule implies dispatch; literal beats wildcard.
func vfCheckComplete(b *vfBuilt, route, verb string) {
	segs, ok := refSplit(route)
	if !ok {
		return
	}
	strictHit := make([]bool, len(b.rules))
	any := false
	for i, r := range b.rules {
		if !vfVerbOK(r, verb) {
			continue
		}
		if mok, _ := refMatch(b.tmpls[i], segs, true); mok {
			strictHit[i] = true
			any = true
		}
	}
	if !any {
		vfCover("no-rule-matches")
		return
	}
	m, _, err := b.root.match(route, verb)
	vfCheck(err == nil, "a registered rule matches verb and path but the request was not dispatched")
	vfCover("dispatched")
	// the chosen method owns a matching rule that is not literal-dominated by another method's rule
	owns, undominated := false, false
	for i, r := range b.rules {
		if vfMethodName(r.m) != m.name || !vfVerbOK(r, verb) {
			continue
		}
		if mok, _ := refMatch(b.tmpls[i], segs, false); !mok {
			continue
		}
		owns = true
		dom := false
		for j, r2 := range b.rules {
			if r2.m != r.m && strictHit[j] && refDominates(b.tmpls[j], b.tmpls[i]) {
				dom = true
			}
			if r2.m != r.m && strictHit[j] && refDominates(b.tmpls[i], b.tmpls[j]) {
				vfCover("literal-won")
			}
		}
		if !dom {
			undominated = true
		} else {
			vfCover("dominated-candidate")
		}
	}
	vfCheck(owns, "dispatched to a method that owns no matching rule")
	vfCheck(undominated, "a wildcard/variable rule won over another method's literal rule")
}

// (from h_params.go)
func refTrimJSONSpace(s string) string {
	for len(s) > 0 && (s[0] == ' ' || s[0] == '\t' || s[0] == '\n' || s[0] == '\r') {
		s = s[1:]
	}
	for len(s) > 0 && (s[len(s)-1] == ' ' || s[len(s)-1] == '\t' || s[len(s)-1] == '\n' || s[len(s)-1] == '\r') {
		s = s[:len(s)-1]
	}
	return s
}
