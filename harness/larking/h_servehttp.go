package larking

import (
	"net/http"
	"net/url"

	"google.golang.org/genproto/googleapis/api/annotations"
)

func init() {
	vfHarnesses["VerifH_serveHTTP_params"] = VerifH_serveHTTP_params
	vfHarnesses["VerifH_serveHTTP_typed"] = VerifH_serveHTTP_typed
	vfHarnesses["VerifH_serveHTTP_intparam"] = VerifH_serveHTTP_intparam
	vfHarnesses["VerifH_serveHTTP_path"] = VerifH_serveHTTP_path
}

// VerifH_serveHTTP_intparam (C07, C03): a path variable bound to an int32 field (including the
// value 0, the field's default) wins over a competing value in the query string or the body.
func VerifH_serveHTTP_intparam() {
	in := schemaRoute()
	out := newFakeMD("vf.Resp", strField("r"))
	rule := vfHTTPRule("POST", "/n/{i}")
	rule.Body = "*"
	mux, srv, rec := vfMuxWith(rule, in, out)
	d := vfByte()
	vfAssume(d >= '0' && d <= '9')
	want := vfConc(int(d - '0'))
	rival := int32(1 + vfChoice(9))
	query := ""
	viaQuery := vfBool()
	if viaQuery {
		query = "i=" + string([]byte{byte('0' + rival)})
	} else {
		rec.bodyInts = map[string]int32{"i": rival}
	}
	body := []byte{1}
	r := &http.Request{
		Method: "POST", URL: &url.URL{Path: "/n/" + string([]byte{d}), RawQuery: query},
		Header: http.Header{"Content-Type": []string{"application/x"}, "Accept": []string{"application/x"}},
		Body:   vfNopCloser{&vfWholeReader{data: body}}, ContentLength: 1, ProtoMajor: 1, ProtoMinor: 1,
	}
	w := newFakeRW()
	mux.ServeHTTP(w, r)
	vfCheck(srv.calls == 1 && w.status == 200, "request not delivered")
	got := srv.got[0]
	v, ok := got.vals["i"]
	vfCheck(ok && int(v.Int()) == want, "int32 path-bound field does not carry the value captured from the URL path")
	if want == 0 {
		vfCover("zero-capture")
	}
	if viaQuery {
		vfCover("query-rival")
	} else {
		vfCover("body-rival")
	}
}

// VerifH_serveHTTP_params (C07, C03): through the real ServeHTTP -> serveHTTP -> RecvMsg -> set: a
// field bound by a path variable holds the captured text whatever the query string or the body
// say about the same field; other query parameters and the body reach the message.
func VerifH_serveHTTP_params() {
	in := schemaRoute()
	out := newFakeMD("vf.Resp", strField("r"))
	var rule *annotations.HttpRule
	verb := "GET"
	var pathPrefix, pathSuffix, bound string
	shape := vfChoice(4)
	switch shape {
	case 0:
		rule, pathPrefix, bound = vfHTTPRule("GET", "/{f}"), "/", "f"
	case 1:
		rule, pathPrefix, bound = vfHTTPRule("GET", "/x/{h.k}"), "/x/", "h.k"
	case 2:
		rule, pathPrefix, pathSuffix, bound = vfHTTPRule("POST", "/{f}/y"), "/", "/y", "f"
		rule.Body = "*"
		verb = "POST"
	default:
		rule, pathPrefix, bound = vfHTTPRule("POST", "/aa/{f}"), "/aa/", "f"
		rule.Body = "h"
		verb = "POST"
	}
	mux, srv, rec := vfMuxWith(rule, in, out)
	capture := vfPlainString(3)
	rival := vfPlainString(3)
	other := vfPlainString(2)
	query := ""
	queryRival := vfBool()
	if queryRival {
		query = bound + "=" + rival
	}
	queryOther := vfBool()
	if queryOther {
		if query != "" {
			query += "&"
		}
		query += "g=" + other
	}
	var body []byte
	bodyRival := false
	if verb == "POST" {
		body = vfBytes(1 + vfLen(2))
		if shape == 2 && vfBool() {
			// the decoded body also carries a value for the path-bound field
			rec.bodySets = map[string]string{"f": rival}
			bodyRival = true
		}
	}
	r := &http.Request{
		Method:        verb,
		URL:           &url.URL{Path: pathPrefix + capture + pathSuffix, RawQuery: query},
		Header:        http.Header{"Content-Type": []string{"application/x"}, "Accept": []string{"application/x"}},
		Body:          vfNopCloser{&vfWholeReader{data: body}},
		ContentLength: int64(len(body)),
		ProtoMajor:    1,
		ProtoMinor:    1,
	}
	if verb == "POST" && vfBool() {
		r.ContentLength = -1 // body of unknown length (HTTP/2 without content-length, opaque reader)
		vfCover("unknown-length")
	}
	w := newFakeRW()
	mux.ServeHTTP(w, r)
	vfCheck(w.committed, "no response was produced")
	vfCheck(srv.calls == 1, "a well-formed request matching the rule was not delivered to the handler exactly once")
	vfCheck(w.status == 200, "successful call not answered 200")
	vfCheck(vfBytesEq(w.body, []byte("REPLY")), "response body is not the marshalled reply")
	got := srv.got[0]
	var seen string
	if bound == "h.k" {
		sub := got.subs["h"]
		vfCheck(sub != nil, "nested path-bound field not set")
		seen = sub.str("k")
	} else {
		seen = got.str("f")
	}
	vfCheck(seen == capture, "path-bound field does not carry the value captured from the URL path")
	if queryOther {
		vfCheck(got.str("g") == other, "query parameter did not reach the request message")
		vfCover("query-param")
	}
	if verb == "POST" {
		// the body bytes reach the codec unmodified, exactly once, on the right (sub)message
		vfCheck(len(rec.unmarshal) == 1 && vfBytesEq(rec.unmarshal[0], body), "request body did not reach the codec unmodified exactly once")
		if shape == 3 {
			sub := got.subs["h"]
			vfCheck(sub != nil && sub.rawSet == 1 && got.rawSet == 0, "body: \"h\" must decode the body into field h only")
			vfCover("body-field")
		} else {
			vfCheck(got.rawSet == 1, "body: \"*\" must decode the body into the whole message")
			vfCover("body-star")
		}
	}
	if queryRival {
		vfCover("query-rival")
	}
	if bodyRival {
		vfCover("body-rival")
	}
	if bound == "h.k" {
		vfCover("nested-bound")
	}
}

// VerifH_serveHTTP_path (C01, C02, C09): the documented path normalisation of Mux.ServeHTTP (a
// leading '/' is added when missing, exactly ONE trailing '/' is removed) followed by routing, on
// a fully symbolic request path: the handler runs only if the normalised path is covered by the
// rule, and always when it is (strict reading); the captured field is the reference capture.
func VerifH_serveHTTP_path() {
	in := schemaRoute()
	out := newFakeMD("vf.Resp", strField("r"))
	tmpl := "/aa/{f}"
	if vfBool() {
		tmpl = "/aa/{f=bb/*}"
	}
	mux, srv, _ := vfMuxWith(vfHTTPRule("GET", tmpl), in, out)
	raw := vfAsciiString(vfLen(vfBound(7, 9)))
	r := &http.Request{
		Method: "GET", URL: &url.URL{Path: raw}, Header: http.Header{"Accept": []string{"application/x"}},
		Body: vfNopCloser{&vfWholeReader{}}, ProtoMajor: 1, ProtoMinor: 1,
	}
	w := newFakeRW()
	mux.ServeHTTP(w, r)
	w.finish()
	// reference normalisation
	norm := raw
	if len(norm) == 0 || norm[0] != '/' {
		norm = "/" + norm
	}
	if len(norm) > 0 && norm[len(norm)-1] == '/' {
		norm = norm[:len(norm)-1]
	}
	t, st := refParseTemplate(tmpl)
	if st != refValid {
		vfFail("template of the harness is not valid")
	}
	segs, ok := refSplit(norm)
	liberal, strict := false, false
	var caps []string
	if ok {
		liberal, caps = refMatch(t, segs, false)
		strict, _ = refMatch(t, segs, true)
	}
	implicit := norm == "/vf.S/M0" // the implicit /Service/Method binding
	if srv.calls > 0 {
		vfCheck(srv.calls == 1, "handler invoked more than once")
		vfCheck(liberal || implicit, "request dispatched although its normalised path is not covered by a rule of the method")
		if implicit {
			vfCheck(srv.got[0].sets == 0, "the implicit binding set a field")
			vfCover("implicit")
			return
		}
		vfCheck(srv.got[0].str("f") == caps[0], "captured field differs from the path text the variable covers")
		vfCover("dispatched")
		if len(raw) > 0 && raw[len(raw)-1] == '/' {
			vfCover("trailing-slash-stripped")
		}
	} else {
		vfCheck(!strict && !implicit, "request whose normalised path is covered by a rule was not dispatched")
		vfCheck(w.status == 404 || w.status == 400 || w.status == 405, "unrouted request not answered 404/400/405")
		vfCover("not-dispatched")
	}
}

// VerifH_serveHTTP_typed (C07, C01, C03): path variables bound to an int32, a bool and a field whose
// JSON name differs from its proto name, with a rival query parameter naming the same field (by
// either name) and - for the bool and int - captures that are the ZERO value of the field: the
// handler sees the value captured from the path, converted to the field's type; a capture that
// is not valid text for the type is rejected.
func VerifH_serveHTTP_typed() {
	in := schemaTyped()
	out := newFakeMD("vf.Resp", strField("r"))
	shape := vfChoice(6)
	var rule *annotations.HttpRule
	var prefix, capture, rivalKey, rivalVal string
	switch shape {
	case 4:
		// a path variable bound to a well-known wrapper message (zero and non-zero captures)
		rule, prefix = vfHTTPRule("GET", "/w/{wi}"), "/w/"
		capture = []string{"0", "5"}[vfChoice(2)]
		rivalKey, rivalVal = "wi", "7"
	case 5:
		// ... and to a FieldMask: the path text replaces, it is not merged with the query's
		rule, prefix = vfHTTPRule("GET", "/m/{wm}"), "/m/"
		capture = "a"
		rivalKey, rivalVal = "wm", "b"
	case 3:
		// the path variable is a member of a oneof; the rival query parameter sets the same member or
		// its sibling (a oneof holds one member: the path-bound one must be it)
		rule, prefix = vfHTTPRule("GET", "/o/{o1}"), "/o/"
		capture = vfPlainString(2)
		rivalKey, rivalVal = "o2", "rival"
		if vfBool() {
			rivalKey = "o1"
		}
	case 0:
		rule, prefix = vfHTTPRule("GET", "/n/{i}"), "/n/"
		capture = vfAsciiString(1 + vfLen(1))
		for j := 0; j < len(capture); j++ {
			vfAssume(vfIsPlainQueryByte(capture[j]) && capture[j] != '/')
		}
		rivalKey, rivalVal = "i", "7"
	case 1:
		rule, prefix = vfHTTPRule("GET", "/b/{bo}"), "/b/"
		capture = []string{"false", "true", "0", "False"}[vfChoice(4)]
		rivalKey, rivalVal = "bo", "true"
		if vfBool() {
			rivalVal = "false"
		}
	default:
		rule, prefix = vfHTTPRule("GET", "/l/{long_name}"), "/l/"
		capture = vfPlainString(2)
		rivalKey, rivalVal = "long_name", "rival"
		if vfBool() {
			rivalKey = "longName"
			vfCover("rival-by-json-name")
		}
	}
	mux, srv, _ := vfMuxWith(rule, in, out)
	query := ""
	withRival := vfBool()
	if withRival {
		query = rivalKey + "=" + rivalVal
	}
	r := &http.Request{
		Method: "GET", URL: &url.URL{Path: prefix + capture, RawQuery: query},
		Header: http.Header{"Accept": []string{"application/x"}}, Body: vfNopCloser{&vfWholeReader{}}, ProtoMajor: 1, ProtoMinor: 1,
	}
	w := newFakeRW()
	mux.ServeHTTP(w, r)
	vfCheck(w.committed, "no response was produced")
	switch shape {
	case 0:
		want, ok := refJSONInt(capture)
		if !ok {
			vfCheck(srv.calls == 0 && w.status != 200, "a capture that is not an integer was accepted for an int32 path variable")
			vfCover("int-rejected")
			return
		}
		vfCheck(srv.calls == 1 && w.status == 200, "a well-formed request matching the rule was not delivered")
		vfCheck(int(srv.got[0].vals["i"].Int()) == want, "int32 path-bound field does not carry the value captured from the URL path")
		if want == 0 && withRival {
			vfCover("zero-capture-with-rival")
		}
		vfCover("int")
	case 1:
		if capture != "false" && capture != "true" {
			vfCheck(srv.calls == 0 && w.status != 200, "a capture that is neither true nor false was accepted for a bool path variable")
			vfCover("bool-rejected")
			return
		}
		vfCheck(srv.calls == 1 && w.status == 200, "a well-formed request matching the rule was not delivered")
		v, set := srv.got[0].vals["bo"]
		vfCheck((set && v.Bool()) == (capture == "true"), "bool path-bound field does not carry the value captured from the URL path")
		if capture == "false" && withRival {
			vfCover("zero-capture-with-rival")
		}
		vfCover("bool")
	case 4:
		vfCheck(srv.calls == 1 && w.status == 200, "a well-formed request matching the rule was not delivered")
		got, _, ok := vfWKTGet(srv.got[0], "wi", "value")
		want, _ := refJSONInt(capture)
		vfCheck(ok && int(got.Int()) == want, "a path-bound wrapper field does not carry the value captured from the URL path")
		vfCover("wkt-wrapper")
	case 5:
		vfCheck(srv.calls == 1 && w.status == 200, "a well-formed request matching the rule was not delivered")
		fd := in.fields.ByName("wm")
		vfCheck(srv.got[0].Has(fd), "a path-bound FieldMask field is not set")
		wm := srv.got[0].Get(fd).Message()
		l := wm.Get(wm.Descriptor().Fields().ByName("paths")).List()
		vfCheck(l.Len() == 1 && l.Get(0).String() == capture, "a path-bound FieldMask does not hold exactly the path text captured from the URL")
		vfCover("wkt-fieldmask")
	case 3:
		vfCheck(srv.calls == 1 && w.status == 200, "a well-formed request matching the rule was not delivered")
		vfCheck(srv.got[0].str("o1") == capture, "a path-bound oneof member does not carry the value captured from the URL path")
		_, sib := srv.got[0].vals["o2"]
		vfCheck(!sib, "the sibling of a path-bound oneof member is set (a query parameter replaced the path-bound member)")
		vfCover("oneof-member")
	default:
		vfCheck(srv.calls == 1 && w.status == 200, "a well-formed request matching the rule was not delivered")
		vfCheck(srv.got[0].str("long_name") == capture, "path-bound field does not carry the value captured from the URL path")
		vfCover("json-name-field")
	}
	if withRival {
		vfCover("query-rival")
	}
}
