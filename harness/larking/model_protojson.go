package larking

import (
	"errors"
	"strconv"

	statuspb "google.golang.org/genproto/googleapis/rpc/status"
	"google.golang.org/protobuf/proto"
	"google.golang.org/protobuf/reflect/protoreflect"
)

// Model of protojson for the engine. Natively the real protojson runs on the fake messages (they
// implement enough of protoreflect for that); under the engine protojson.Unmarshal / Marshal and the
// (Un)MarshalOptions methods are redirected to these functions. The model covers what the harnesses
// send: objects whose members are strings without escapes, or nested objects of the same kind, with
// optional JSON whitespace between tokens. Anything else is reported as an error by the model, and
// the harnesses only assert on inputs inside the modelled fragment; witness replays compare the
// model with the real codec on every run.
var errVfJSON = errors.New("verif: json outside the modelled fragment / malformed")

type vfJSONParser struct {
	b []byte
	i int
}

func (p *vfJSONParser) ws() {
	for p.i < len(p.b) && (p.b[p.i] == ' ' || p.b[p.i] == '\n' || p.b[p.i] == '\t' || p.b[p.i] == '\r') {
		p.i++
	}
}

func (p *vfJSONParser) lit(c byte) bool {
	p.ws()
	if p.i < len(p.b) && p.b[p.i] == c {
		p.i++
		return true
	}
	return false
}

// str parses a string without escapes.
func (p *vfJSONParser) str() (string, bool) {
	if !p.lit('"') {
		return "", false
	}
	st := p.i
	for p.i < len(p.b) {
		c := p.b[p.i]
		if c == '"' {
			s := string(p.b[st:p.i])
			p.i++
			return s, true
		}
		if c == '\\' || c < 0x20 {
			return "", false
		}
		p.i++
	}
	return "", false
}

func (p *vfJSONParser) object(m protoreflect.Message) bool {
	if !p.lit('{') {
		return false
	}
	if p.lit('}') {
		return true
	}
	for {
		key, ok := p.str()
		if !ok || !p.lit(':') {
			return false
		}
		fds := m.Descriptor().Fields()
		fd := fds.ByJSONName(key)
		if fd == nil {
			fd = fds.ByTextName(key)
		}
		if fd == nil {
			return false // protojson rejects unknown fields by default
		}
		switch {
		case fd.Kind() == protoreflect.StringKind && !fd.IsList():
			v, ok := p.str()
			if !ok {
				return false
			}
			m.Set(fd, protoreflect.ValueOfString(v))
		case fd.Kind() == protoreflect.MessageKind && !fd.IsList() && !fd.IsMap():
			if !p.object(m.Mutable(fd).Message()) {
				return false
			}
		default:
			return false
		}
		if p.lit(',') {
			continue
		}
		return p.lit('}')
	}
}

func vfPJUnmarshal(b []byte, m proto.Message) error {
	if handled, err := vfWKTUnmarshal(b, m); handled {
		return err
	}
	p := &vfJSONParser{b: b}
	mr := m.ProtoReflect()
	if !p.object(mr) {
		return errVfJSON
	}
	p.ws()
	if p.i != len(p.b) {
		return errVfJSON
	}
	return nil
}

func vfPJAppend(b []byte, mr protoreflect.Message) ([]byte, bool) {
	b = append(b, '{')
	first := true
	ok := true
	mr.Range(func(fd protoreflect.FieldDescriptor, v protoreflect.Value) bool {
		if !first {
			b = append(b, ',')
		}
		first = false
		b = append(b, '"')
		b = append(b, fd.JSONName()...)
		b = append(b, '"', ':')
		switch {
		case fd.Kind() == protoreflect.StringKind && !fd.IsList():
			s := v.String()
			for i := 0; i < len(s); i++ {
				if s[i] == '"' || s[i] == '\\' || s[i] < 0x20 || s[i] >= 0x7f || s[i] == '<' || s[i] == '>' || s[i] == '&' {
					ok = false // needs escaping: outside the model
				}
			}
			b = append(b, '"')
			b = append(b, s...)
			b = append(b, '"')
		case fd.Kind() == protoreflect.EnumKind && !fd.IsList():
			ev := fd.Enum().Values().ByNumber(v.Enum())
			if ev == nil {
				ok = false // numeric form of an unnamed value: outside the model
			} else {
				b = append(b, '"')
				b = append(b, ev.Name()...)
				b = append(b, '"')
			}
		case fd.Kind() == protoreflect.MessageKind && !fd.IsList() && !fd.IsMap():
			var sub bool
			b, sub = vfPJAppend(b, v.Message())
			ok = ok && sub
		default:
			ok = false
		}
		return ok
	})
	return append(b, '}'), ok
}

func vfPJMarshalAppend(b []byte, m proto.Message) ([]byte, error) {
	if st, ok := m.(*statuspb.Status); ok {
		// google.rpc.Status without details: {"code":N,"message":"..."} with zero members omitted
		if len(st.Details) != 0 {
			return nil, errVfJSON
		}
		b = append(b, '{')
		if st.Code != 0 {
			b = append(b, `"code":`...)
			b = strconv.AppendInt(b, int64(st.Code), 10)
		}
		if st.Message != "" {
			if st.Code != 0 {
				b = append(b, ',')
			}
			b = append(b, `"message":"`...)
			for i := 0; i < len(st.Message); i++ {
				c := st.Message[i]
				switch {
				case c == '"' || c == '\\':
					b = append(b, '\\', c) // protojson escapes these two with a backslash
				case vfIsJSONPlain(c) || c == '<' || c == '>' || c == '&':
					b = append(b, c) // protojson does not escape markup characters
				default:
					return nil, errVfJSON // control / non-ASCII text: outside the model
				}
			}
			b = append(b, '"')
		}
		return append(b, '}'), nil
	}
	out, ok := vfPJAppend(b, m.ProtoReflect())
	if !ok {
		return nil, errVfJSON
	}
	return out, nil
}

// refJSONStringMember extracts the string member name from a (real or modelled) protojson object,
// tolerating the whitespace protojson inserts.
func refJSONStringMember(b []byte, name string) (string, bool) {
	probe := newFakeMsg(newFakeMD("vf.Probe", strField(name)))
	if vfPJUnmarshalLenient(b, probe) != nil {
		return "", false
	}
	v, ok := probe.vals[name]
	if !ok {
		return "", false
	}
	return v.String(), true
}

// vfPJUnmarshalLenient is the model parser used by oracles on both sides (never the real codec).
func vfPJUnmarshalLenient(b []byte, m proto.Message) error { return vfPJUnmarshalModel(b, m) }

func vfPJUnmarshalModel(b []byte, m proto.Message) error {
	p := &vfJSONParser{b: b}
	if !p.object(m.ProtoReflect()) {
		return errVfJSON
	}
	p.ws()
	if p.i != len(p.b) {
		return errVfJSON
	}
	return nil
}
