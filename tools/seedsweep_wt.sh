#!/bin/bash
# Like seedsweep.sh, but every seed runs on its own scratch worktree of /repo's HEAD (VERIF_REPO) with a
# scratch output directory (VERIF_DIR), P seeds at a time (default 3): /repo and /verif/evidence are not
# touched, so the sweep can run beside other work. Writes seeded/RESULTS.md (OUT=<file>); SEEDS=<glob> restricts the seeds.
cd /verif || exit 2
P=${P:-3}
tmp=$(mktemp -d /tmp/sweep-XXXX)
one() {
  d=$1; tmp=$2
  id=$(basename $d)
  [ -f $d/patch.diff ] || exit 0
  prop=$(python3 -c "import json;d=json.load(open('$d/meta.json'));print(d.get('check_property') or d['breaks_property'])")
  only=$(python3 -c "
import json,re
d=json.load(open('$d/meta.json')); h=(d.get('detected_by') or '').strip()
print(h if re.fullmatch(r'VerifH_[A-Za-z0-9_]+',h) else '')")
  if [ -n "$only" ] && [ -z "$FULL" ]; then
    res=$(ONLY=$only tools/seedtest_wt.sh $d/patch.diff $prop 2>&1)
    if ! echo "$res" | grep -q "exit="; then res=$(tools/seedtest_wt.sh $d/patch.diff $prop 2>&1); fi
  else
    res=$(tools/seedtest_wt.sh $d/patch.diff $prop 2>&1)
  fi
  code=$(echo "$res" | grep -o "exit=[0-9]" | tail -1)
  viol=$(echo "$res" | grep -m1 "harness=" | sed 's/^ *//' | cut -c1-160 | tr '|' '/')
  case "$code" in
    exit=1) r="caught";;
    exit=0) r="MISSED"; python3 -c "import json,sys;sys.exit(0 if json.load(open('$d/meta.json')).get('expected_missed') else 1)" && r="missed (expected: outside the technique's reach, see meta.json)";;
    "") r="patch does not apply / no result"; viol=$(echo "$res" | head -1 | cut -c1-120);;
    *) r="inconclusive ($code)";;
  esac
  echo "| $id | $prop | $r | $viol |" > $tmp/$id.row
}
export -f one
ls -d seeded/${SEEDS:-*}/ | xargs -P $P -I{} bash -c 'one {} '$tmp
out=${OUT:-seeded/RESULTS.md}
echo "# Seeded changes vs. the registered quick checks (repo $(git -C /repo log --format=%h -1), verif $(git log --format=%h -1))" > $out
echo >> $out
echo "Each seed is applied to a scratch worktree of /repo's HEAD (tools/seedsweep_wt.sh) and run through the quick check of the property it breaks, restricted to the harness recorded as catching it." >> $out
echo >> $out
echo "| seed | property | result | first violation reported |" >> $out
echo "|---|---|---|---|" >> $out
cat $tmp/*.row >> $out
echo >> $out
echo "caught: $(grep -c '| caught |' $out); not caught: $(grep -c 'MISSED\|inconclusive\|no result' $out); expected misses: $(grep -c 'missed (expected' $out)" >> $out
rm -rf $tmp
tail -1 $out
