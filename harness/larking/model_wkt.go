package larking

import (
	"encoding/base64"
	"unicode/utf8"

	"google.golang.org/protobuf/proto"
	"google.golang.org/protobuf/reflect/protoreflect"
	"google.golang.org/protobuf/types/known/durationpb"
	"google.golang.org/protobuf/types/known/fieldmaskpb"
	"google.golang.org/protobuf/types/known/timestamppb"
	"google.golang.org/protobuf/types/known/wrapperspb"
)

// Well-known-type parameters (wrappers, FieldMask, Duration, Timestamp). larking's parseParam builds
// them as REAL generated messages through protojson. Natively all of that runs for real. Under the
// engine (which cannot interpret protobuf-go's generated-message reflection):
//   - protojson.Unmarshal into one of these types is answered by vfWKTUnmarshal below, a model of
//     protojson's scalar forms (JSON strings with escapes, canonical JSON integers, true/false,
//     base64, lowerCamel field-mask paths, "<seconds>[.<fraction>]s" durations, UTC RFC 3339
//     timestamps). Texts outside the modelled forms return errVfJSON and the harnesses assert only
//     inside them; witness replays compare model and real codec on every run.
//   - (*T).ProtoReflect of these types is answered by vfWKTReflect: a fake message (real full name,
//     real field names / numbers / kinds) holding a snapshot of the struct's exported fields.

var vfWKTDescs = map[string]*fakeMD{}

func vfWKTMD(name string) *fakeMD {
	if md, ok := vfWKTDescs[name]; ok {
		return md
	}
	var md *fakeMD
	full := "google.protobuf." + name
	switch name {
	case "StringValue":
		md = newFakeMD(full, &fakeFD{name: "value", kind: protoreflect.StringKind})
	case "BytesValue":
		md = newFakeMD(full, &fakeFD{name: "value", kind: protoreflect.BytesKind})
	case "BoolValue":
		md = newFakeMD(full, &fakeFD{name: "value", kind: protoreflect.BoolKind})
	case "Int32Value":
		md = newFakeMD(full, &fakeFD{name: "value", kind: protoreflect.Int32Kind})
	case "Int64Value":
		md = newFakeMD(full, &fakeFD{name: "value", kind: protoreflect.Int64Kind})
	case "UInt32Value":
		md = newFakeMD(full, &fakeFD{name: "value", kind: protoreflect.Uint32Kind})
	case "UInt64Value":
		md = newFakeMD(full, &fakeFD{name: "value", kind: protoreflect.Uint64Kind})
	case "FieldMask":
		md = newFakeMD(full, &fakeFD{name: "paths", kind: protoreflect.StringKind, list: true})
	case "Duration", "Timestamp":
		md = newFakeMD(full, &fakeFD{name: "seconds", kind: protoreflect.Int64Kind}, &fakeFD{name: "nanos", kind: protoreflect.Int32Kind})
	default:
		vfFail("vfWKTMD: unknown well-known type " + name)
	}
	vfWKTDescs[name] = md
	return md
}

// vfWKTReflect: the engine's stand-in for (*T).ProtoReflect of the well-known types.
func vfWKTReflect(m proto.Message) protoreflect.Message {
	set := func(name string, v protoreflect.Value) *fakeMsg {
		md := vfWKTMD(name)
		fm := newFakeMsg(md)
		fm.Set(md.fields.list[0], v)
		return fm
	}
	switch x := m.(type) {
	case *wrapperspb.StringValue:
		return set("StringValue", protoreflect.ValueOfString(x.Value))
	case *wrapperspb.BytesValue:
		return set("BytesValue", protoreflect.ValueOfBytes(x.Value))
	case *wrapperspb.BoolValue:
		return set("BoolValue", protoreflect.ValueOfBool(x.Value))
	case *wrapperspb.Int32Value:
		return set("Int32Value", protoreflect.ValueOfInt32(x.Value))
	case *wrapperspb.Int64Value:
		return set("Int64Value", protoreflect.ValueOfInt64(x.Value))
	case *wrapperspb.UInt32Value:
		return set("UInt32Value", protoreflect.ValueOfUint32(x.Value))
	case *wrapperspb.UInt64Value:
		return set("UInt64Value", protoreflect.ValueOfUint64(x.Value))
	case *fieldmaskpb.FieldMask:
		md := vfWKTMD("FieldMask")
		fm := newFakeMsg(md)
		l := fm.Mutable(md.fields.list[0]).List()
		for _, p := range x.Paths {
			l.Append(protoreflect.ValueOfString(p))
		}
		return fm
	case *durationpb.Duration:
		md := vfWKTMD("Duration")
		fm := newFakeMsg(md)
		fm.Set(md.fields.list[0], protoreflect.ValueOfInt64(x.Seconds))
		fm.Set(md.fields.list[1], protoreflect.ValueOfInt32(x.Nanos))
		return fm
	case *timestamppb.Timestamp:
		md := vfWKTMD("Timestamp")
		fm := newFakeMsg(md)
		fm.Set(md.fields.list[0], protoreflect.ValueOfInt64(x.Seconds))
		fm.Set(md.fields.list[1], protoreflect.ValueOfInt32(x.Nanos))
		return fm
	}
	vfFail("vfWKTReflect: not a modelled well-known type")
	return nil
}

func vfJSONTrim(b []byte) []byte {
	for len(b) > 0 && (b[0] == ' ' || b[0] == '\t' || b[0] == '\n' || b[0] == '\r') {
		b = b[1:]
	}
	for len(b) > 0 && (b[len(b)-1] == ' ' || b[len(b)-1] == '\t' || b[len(b)-1] == '\n' || b[len(b)-1] == '\r') {
		b = b[:len(b)-1]
	}
	return b
}

func vfHexVal(c byte) int {
	switch {
	case c >= '0' && c <= '9':
		return int(c - '0')
	case c >= 'a' && c <= 'f':
		return int(c-'a') + 10
	case c >= 'A' && c <= 'F':
		return int(c-'A') + 10
	}
	return -1
}

// vfJSONString decodes one complete JSON string token (RFC 8259: the escapes \" \\ \/ \b \f \n \r \t
// \uXXXX incl. surrogate pairs; no raw control characters; valid UTF-8 as protojson demands).
func vfJSONString(b []byte) (string, bool) {
	if len(b) < 2 || b[0] != '"' || b[len(b)-1] != '"' {
		return "", false
	}
	in := b[1 : len(b)-1]
	var out []byte
	for i := 0; i < len(in); {
		c := in[i]
		switch {
		case c == '"' || c < 0x20:
			return "", false
		case c == '\\':
			if i+1 >= len(in) {
				return "", false
			}
			e := in[i+1]
			i += 2
			switch e {
			case '"', '\\', '/':
				out = append(out, e)
			case 'b':
				out = append(out, '\b')
			case 'f':
				out = append(out, '\f')
			case 'n':
				out = append(out, '\n')
			case 'r':
				out = append(out, '\r')
			case 't':
				out = append(out, '\t')
			case 'u':
				r, ok := vfHex4(in, i)
				if !ok {
					return "", false
				}
				i += 4
				if r >= 0xd800 && r < 0xdc00 {
					// high surrogate: a low one must follow
					if i+6 > len(in) || in[i] != '\\' || in[i+1] != 'u' {
						return "", false
					}
					r2, ok := vfHex4(in, i+2)
					if !ok || r2 < 0xdc00 || r2 >= 0xe000 {
						return "", false
					}
					i += 6
					r = 0x10000 + (r-0xd800)<<10 + (r2 - 0xdc00)
				} else if r >= 0xdc00 && r < 0xe000 {
					return "", false
				}
				out = utf8.AppendRune(out, r)
			default:
				return "", false
			}
		case c < utf8.RuneSelf:
			out = append(out, c)
			i++
		default:
			r, w := utf8.DecodeRune(in[i:])
			if r == utf8.RuneError && w <= 1 {
				return "", false
			}
			out = append(out, in[i:i+w]...)
			i += w
		}
	}
	return string(out), true
}

func vfHex4(in []byte, i int) (rune, bool) {
	if i+4 > len(in) {
		return 0, false
	}
	var r rune
	for k := 0; k < 4; k++ {
		h := vfHexVal(in[i+k])
		if h < 0 {
			return 0, false
		}
		r = r<<4 | rune(h)
	}
	return r, true
}

// vfJSONUint parses a canonical JSON integer without sign (no leading zeros), at most 20 digits,
// reporting overflow of uint64 as failure.
func vfJSONUint(b []byte) (uint64, bool) {
	if len(b) == 0 || len(b) > 20 || (len(b) > 1 && b[0] == '0') {
		return 0, false
	}
	var v uint64
	for _, c := range b {
		if c < '0' || c > '9' {
			return 0, false
		}
		d := uint64(c - '0')
		if v > (1<<64-1-d)/10 {
			return 0, false
		}
		v = v*10 + d
	}
	return v, true
}

// vfJSONIntRange: canonical JSON integer within [-negMax, posMax].
func vfJSONIntRange(b []byte, negMax, posMax uint64) (int64, bool) {
	neg := false
	if len(b) > 0 && b[0] == '-' {
		neg = true
		b = b[1:]
	}
	u, ok := vfJSONUint(b)
	if !ok {
		return 0, false
	}
	if neg {
		if u > negMax {
			return 0, false
		}
		return -int64(u), true
	}
	if u > posMax {
		return 0, false
	}
	return int64(u), true
}

func vfValidIdentPath(s string) bool {
	// protoreflect.FullName.IsValid: dot-separated identifiers [A-Za-z_][A-Za-z0-9_]*
	start := true
	if len(s) == 0 {
		return false
	}
	for i := 0; i < len(s); i++ {
		c := s[i]
		switch {
		case c == '.':
			if start {
				return false
			}
			start = true
			continue
		case c == '_' || (c >= 'a' && c <= 'z') || (c >= 'A' && c <= 'Z'):
		case c >= '0' && c <= '9':
			if start {
				return false
			}
		default:
			return false
		}
		start = false
	}
	return !start
}

// vfParseSecondsFrac: "[-]<digits>[.<1..9 digits>]" -> seconds, nanos (both carrying the sign).
func vfParseSecondsFrac(b []byte) (int64, int32, bool) {
	neg := false
	if len(b) > 0 && (b[0] == '-' || b[0] == '+') {
		neg = b[0] == '-'
		b = b[1:]
	}
	dot := -1
	for i, c := range b {
		if c == '.' {
			dot = i
			break
		}
	}
	ip, fp := b, []byte(nil)
	if dot >= 0 {
		ip, fp = b[:dot], b[dot+1:]
		if len(fp) == 0 || len(fp) > 9 {
			return 0, 0, false
		}
	}
	if len(ip) == 0 || len(ip) > 12 {
		return 0, 0, false
	}
	var secs int64
	for _, c := range ip {
		if c < '0' || c > '9' {
			return 0, 0, false
		}
		secs = secs*10 + int64(c-'0')
	}
	var nanos int32
	for k := 0; k < 9; k++ {
		nanos *= 10
		if k < len(fp) {
			if fp[k] < '0' || fp[k] > '9' {
				return 0, 0, false
			}
			nanos += int32(fp[k] - '0')
		}
	}
	if neg {
		secs, nanos = -secs, -nanos
	}
	return secs, nanos, true
}

func vfDaysFromCivil(y, m, d int64) int64 {
	if m <= 2 {
		y--
	}
	era := y / 400
	if y < 0 {
		era = (y - 399) / 400
	}
	yoe := y - era*400
	mp := (m + 9) % 12
	doy := (153*mp+2)/5 + d - 1
	doe := yoe*365 + yoe/4 - yoe/100 + doy
	return era*146097 + doe - 719468
}

func vfNum(b []byte) (int64, bool) {
	var v int64
	if len(b) == 0 {
		return 0, false
	}
	for _, c := range b {
		if c < '0' || c > '9' {
			return 0, false
		}
		v = v*10 + int64(c-'0')
	}
	return v, true
}

// vfParseTimestampUTC: "YYYY-MM-DDTHH:MM:SS[.f{1,9}]Z" (the UTC form of RFC 3339), years 0001..9999.
func vfParseTimestampUTC(s []byte) (int64, int32, bool) {
	if len(s) < 20 || s[4] != '-' || s[7] != '-' || s[10] != 'T' || s[13] != ':' || s[16] != ':' || s[len(s)-1] != 'Z' {
		return 0, 0, false
	}
	y, ok1 := vfNum(s[0:4])
	mo, ok2 := vfNum(s[5:7])
	d, ok3 := vfNum(s[8:10])
	h, ok4 := vfNum(s[11:13])
	mi, ok5 := vfNum(s[14:16])
	se, ok6 := vfNum(s[17:19])
	if !(ok1 && ok2 && ok3 && ok4 && ok5 && ok6) {
		return 0, 0, false
	}
	var nanos int32
	frac := s[19 : len(s)-1]
	if len(frac) > 0 {
		if frac[0] != '.' || len(frac) < 2 || len(frac) > 10 {
			return 0, 0, false
		}
		for k := 0; k < 9; k++ {
			nanos *= 10
			if 1+k < len(frac) {
				if frac[1+k] < '0' || frac[1+k] > '9' {
					return 0, 0, false
				}
				nanos += int32(frac[1+k] - '0')
			}
		}
	}
	mdays := []int64{31, 28, 31, 30, 31, 30, 31, 31, 30, 31, 30, 31}
	if y < 1 || mo < 1 || mo > 12 || h > 23 || mi > 59 || se > 59 {
		return 0, 0, false
	}
	md := mdays[mo-1]
	if mo == 2 && (y%4 == 0 && (y%100 != 0 || y%400 == 0)) {
		md = 29
	}
	if d < 1 || d > md {
		return 0, 0, false
	}
	return vfDaysFromCivil(y, mo, d)*86400 + h*3600 + mi*60 + se, nanos, true
}

// vfWKTUnmarshal: handled reports whether m is one of the modelled well-known types.
func vfWKTUnmarshal(b []byte, m proto.Message) (handled bool, err error) {
	t := vfJSONTrim(b)
	switch x := m.(type) {
	case *wrapperspb.StringValue:
		s, ok := vfJSONString(t)
		if !ok {
			return true, errVfJSON
		}
		x.Value = s
	case *wrapperspb.BytesValue:
		s, ok := vfJSONString(t)
		if !ok {
			return true, errVfJSON
		}
		enc := base64.StdEncoding
		for i := 0; i < len(s); i++ {
			if s[i] == '-' || s[i] == '_' {
				enc = base64.URLEncoding
			}
		}
		if len(s)%4 != 0 {
			enc = enc.WithPadding(base64.NoPadding)
		}
		v, derr := enc.DecodeString(s)
		if derr != nil {
			return true, errVfJSON
		}
		x.Value = v
	case *wrapperspb.BoolValue:
		switch string(t) {
		case "true":
			x.Value = true
		case "false":
			x.Value = false
		default:
			return true, errVfJSON
		}
	case *wrapperspb.Int32Value:
		v, ok := vfJSONIntRange(t, 1<<31, 1<<31-1)
		if !ok {
			return true, errVfJSON
		}
		x.Value = int32(v)
	case *wrapperspb.Int64Value:
		v, ok := vfJSONIntRange(t, 1<<63, 1<<63-1)
		if !ok {
			return true, errVfJSON
		}
		x.Value = v
	case *wrapperspb.UInt32Value:
		v, ok := vfJSONUint(t)
		if !ok || v > 1<<32-1 {
			return true, errVfJSON
		}
		x.Value = uint32(v)
	case *wrapperspb.UInt64Value:
		v, ok := vfJSONUint(t)
		if !ok {
			return true, errVfJSON
		}
		x.Value = v
	case *fieldmaskpb.FieldMask:
		s, ok := vfJSONString(t)
		if !ok {
			return true, errVfJSON
		}
		x.Paths = nil
		if s == "" {
			return true, nil
		}
		st := 0
		for i := 0; i <= len(s); i++ {
			if i < len(s) && s[i] != ',' {
				continue
			}
			p := s[st:i]
			st = i + 1
			if !vfValidIdentPath(p) {
				return true, errVfJSON
			}
			// lowerCamel -> snake_case; an underscore cannot round-trip and is refused
			var snake []byte
			for k := 0; k < len(p); k++ {
				c := p[k]
				switch {
				case c == '_':
					return true, errVfJSON
				case c >= 'A' && c <= 'Z':
					snake = append(snake, '_', c+'a'-'A')
				default:
					snake = append(snake, c)
				}
			}
			x.Paths = append(x.Paths, string(snake))
		}
	case *durationpb.Duration:
		s, ok := vfJSONString(t)
		if !ok || len(s) < 2 || s[len(s)-1] != 's' {
			return true, errVfJSON
		}
		secs, nanos, ok := vfParseSecondsFrac([]byte(s[:len(s)-1]))
		if !ok || secs > 315576000000 || secs < -315576000000 {
			return true, errVfJSON
		}
		x.Seconds, x.Nanos = secs, nanos
	case *timestamppb.Timestamp:
		s, ok := vfJSONString(t)
		if !ok {
			return true, errVfJSON
		}
		secs, nanos, ok := vfParseTimestampUTC([]byte(s))
		if !ok {
			return true, errVfJSON
		}
		x.Seconds, x.Nanos = secs, nanos
	default:
		return false, nil
	}
	return true, nil
}

// vfProtoMerge: proto.Merge over the protoreflect interface (the engine's stand-in when both
// messages are fakes): populated scalars overwrite, lists append, messages merge recursively.
func vfProtoMerge(dst, src proto.Message) {
	vfMergeReflect(dst.ProtoReflect(), src.ProtoReflect())
}

func vfMergeReflect(d, s protoreflect.Message) {
	s.Range(func(fd protoreflect.FieldDescriptor, v protoreflect.Value) bool {
		switch {
		case fd.IsList():
			dl := d.Mutable(fd).List()
			sl := v.List()
			for i := 0; i < sl.Len(); i++ {
				dl.Append(sl.Get(i))
			}
		case fd.IsMap():
			vfFail("vfProtoMerge: map fields are not modelled")
		case fd.Message() != nil:
			vfMergeReflect(d.Mutable(fd).Message(), v.Message())
		default:
			d.Set(fd, v)
		}
		return true
	})
}

func vfHexDigit(n byte) byte {
	if n < 10 {
		return '0' + n
	}
	return 'a' + n - 10
}

// vfJSONQuote: encoding/json's string encoding (appendString with HTML escaping, as json.Marshal
// uses it), transcribed so that the engine can run it on symbolic bytes: the engine's stand-in for
// json.Marshal(string); natively the real function runs.
func vfJSONQuote(s string) []byte {
	dst := []byte{'"'}
	for i := 0; i < len(s); {
		b := s[i]
		if b < utf8.RuneSelf {
			switch {
			case b == '\\' || b == '"':
				dst = append(dst, '\\', b)
			case b == '\b':
				dst = append(dst, '\\', 'b')
			case b == '\f':
				dst = append(dst, '\\', 'f')
			case b == '\n':
				dst = append(dst, '\\', 'n')
			case b == '\r':
				dst = append(dst, '\\', 'r')
			case b == '\t':
				dst = append(dst, '\\', 't')
			case b < 0x20 || b == '<' || b == '>' || b == '&':
				dst = append(dst, '\\', 'u', '0', '0', vfHexDigit(b>>4), vfHexDigit(b&0xf))
			default:
				dst = append(dst, b)
			}
			i++
			continue
		}
		c, size := utf8.DecodeRuneInString(s[i:])
		if c == utf8.RuneError && size == 1 {
			dst = append(dst, "\\ufffd"...)
			i += size
			continue
		}
		if c == '\u2028' || c == '\u2029' {
			dst = append(dst, '\\', 'u', '2', '0', '2', vfHexDigit(byte(c&0xf)))
			i += size
			continue
		}
		dst = append(dst, s[i:i+size]...)
		i += size
	}
	return append(dst, '"')
}

func schemaWKT() *fakeMD {
	w := func(field, tn string) *fakeFD {
		return &fakeFD{name: field, kind: protoreflect.MessageKind, msg: vfWKTMD(tn)}
	}
	return newFakeMD("vf.WReq",
		w("sv", "StringValue"), w("byv", "BytesValue"), w("bv", "BoolValue"),
		w("i32", "Int32Value"), w("i64", "Int64Value"), w("u32", "UInt32Value"), w("u64", "UInt64Value"),
		w("fm", "FieldMask"), w("du", "Duration"), w("ts", "Timestamp"),
	)
}

// vfWKTGet reads sub-field sub of the well-known message stored in field of msg through the
// protoreflect interface (natively a real generated message, under the engine the fake view).
func vfWKTGet(msg *fakeMsg, field, sub string) (protoreflect.Value, protoreflect.FieldDescriptor, bool) {
	fd := msg.md.fields.ByName(protoreflect.Name(field))
	if fd == nil || !msg.Has(fd) {
		return protoreflect.Value{}, nil, false
	}
	wm := msg.Get(fd).Message()
	sfd := wm.Descriptor().Fields().ByName(protoreflect.Name(sub))
	if sfd == nil {
		return protoreflect.Value{}, nil, false
	}
	return wm.Get(sfd), sfd, true
}
