package larking

import (
	"context"
	"net/http"

	"google.golang.org/protobuf/reflect/protoreflect"
)

func init() {
	vfHarnesses["VerifH_http_send"] = VerifH_http_send
}

// VerifH_http_send (C04, C06, C08): replies written by streamHTTP.SendMsg: unary replies within the
// send limit arrive whole under the negotiated content type, HttpBody replies as their raw data
// under their own content type, response_body selects the reply's field, server streams de-frame
// to exactly the handler's sequence.
func VerifH_http_send() {
	out := schemaOut()
	outSubFD := out.fields.list[1] // "sub"
	streaming := vfBool()
	json := false
	var framing StreamCodec = CodecProto{}
	if streaming && vfBool() {
		json = true
		framing = CodecJSON{}
	}
	useHTTPBody := !streaming && vfBool()
	useRespBody := !useHTTPBody && vfBool()
	sendLimit := vfInt(1, 6)
	rec := &fakeCodec{name: "fake"}
	w := &vfFlushSink{}
	hdr := http.Header{}
	m := &method{desc: &fakeMethod{full: "vf.S.M0", in: out, out: out, ss: streaming}, name: "/vf.S/M0"}
	if useRespBody {
		m.resp = []protoreflect.FieldDescriptor{outSubFD}
	}
	s := &streamHTTP{
		opts: muxOptions{
			maxSendMessageSize:    sendLimit,
			maxReceiveMessageSize: 64,
			codecs: map[string]Codec{
				"application/x":       fakeStreamCodec{rec, framing},
				"google.api.HttpBody": codecHTTPBody{},
			},
		},
		ctx:     context.Background(),
		method:  m,
		w:       w,
		wHeader: hdr,
		accept:  "application/x",
	}
	if useHTTPBody {
		hb := newFakeMsg(schemaHTTPBody())
		ct := vfAsciiString(1 + vfLen(2))
		data := vfBytes(vfLen(7))
		hb.vals["content_type"] = protoreflect.ValueOfString(ct)
		hb.vals["data"] = protoreflect.ValueOfBytes(data)
		s.method = &method{desc: &fakeMethod{full: "vf.S.Dl", in: out, out: hb.md}, name: "/vf.S/Dl"}
		// C18: with a stats handler, a sent HttpBody reply is one out-payload event like any other reply
		var st *fakeStats
		if vfBool() {
			st = &fakeStats{}
			s.opts.statsHandler = st
		}
		err := s.SendMsg(hb)
		if st != nil {
			if err == nil {
				vfCheck(len(st.outLen) == 1, "no out-payload stats event for an HttpBody reply that was sent")
				vfCover("httpbody-stats")
			} else {
				vfCheck(len(st.outLen) == 0, "out-payload stats event for an HttpBody reply that was refused")
			}
		}
		if len(data) <= sendLimit {
			vfCheck(err == nil, "HttpBody reply within the send limit was refused")
			vfCheck(vfBytesEq(w.buf, data), "HttpBody reply body differs from its data bytes")
			cts := hdr["Content-Type"]
			vfCheck(len(cts) == 1 && cts[0] == ct, "HttpBody reply not sent under its own content type")
			vfCover("httpbody")
		} else {
			vfCheck(err != nil && len(w.buf) == 0, "HttpBody reply larger than the send limit was sent")
			vfCover("httpbody-refused")
		}
		return
	}
	k := 1
	if streaming {
		k = 1 + vfLen(vfBound(1, 2))
	}
	var want [][]byte
	for i := 0; i < k; i++ {
		reply := newFakeMsg(out)
		var p []byte
		if json {
			p = vfJSONMessage()
		} else {
			p = vfBytes(vfLen(vfBound(4, 6)))
		}
		if useRespBody {
			sub := newFakeMsg(outSubFD.msg)
			sub.payload = p
			reply.subs["sub"] = sub
			reply.payload = []byte("WHOLE-REPLY")
		} else {
			reply.payload = p
		}
		err := s.SendMsg(reply)
		if !streaming {
			if len(p) <= sendLimit {
				vfCheck(err == nil, "unary reply within the send limit was refused")
				vfCheck(vfBytesEq(w.buf, p), "unary reply body differs from the marshalled reply")
				cts := hdr["Content-Type"]
				vfCheck(len(cts) == 1 && cts[0] == "application/x", "reply not labelled with the negotiated content type")
				vfCheck(w.flushes >= 1, "reply not flushed")
				vfCover("unary")
				if useRespBody {
					vfCover("response-body")
				}
			} else {
				vfCheck(err != nil && len(w.buf) == 0, "unary reply larger than the send limit was sent")
				vfCover("unary-refused")
			}
			return
		}
		vfCheck(err == nil, "stream reply refused")
		want = append(want, p)
	}
	// de-frame what the client sees
	off := 0
	for i, p := range want {
		if !json {
			vfCheck(off < len(w.buf) && int(w.buf[off]) == len(p), "stream frame prefix missing or wrong")
			off++
		}
		vfCheck(off+len(p) <= len(w.buf) && vfBytesEq(w.buf[off:off+len(p)], p), "stream frame payload differs from the handler's message")
		off += len(p)
		_ = i
	}
	vfCheck(off == len(w.buf), "extra bytes after the last stream frame")
	vfCheck(w.flushes >= k, "stream messages not flushed one by one")
	vfCover("stream")
}
