package larking

import (
	"context"
	"net/http"

	"google.golang.org/grpc/metadata"
)

func init() {
	vfHarnesses["VerifH_binhdr"] = VerifH_binhdr
	vfHarnesses["VerifH_outgoing"] = VerifH_outgoing
	vfHarnesses["VerifH_incoming"] = VerifH_incoming
}

// VerifH_binhdr (C14): '-bin' header values decode to the original bytes whether or not the base64
// text is padded (gRPC PROTOCOL-HTTP2: implementations must accept both), and encodeBinHeader
// produces text that decodes back.
func VerifH_binhdr() {
	n := vfLen(vfBound(4, 5))
	b := vfBytes(n)
	pad := vfBool()
	text := refBase64Encode(b, pad)
	s, err := decodeBinHeader(text)
	vfCheck(err == nil, "well-formed base64 '-bin' value rejected")
	vfCheck(s == string(b), "'-bin' value decoded to different bytes")
	if pad && n%3 != 0 {
		vfCover("padded")
	} else {
		vfCover("unpadded")
	}
	// outgoing direction: what larking emits decodes to the bytes
	enc := encodeBinHeader(b)
	vfCheck(enc == refBase64Encode(b, false) || enc == refBase64Encode(b, true), "encodeBinHeader is not base64 of the bytes")
}

var vfReservedResponseKeys = []string{"Content-Type", "Grpc-Status", "Grpc-Message", "Grpc-Encoding", "Grpc-Status-Details-Bin"}

func vfLowerASCII(s string) bool {
	for i := 0; i < len(s); i++ {
		if s[i] >= 'A' && s[i] <= 'Z' {
			return false
		}
	}
	return true
}

// VerifH_outgoing (C14): handler metadata written with setOutgoingHeader cannot replace a
// protocol-reserved response header; custom keys arrive with their values, '-bin' values base64.
func VerifH_outgoing() {
	h := http.Header{}
	for _, k := range vfReservedResponseKeys {
		h[k] = []string{"orig"}
	}
	var key string
	switch c := vfChoice(11); c {
	case 9:
		key = "grpc-previous-rpc-attempts" // starts with grpc- but is not one of the protocol's response keys
	case 10:
		key = "grpc-trace-bin"
	case 0:
		key = "content-type"
	case 1:
		key = "grpc-status"
	case 2:
		key = "grpc-message"
	case 3:
		key = "grpc-encoding"
	case 4:
		key = "grpc-status-details-bin"
	case 5:
		key = "x-custom"
	case 6:
		key = "x-data-bin"
	case 7:
		// a reserved name with one byte replaced by a symbolic lower-case byte
		base := []byte("grpc-status")
		i := vfChoice(len(base))
		base[i] = vfByte()
		key = string(base)
		vfAssume(base[i] < 0x80 && vfLowerASCII(key))
	default:
		key = vfAsciiString(1 + vfLen(3))
		vfAssume(vfLowerASCII(key))
	}
	val := vfString(vfLen(3))
	md := metadata.MD{key: []string{val, "second"}}
	setOutgoingHeader(h, md)
	for _, k := range vfReservedResponseKeys {
		vs := h[k]
		vfCheck(len(vs) == 1 && vs[0] == "orig", "handler metadata replaced a protocol-reserved response header")
	}
	switch key {
	case "x-custom":
		vs := h["X-Custom"]
		vfCheck(len(vs) == 2 && vs[0] == val && vs[1] == "second", "custom header values lost or reordered")
		vfCover("custom")
	case "x-data-bin":
		vs := h["X-Data-Bin"]
		vfCheck(len(vs) == 2 && vs[0] == refBase64Encode([]byte(val), false), "binary header value is not the base64 of the bytes")
		vfCover("custom-bin")
	case "grpc-status-details-bin":
		vfCover("details-bin")
	case "grpc-previous-rpc-attempts":
		vs := h["Grpc-Previous-Rpc-Attempts"]
		vfCheck(len(vs) == 2 && vs[0] == val && vs[1] == "second", "handler metadata under a non-protocol grpc- key did not reach the response headers")
		vfCover("grpc-prefixed-custom")
	case "grpc-trace-bin":
		vs := h["Grpc-Trace-Bin"]
		vfCheck(len(vs) == 2 && vs[0] == refBase64Encode([]byte(val), false), "binary handler metadata under a non-protocol grpc- key did not reach the response headers")
		vfCover("grpc-prefixed-custom")
	}
}

// VerifH_incoming (C14): request headers reach the handler as incoming metadata: lower-cased key,
// every value in order, '-bin' values decoded for padded and unpadded text; reserved request
// headers are not exposed (except the white-listed ones).
func VerifH_incoming() {
	h := http.Header{}
	v1 := vfString(vfLen(2))
	v2 := vfString(vfLen(2))
	raw := vfBytes(vfLen(vfBound(2, 4)))
	pad := vfBool()
	h["X-Custom"] = []string{v1, v2}
	h["X-Data-Bin"] = []string{refBase64Encode(raw, pad), refBase64Encode([]byte(v2), false)}
	h["Content-Type"] = []string{"application/grpc"}
	h["Grpc-Timeout"] = []string{"1S"}
	h["User-Agent"] = []string{"ua"}
	h["Grpc-Previous-Rpc-Attempts"] = []string{"3"} // grpc- prefix, not a protocol header
	h["Grpc-Trace-Bin"] = []string{refBase64Encode(raw, pad)}
	_, md := newIncomingContext(context.Background(), h)
	pa := md["grpc-previous-rpc-attempts"]
	vfCheck(len(pa) == 1 && pa[0] == "3", "a request header under a non-protocol grpc- key did not reach the metadata")
	tb := md["grpc-trace-bin"]
	vfCheck(len(tb) == 1 && tb[0] == string(raw), "a binary request header under a non-protocol grpc- key did not reach the metadata decoded")
	vs := md["x-custom"]
	vfCheck(len(vs) == 2 && vs[0] == v1 && vs[1] == v2, "custom request header did not reach the metadata intact")
	bs := md["x-data-bin"]
	vfCheck(len(bs) == 2, "binary request header lost values")
	vfCheck(bs[0] == string(raw), "'-bin' request header not decoded to the original bytes")
	vfCheck(bs[1] == v2, "'-bin' request header not decoded to the original bytes")
	_, hasCT := md["content-type"]
	_, hasTO := md["grpc-timeout"]
	vfCheck(!hasCT && !hasTO, "reserved request header exposed as metadata")
	ua := md["user-agent"]
	vfCheck(len(ua) == 1 && ua[0] == "ua", "white-listed header missing from metadata")
	if pad && len(raw)%3 != 0 {
		vfCover("padded")
	} else {
		vfCover("unpadded")
	}
}
