package larking

import "google.golang.org/genproto/googleapis/api/annotations"

func init() {
	vfHarnesses["VerifH_addRule_selectors"] = VerifH_addRule_selectors
	vfHarnesses["VerifH_addRule_collisions"] = VerifH_addRule_collisions
}

func vfFDNames(fds []interface{}) string { return "" }

// VerifH_addRule_selectors (C16, C04): body / response_body selectors are resolved in the request /
// reply type respectively; unresolvable selectors are rejected.
func VerifH_addRule_selectors() {
	in, out := schemaBody(), schemaOut()
	d := &fakeMethod{full: "vf.S.M0", in: in, out: out}
	root := newPath()
	var body, resp string
	switch vfChoice(5) {
	case 0:
		body = ""
	case 1:
		body = "*"
	case 2:
		body = "msg"
	case 3:
		body = "note"
	default:
		body = vfAsciiString(1 + vfLen(3))
	}
	switch vfChoice(4) {
	case 0:
		resp = ""
	case 1:
		resp = "sub"
	case 2:
		resp = "r"
	default:
		resp = vfAsciiString(1 + vfLen(2))
	}
	rule := vfHTTPRule("POST", "/aa")
	rule.Body = body
	rule.ResponseBody = resp
	err := root.addRule(rule, d, "/vf.S/M0")
	bodyOK := body == "" || body == "*" || body == "id" || body == "msg" || body == "note" || body == "msg.id"
	respOK := resp == "" || resp == "r" || resp == "sub" || resp == "sub.x"
	// dotted selectors through the nested message and JSON names equal proto names here
	if body == "msg.text" {
		bodyOK = true
	}
	if !bodyOK || !respOK {
		vfCheck(err != nil, "rule with an unresolvable body / response_body selector was accepted")
		vfCover("selector-rejected")
		return
	}
	vfCheck(err == nil, "rule with resolvable body and response_body selectors was rejected")
	m, _, merr := root.match("/aa", "POST")
	vfCheck(merr == nil, "accepted rule does not route")
	// body
	switch body {
	case "":
		vfCheck(!m.hasBody && len(m.body) == 0, "body=\"\" must mean no body")
	case "*":
		vfCheck(m.hasBody && len(m.body) == 0, "body=* must mean the whole message")
	default:
		vfCheck(m.hasBody && len(m.body) >= 1, "body field selector not recorded")
		last := m.body[len(m.body)-1]
		want := body
		if body == "msg.id" {
			want = "id"
		} else if body == "msg.text" {
			want = "text"
		}
		vfCheck(string(last.Name()) == want, "body selector resolved to a different field")
	}
	// response_body must be resolved in the REPLY type
	if resp == "" {
		vfCheck(len(m.resp) == 0, "empty response_body must select the whole reply")
		vfCover("resp-whole")
	} else {
		vfCheck(len(m.resp) >= 1, "response_body selector not recorded")
		last := m.resp[len(m.resp)-1]
		want := resp
		if resp == "sub.x" {
			want = "x"
		}
		vfCheck(string(last.Name()) == want, "response_body selector resolved to a different field")
		first := m.resp[0].(*fakeFD)
		vfCheck(first.parent == out, "response_body selector resolved against the request type instead of the reply type")
		vfCover("resp-field")
	}
}

// VerifH_addRule_collisions (C16, C09): re-declared and colliding bindings never panic; same-verb
// collisions between methods and nested additional bindings are rejected; valid additional
// bindings are accepted and route.
func VerifH_addRule_collisions() {
	in := schemaRoute()
	out := newFakeMD("vf.Resp", strField("r"))
	d0 := &fakeMethod{full: "vf.S.M0", in: in, out: out}
	d1 := &fakeMethod{full: "vf.S.M1", in: in, out: out}
	root := newPath()
	implicit := vfHTTPRule("*", "/vf.S/M0")
	implicit.Body = "*"
	vfCheck(root.addRule(implicit, d0, "/vf.S/M0") == nil, "implicit rule rejected")
	switch vfChoice(8) {
	case 7: // another service's method with the same short name claims the same verb and path
		dT := &fakeMethod{full: "vf.T.M0", in: in, out: out}
		vfCheck(root.addRule(vfHTTPRule("GET", "/aa/{f}"), d0, "/vf.S/M0") == nil, "setup")
		err := root.addRule(vfHTTPRule("GET", "/aa/{g}"), dT, "/vf.T/M0")
		vfCheck(err != nil, "two methods of different services (same short name) were bound to the same verb and path")
		vfCover("same-short-name-conflict")
	case 0: // the same method declares its implicit path again (second backend for the service)
		err := root.addRule(implicit, d0, "/vf.S/M0")
		vfCheck(err == nil, "re-declaring a method's own implicit binding must be accepted")
		vfCover("redeclare-implicit")
	case 1: // the same method adds a specific verb on its implicit path
		err := root.addRule(vfHTTPRule("GET", "/vf.S/M0"), d0, "/vf.S/M0")
		vfCheck(err == nil, "a method's additional verb on its own path must be accepted")
		vfCover("own-path-verb")
	case 2: // another method claims a specific verb on a path that another method holds with kind *:
		// the kind-* binding covers that verb, so this is a conflict (the reverse order - a kind-*
		// binding added where another method holds one verb - is left unspecified)
		err := root.addRule(vfHTTPRule("GET", "/vf.S/M0"), d1, "/vf.S/M1")
		vfCheck(err != nil, "a method was bound to a verb on a path that another method already holds with kind *")
		m, _, merr := root.match("/vf.S/M0", "GET")
		vfCheck(merr == nil && m.name == "/vf.S/M0", "a rejected binding took over a verb of an existing kind-* route")
		vfCover("star-vs-verb")
	case 3: // same verb, same path, other method
		vfCheck(root.addRule(vfHTTPRule("GET", "/aa/{f}"), d0, "/vf.S/M0") == nil, "setup")
		err := root.addRule(vfHTTPRule("GET", "/aa/{g}"), d1, "/vf.S/M1")
		vfCheck(err != nil, "two methods were bound to the same verb and path")
		vfCover("same-verb-conflict")
	case 4: // nested additional bindings
		r := vfHTTPRule("GET", "/aa")
		inner := vfHTTPRule("GET", "/bb")
		inner.AdditionalBindings = []*annotations.HttpRule{vfHTTPRule("GET", "/cc")}
		r.AdditionalBindings = []*annotations.HttpRule{inner}
		vfCheck(root.addRule(r, d0, "/vf.S/M0") != nil, "nested additional bindings were accepted")
		vfCover("nested-bindings")
	case 5: // valid additional bindings route
		r := vfHTTPRule("GET", "/aa/{f}")
		r.AdditionalBindings = []*annotations.HttpRule{vfHTTPRule("POST", "/bb/{g}"), vfHTTPRule("GET", "/cc")}
		vfCheck(root.addRule(r, d0, "/vf.S/M0") == nil, "valid additional bindings rejected")
		m, _, err := root.match("/bb/x", "POST")
		vfCheck(err == nil && m.name == "/vf.S/M0", "additional binding does not route")
		m, _, err = root.match("/cc", "GET")
		vfCheck(err == nil && m.name == "/vf.S/M0", "additional binding does not route")
		vfCover("additional-bindings")
	default: // kind-* binding of another method on the same path
		err := root.addRule(vfHTTPRule("*", "/vf.S/M0"), d1, "/vf.S/M1")
		vfCheck(err != nil, "two methods were bound with kind * to the same path")
		vfCover("star-star-conflict")
	}
}
