package larking

import (
	"net/http"
	"net/url"

	"google.golang.org/grpc"
)

func init() {
	vfHarnesses["VerifH_serveHTTP_clientstream"] = VerifH_serveHTTP_clientstream
}

// VerifH_serveHTTP_clientstream (C06, C03): a client-streaming method over plain HTTP through
// ServeHTTP: POST with a body of k length-delimited (or JSON) messages whose length the server
// knows (Content-Length), does not know (-1: HTTP/2 without content-length, an opaque reader) or
// learns chunk by chunk (Transfer-Encoding: chunked): the handler receives exactly the k messages in
// order - the first carrying the path parameter - followed by a clean end of stream.
func VerifH_serveHTTP_clientstream() {
	in := schemaRoute()
	out := newFakeMD("vf.Resp", strField("r"))
	rule := vfHTTPRule("POST", "/up/{f}")
	rule.Body = "*"
	md := &fakeMethod{full: "vf.S.Up", in: in, out: out, cs: true, opts: &fakeOpts{rule: rule}}
	svc := &fakeSvc{full: "vf.S", methods: &fakeMethodList{list: []*fakeMethod{md}}}
	rec := &fakeCodec{name: "fake"}
	var framing StreamCodec = CodecProto{}
	jsonFraming := vfBool()
	if jsonFraming {
		framing = CodecJSON{}
	}
	// a user-supplied codec need not be a StreamCodec: a streaming call under its content type is
	// then an error, not a crash (C09)
	plainCodec := vfBool()
	var codec Codec = fakeStreamCodec{rec, framing}
	if plainCodec {
		codec = rec
	}
	mux, err := NewMux(FilesOption(vfRegistry(svc)), CodecOption("application/x", codec))
	if err != nil {
		vfFail("NewMux failed")
	}
	srv := &vfStreamSrv{in: in}
	rp := newFakeMsg(out)
	rp.payload = []byte("REPLY")
	srv.replies = []*fakeMsg{rp}
	sd := &grpc.ServiceDesc{ServiceName: "vf.S", Streams: []grpc.StreamDesc{{StreamName: "Up", Handler: vfStreamHandler, ClientStreams: true}}}
	if err := mux.registerService(sd, srv); err != nil {
		vfFail("registerService failed: " + err.Error())
	}
	k := 1 + vfLen(2)
	sink := &vfSink{}
	var msgs [][]byte
	for i := 0; i < k; i++ {
		var m []byte
		if jsonFraming {
			m = vfJSONMessage()
		} else {
			m = vfBytes(1 + vfLen(1))
		}
		msgs = append(msgs, m)
		framing.WriteNext(sink, m)
	}
	body := sink.buf
	r := &http.Request{Method: "POST", URL: &url.URL{Path: "/up/zz"},
		Header: http.Header{"Content-Type": []string{"application/x"}, "Accept": []string{"application/x"}},
		Body:   vfNopCloser{&vfWholeReader{data: body}}, ContentLength: int64(len(body)), ProtoMajor: 1, ProtoMinor: 1}
	switch vfChoice(3) {
	case 1:
		r.ContentLength = -1 // HTTP/2 upload without content-length, or an in-memory request
		r.ProtoMajor, r.ProtoMinor = 2, 0
		vfCover("unknown-length")
	case 2:
		r.ContentLength = -1
		r.TransferEncoding = []string{"chunked"}
		vfCover("chunked")
	default:
		vfCover("content-length")
	}
	w := newFakeRW()
	mux.ServeHTTP(w, r)
	if plainCodec {
		vfCheck(w.committed && len(srv.got) == 0, "a streaming call under a codec without stream framing delivered messages")
		vfCover("codec-without-streaming")
		return
	}
	vfCheck(w.committed && w.status == 200, "a well-formed client-streaming upload was not answered 200")
	vfCheck(srv.calls == 1, "stream handler not invoked exactly once")
	vfCheck(len(srv.got) == k, "the handler did not receive exactly the client's messages")
	for i := 0; i < k && i < len(srv.got); i++ {
		vfCheck(vfBytesEq(srv.got[i], msgs[i]), "a message reached the handler altered or out of order")
	}
	vfCheck(srv.recvErr != nil && srv.recvErr.Error() == "EOF", "the message sequence was not followed by a clean end of stream")
	vfCheck(vfBytesEq(w.body, []byte("REPLY")), "the reply did not reach the client")
}

func init() {
	vfHarnesses["VerifH_serveHTTP_serverstream"] = VerifH_serveHTTP_serverstream
}

// VerifH_serveHTTP_serverstream (C06): a server-streaming method over plain HTTP through ServeHTTP:
// the handler sends j replies (symbolic bytes, empty ones included) and then succeeds or fails; the
// response body is exactly the j replies in the codec's stream framing, in order, nothing after them
// that could be mistaken for a message when the handler succeeded.
func VerifH_serveHTTP_serverstream() {
	in := schemaRoute()
	out := newFakeMD("vf.Resp", strField("r"))
	rule := vfHTTPRule("GET", "/dn/{f}")
	md := &fakeMethod{full: "vf.S.Dn", in: in, out: out, ss: true, opts: &fakeOpts{rule: rule}}
	svc := &fakeSvc{full: "vf.S", methods: &fakeMethodList{list: []*fakeMethod{md}}}
	rec := &fakeCodec{name: "fake"}
	plainCodec := vfBool() // a codec without stream framing: the call fails, the server does not crash
	var codec Codec = fakeStreamCodec{rec, CodecProto{}}
	if plainCodec {
		codec = rec
	}
	mux, err := NewMux(FilesOption(vfRegistry(svc)), CodecOption("application/x", codec))
	if err != nil {
		vfFail("NewMux failed")
	}
	srv := &vfStreamSrv{in: in}
	j := vfLen(2)
	var want []byte
	sink := &vfSink{}
	for i := 0; i < j; i++ {
		rp := newFakeMsg(out)
		rp.payload = vfBytes(vfLen(2))
		srv.replies = append(srv.replies, rp)
		CodecProto{}.WriteNext(sink, rp.payload)
	}
	want = sink.buf
	sd := &grpc.ServiceDesc{ServiceName: "vf.S", Streams: []grpc.StreamDesc{{StreamName: "Dn", Handler: vfStreamHandler, ServerStreams: true}}}
	if err := mux.registerService(sd, srv); err != nil {
		vfFail("registerService failed: " + err.Error())
	}
	r := &http.Request{Method: "GET", URL: &url.URL{Path: "/dn/zz"},
		Header: http.Header{"Accept": []string{"application/x"}}, Body: vfNopCloser{&vfWholeReader{}}, ProtoMajor: 1, ProtoMinor: 1}
	w := newFakeRW()
	mux.ServeHTTP(w, r)
	w.finish()
	if plainCodec {
		vfCheck(w.committed, "no response was produced")
		vfCover("codec-without-streaming")
		return
	}
	vfCheck(srv.calls == 1, "stream handler not invoked exactly once")
	vfCheck(len(srv.got) == 1, "the handler of a server-streaming call did not receive exactly one request message")
	vfCheck(w.status == 200, "a successful server-streaming call was not answered 200")
	vfCheck(vfBytesEq(w.body, want), "the response body is not exactly the handler's replies in stream framing, in order")
	if j == 2 {
		vfCover("two-replies")
	}
	if j == 0 {
		vfCover("no-reply")
	}
}
