package sym

import (
	"crypto/sha1"
	"go/types"

	"golang.org/x/tools/go/ssa"
)

// Stubs of descriptor discovery for the registration harness (DESIGN §2.7): what a backend's
// reflection service describes is outside the claim; the bookkeeping around it is real.
func init() {
	harnessAPI["vfFileBytes"] = func(m *Machine, args []Value) Value {
		return m.strToBytes(args[0].(Str))
	}
	// proto.Unmarshal(b, *descriptorpb.FileDescriptorProto): the opaque bytes are the file name.
	reg("google.golang.org/protobuf/proto.Unmarshal", func(m *Machine, fn *ssa.Function, args []Value) Value {
		target := args[1].(Iface)
		if target.T == nil || target.T.String() != "*google.golang.org/protobuf/types/descriptorpb.FileDescriptorProto" {
			m.unsupported("proto.Unmarshal into " + m.show(target))
		}
		st := target.T.Underlying().(*types.Pointer).Elem().Underlying().(*types.Struct)
		cell := target.V.(*Value)
		s := (*cell).(Struct)
		for i := 0; i < st.NumFields(); i++ {
			if st.Field(i).Name() == "Name" {
				np := new(Value)
				*np = m.bytesToStr(args[0].(Slice))
				m.set(&s[i], np)
			}
		}
		return Iface{}
	})
	// protodesc.NewFile(fd, resolver): the harness's fake descriptors for that file name.
	reg("google.golang.org/protobuf/reflect/protodesc.NewFile", func(m *Machine, fn *ssa.Function, args []Value) Value {
		get := m.methodOf(types.NewPointer(m.Prog.Package("google.golang.org/protobuf/types/descriptorpb").Type("FileDescriptorProto").Type()), "GetName")
		name := m.callFn(get, []Value{args[0]}, nil)
		f := m.Prog.Func("vfFakeFileByName")
		if f == nil {
			m.unsupported("vfFakeFileByName not defined by the harness")
		}
		fd := m.callFn(f, []Value{name}, nil).(Iface)
		if fd.T == nil {
			return Tuple{fd, m.newError(Str{S: "verif: unknown file"}, Iface{})}
		}
		return Tuple{fd, Iface{}}
	})
	reg("crypto/sha256.New", func(m *Machine, fn *ssa.Function, args []Value) Value {
		f := m.Prog.Func("vfNewHash")
		if f == nil {
			m.unsupported("vfNewHash not defined by the harness")
		}
		return m.callFn(f, nil, nil)
	})
	// The reflection client of a backend connection: (*serverReflectionClient).ServerReflectionInfo
	// would open a stream on grpc-go's client transport; the harness supplies the conversation
	// (vfReflClientFor). Natively the harness dials a real in-process backend instead.
	reg("(*google.golang.org/grpc/reflection/grpc_reflection_v1alpha.serverReflectionClient).ServerReflectionInfo", func(m *Machine, fn *ssa.Function, args []Value) Value {
		f := m.Prog.Func("vfReflClientFor")
		if f == nil {
			m.unsupported("vfReflClientFor not defined by the harness")
		}
		st := (*args[0].(*Value)).(Struct)
		return Tuple{m.callFn(f, []Value{st[0]}, nil), Iface{}}
	})
	// Calls on a backend connection (the proxy handlers): grpc-go's client transport is replaced by
	// the harness's in-memory backend (vfConnInvoke / vfConnNewStream); natively the harness dials a
	// real in-process gRPC server and these run for real.
	reg("(*google.golang.org/grpc.ClientConn).Invoke", func(m *Machine, fn *ssa.Function, args []Value) Value {
		f := m.Prog.Func("vfConnInvoke")
		if f == nil {
			m.unsupported("(*grpc.ClientConn).Invoke: vfConnInvoke not defined by the harness")
		}
		return m.callFn(f, args[:5], nil)
	})
	reg("(*google.golang.org/grpc.ClientConn).NewStream", func(m *Machine, fn *ssa.Function, args []Value) Value {
		f := m.Prog.Func("vfConnNewStream")
		if f == nil {
			m.unsupported("(*grpc.ClientConn).NewStream: vfConnNewStream not defined by the harness")
		}
		return m.callFn(f, args[:4], nil)
	})
	// vfBackendConn(id): under the engine a connection is just an identity
	harnessAPI["vfBackendConn"] = func(m *Machine, args []Value) Value {
		f := m.Prog.Func("vfBackendConnFake")
		if f == nil {
			m.unsupported("vfBackendConnFake not defined by the harness")
		}
		return m.callFn(f, args, nil)
	}
	harnessAPI["vfBackendSetSpecs"] = func(m *Machine, args []Value) Value {
		f := m.Prog.Func("vfBackendSetSpecsFake")
		if f == nil {
			m.unsupported("vfBackendSetSpecsFake not defined by the harness")
		}
		return m.callFn(f, args, nil)
	}
	// larking.newResolver registers the real google.api descriptor files (protobuf-go globals): skipped.
	reg("larking.io/larking.newResolver", func(m *Machine, fn *ssa.Function, args []Value) Value {
		rt := fn.Signature.Results().At(0).Type()
		cell := new(Value)
		st := m.zero(deref(rt)).(Struct)
		st[0] = args[0]
		*cell = st
		return Tuple{cell, Iface{}}
	})
}

func init() {
	// gobwas/ws zero-copy conversions (unsafe): modelled as ordinary conversions.
	reg("github.com/gobwas/ws.strToBytes", func(m *Machine, fn *ssa.Function, args []Value) Value {
		return m.strToBytes(args[0].(Str))
	})
	reg("github.com/gobwas/ws.btsToString", func(m *Machine, fn *ssa.Function, args []Value) Value {
		s, _ := args[0].(Slice)
		return m.bytesToStr(s)
	})
}

func init() {
	// crypto/sha1.Sum on concrete bytes (WebSocket accept key): computed natively.
	reg("crypto/sha1.Sum", func(m *Machine, fn *ssa.Function, args []Value) Value {
		s, _ := args[0].(Slice)
		buf := make([]byte, len(s))
		for i, v := range s {
			t := m.asTerm(v)
			if !t.IsConst() {
				m.unsupported("sha1.Sum of symbolic bytes")
			}
			buf[i] = byte(t.Val)
		}
		sum := sha1.Sum(buf)
		out := make(Array, len(sum))
		for i, b := range sum {
			out[i] = m.C.BV(8, uint64(b))
		}
		return out
	})
}

func init() {
	// protojson: redirected to the harness's model (model_protojson.go). Natively the real codec runs.
	call := func(m *Machine, name string, args ...Value) Value {
		f := m.Prog.Func(name)
		if f == nil {
			m.unsupported(name + " not defined by the harness")
		}
		return m.callFn(f, args, nil)
	}
	pj := "google.golang.org/protobuf/encoding/protojson"
	reg(pj+".Unmarshal", func(m *Machine, fn *ssa.Function, args []Value) Value {
		return call(m, "vfPJUnmarshal", args[0], args[1])
	})
	reg("("+pj+".UnmarshalOptions).Unmarshal", func(m *Machine, fn *ssa.Function, args []Value) Value {
		return call(m, "vfPJUnmarshal", args[1], args[2])
	})
	reg(pj+".Marshal", func(m *Machine, fn *ssa.Function, args []Value) Value {
		return call(m, "vfPJMarshalAppend", Slice(nil), args[0])
	})
	reg("("+pj+".MarshalOptions).Marshal", func(m *Machine, fn *ssa.Function, args []Value) Value {
		return call(m, "vfPJMarshalAppend", Slice(nil), args[1])
	})
	reg("("+pj+".MarshalOptions).MarshalAppend", func(m *Machine, fn *ssa.Function, args []Value) Value {
		return call(m, "vfPJMarshalAppend", args[1], args[2])
	})
	// well-known types built by larking's parseParam: ProtoReflect of the real generated message is
	// answered by the harness's fake view (model_wkt.go); natively the real reflection runs.
	known := "google.golang.org/protobuf/types/known/"
	for _, tn := range []string{"wrapperspb.StringValue", "wrapperspb.BytesValue", "wrapperspb.BoolValue", "wrapperspb.Int32Value", "wrapperspb.Int64Value",
		"wrapperspb.UInt32Value", "wrapperspb.UInt64Value", "fieldmaskpb.FieldMask", "durationpb.Duration", "timestamppb.Timestamp"} {
		reg("(*"+known+tn+").ProtoReflect", func(m *Machine, fn *ssa.Function, args []Value) Value {
			rt := fn.Signature.Recv().Type()
			return call(m, "vfWKTReflect", Iface{T: rt, V: args[0]})
		})
	}
}
