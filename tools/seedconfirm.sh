#!/bin/bash
# usage: seedconfirm.sh <dir with patch.diff + demo_test.go[.txt]> : confirms a seeded change against /repo's HEAD
# in a scratch worktree (suite passes with it, demo fails with it, demo passes without it); prints one line, stores nothing.
src=$(readlink -f $1)
export GOFLAGS=-mod=mod GOPROXY=off GOSUMDB=off GOTOOLCHAIN=local
wt=$(mktemp -d /tmp/wt-confirm-XXXX); rmdir $wt
git -C /repo worktree add -q $wt HEAD || exit 2
trap 'cd /; git -C /repo worktree remove --force $wt' EXIT
cd $wt
git apply $src/patch.diff || { echo "$(basename $src): patch does not apply"; exit 2; }
suitefail=$(go test -vet=off -count=1 ./... 2>&1 | grep -c "^FAIL\|^---")
demo=$src/demo_test.go; [ -f $demo ] || demo=$src/demo_test.go.txt
cp $demo larking/zz_seed_demo_test.go
with=$(cd larking && go test -vet=off -count=1 -run 'TestSeedDemo' . 2>&1 | tail -1)
git checkout -q -- .
without=$(cd larking && go test -vet=off -count=1 -run 'TestSeedDemo' . 2>&1 | tail -1)
rm -f larking/zz_seed_demo_test.go
echo "$(basename $src): suite_fail=$suitefail with=[$with] without=[$without]"
