package larking

func init() {
	vfHarnesses["VerifH_addRule_sym"] = VerifH_addRule_sym
	vfHarnesses["VerifH_addRule_mut"] = VerifH_addRule_mut
}

// vfBaseTemplates: valid templates (as token lists) covering every construct of the grammar:
// single-character, dotted and hyphenated literals, nested field paths, multi-segment variable
// patterns, '**', verbs (also dotted).
var vfBaseTemplates = [][]string{
	{"/", "aa", "/", "{", "f", "}"},
	{"/", "aa", "/", "{", "f", "=", "bb", "/", "*", "}", ":", "vv"},
	{"/", "{", "h", ".", "k", "}", "/", "bb"},
	{"/", "aa", "/", "{", "f", "=", "bb", "/", "**", "}"},
	{"/", "{", "f", "=", "aa", "/", "*", "/", "bb", "}", "/", "{", "g", "}"},
	{"/", "aa", "/", "**"},
	{"/", "a", "/", "b.c", "/", "d-e_f", ":", "x.y"},
	{"/", "v1", "/", "{", "f", "=", "msgs", "/", "*", "}", "/", "{", "h", ".", "c", "}", ":", "get"},
}

var vfReplacements = []string{"", "*", "**", "aa", "{g}", "{", "}", "=", ".", ":", "/", "{h.k}", "1", "f", "x.y", "{g=*}"}

// VerifH_addRule_mut (C16, C09): every single-token substitution / insertion applied to the base
// templates (single-edit mutations of valid templates, incl. multi-character tokens such as a
// whole variable), registered with the real addRule and compared with the reference grammar.
func VerifH_addRule_mut() {
	in := schemaRoute()
	out := newFakeMD("vf.Resp", strField("r"))
	d0 := &fakeMethod{full: "vf.S.M0", in: in, out: out}
	d1 := &fakeMethod{full: "vf.S.M1", in: in, out: out}
	root := newPath()
	pre := vfBool()
	if pre {
		if err := root.addRule(vfHTTPRule("GET", "/aa/{g}"), d1, "/vf.S/M1"); err != nil {
			vfFail("setup rule rejected")
		}
	}
	base := vfBaseTemplates[vfChoice(len(vfBaseTemplates))]
	i := vfChoice(len(base) + 1)
	rep := vfReplacements[vfChoice(len(vfReplacements))]
	insert := vfBool()
	tmpl := ""
	for j, tok := range base {
		if j == i {
			tmpl += rep
			if !insert {
				continue
			}
		}
		tmpl += tok
	}
	if i == len(base) {
		tmpl += rep
	}
	vfCheckAddRule(root, d0, tmpl, pre)
}

func vfFieldResolves(f string) bool {
	return f == "f" || f == "g" || f == "h.k" || f == "h.c" || f == "i"
}

// VerifH_addRule_sym (C16, C09): the real lexTemplate + addRule on a fully symbolic template,
// onto an empty or a pre-populated trie, against the reference grammar.
func VerifH_addRule_sym() {
	in := schemaRoute()
	out := newFakeMD("vf.Resp", strField("r"))
	d0 := &fakeMethod{full: "vf.S.M0", in: in, out: out}
	d1 := &fakeMethod{full: "vf.S.M1", in: in, out: out}
	root := newPath()
	pre := vfBool()
	if pre {
		if err := root.addRule(vfHTTPRule("GET", "/aa/{g}"), d1, "/vf.S/M1"); err != nil {
			vfFail("setup rule rejected")
		}
	}
	tmpl := vfAsciiString(vfLen(vfBound(8, 10)))
	vfCheckAddRule(root, d0, tmpl, pre)
}

// vfCheckAddRule registers tmpl for method d0 and compares the outcome with the reference grammar.
func vfCheckAddRule(root *path, d0 *fakeMethod, tmpl string, pre bool) {
	err := root.addRule(vfHTTPRule("GET", tmpl), d0, "/vf.S/M0")
	t, st := refParseTemplate(tmpl)
	switch st {
	case refInvalid:
		vfCheck(err != nil, "template that is not derivable from the documented grammar was accepted")
		vfCover("invalid-rejected")
	case refUnspecified:
		vfCover("unspecified")
	default:
		resolves, msgField := true, false
		for _, v := range t.vars {
			if v.field == "h" {
				msgField = true // binds a message-typed field: resolvable but unusable; unspecified
			} else if !vfFieldResolves(v.field) {
				resolves = false
			}
		}
		// same trie node as the pre-registered GET /aa/{g}: top-level literal "aa", then one bare '*' or a
		// variable with pattern "*" (a variable spanning "aa/*" lives on a different node)
		tl := refTopLevel(t)
		conflict := pre && t.verb == "" && len(tl) == 2 && !tl[0].isVar && tl[0].item.kind == itLit && tl[0].item.lit == "aa" &&
			((tl[1].isVar && tl[1].pat == "*") || (!tl[1].isVar && tl[1].item.kind == itStar))
		switch {
		case msgField:
			vfCover("message-field")
		case !resolves:
			vfCheck(err != nil, "template with an unknown field path was accepted")
			vfCover("unknown-field")
		case conflict:
			vfCheck(err != nil, "binding that collides with another method's was accepted")
			vfCover("conflict")
		default:
			vfCheck(err == nil, "well-formed template with resolvable field paths was rejected")
			vfCover("valid-accepted")
			if len(t.vars) > 0 {
				vfCover("valid-with-variable")
			}
		}
	}
	if pre && err != nil {
		m, _, e := root.match("/aa/zz", "GET")
		vfCheck(e == nil && m.name == "/vf.S/M1", "a rejected rule damaged a previously registered route")
		vfCover("old-route-intact")
	}
}
