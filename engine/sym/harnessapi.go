package sym

import (
	"fmt"
)

// harnessAPI: functions named vf* of the package under test are intercepted by the engine.
// Natively (replay) the same names read a tape; see /verif/harness/larking/api.go.
var harnessAPI = map[string]func(m *Machine, args []Value) Value{}

func init() {
	harnessAPI["vfByte"] = func(m *Machine, args []Value) Value {
		t := m.fresh("b", 8)
		m.draws = append(m.draws, Draw{Kind: "byte", Terms: []*Term{t}})
		return t
	}
	symBytes := func(m *Machine, n int, kind string) []*Term {
		if n < 0 || n > 4096 {
			m.abort("budget", fmt.Sprintf("nondet length %d out of engine range", n))
		}
		ts := make([]*Term, n)
		for i := range ts {
			ts[i] = m.fresh("s", 8)
		}
		m.draws = append(m.draws, Draw{Kind: kind, Terms: ts, N: n})
		return ts
	}
	harnessAPI["vfBytes"] = func(m *Machine, args []Value) Value {
		ts := symBytes(m, m.ConcInt(args[0]), "bytes")
		out := make(Slice, len(ts))
		for i, t := range ts {
			out[i] = t
		}
		return out
	}
	harnessAPI["vfString"] = func(m *Machine, args []Value) Value {
		ts := symBytes(m, m.ConcInt(args[0]), "string")
		if len(ts) == 0 {
			return Str{}
		}
		return Str{B: ts}
	}
	harnessAPI["vfU32"] = func(m *Machine, args []Value) Value {
		t := m.fresh("u", 32)
		m.draws = append(m.draws, Draw{Kind: "u32", Terms: []*Term{t}})
		return t
	}
	harnessAPI["vfU64"] = func(m *Machine, args []Value) Value {
		t := m.fresh("q", 64)
		m.draws = append(m.draws, Draw{Kind: "u64", Terms: []*Term{t}})
		return t
	}
	harnessAPI["vfInt"] = func(m *Machine, args []Value) Value {
		lo, hi := m.ConcInt(args[0]), m.ConcInt(args[1])
		if lo > hi {
			m.abort("assume-false", "empty vfInt range")
		}
		if lo == hi {
			m.draws = append(m.draws, Draw{Kind: "len", Conc: int64(lo)})
			return m.i64(lo)
		}
		t := m.fresh("i", 64)
		m.draws = append(m.draws, Draw{Kind: "int", Terms: []*Term{t}})
		m.assertPC(m.C.And(m.C.Cmp(OpSle, m.i64(lo), t), m.C.Cmp(OpSle, t, m.i64(hi))))
		return t
	}
	harnessAPI["vfLen"] = func(m *Machine, args []Value) Value {
		mx := m.ConcInt(args[0])
		v := m.Choose(mx + 1)
		m.draws = append(m.draws, Draw{Kind: "len", Conc: int64(v)})
		return m.i64(v)
	}
	harnessAPI["vfChoice"] = func(m *Machine, args []Value) Value {
		n := m.ConcInt(args[0])
		v := m.Choose(n)
		m.draws = append(m.draws, Draw{Kind: "len", Conc: int64(v)})
		return m.i64(v)
	}
	harnessAPI["vfBool"] = func(m *Machine, args []Value) Value {
		v := m.Choose(2)
		m.draws = append(m.draws, Draw{Kind: "len", Conc: int64(v)})
		return m.C.Bool(v == 1)
	}
	harnessAPI["vfAssume"] = func(m *Machine, args []Value) Value {
		m.Assume(m.asTerm(args[0]))
		return nil
	}
	harnessAPI["vfCheck"] = func(m *Machine, args []Value) Value {
		m.Check(m.asTerm(args[0]), goString(args[1].(Str)))
		return nil
	}
	harnessAPI["vfFail"] = func(m *Machine, args []Value) Value {
		m.Check(m.C.False, goString(args[0].(Str)))
		return nil
	}
	harnessAPI["vfCover"] = func(m *Machine, args []Value) Value {
		l := goString(args[0].(Str))
		if !m.covers[l] {
			m.covers[l] = true
			m.coverList = append(m.coverList, l)
		}
		return nil
	}
	harnessAPI["vfKnown"] = func(m *Machine, args []Value) Value {
		id := goString(args[0].(Str))
		if m.Cfg.ForeignFindings[id] {
			if m.Decide(m.asTerm(args[1])) {
				m.abort("assume-false", "")
			}
			return m.C.False
		}
		if !m.Cfg.OpenFindings[id] {
			return m.C.False
		}
		if m.Decide(m.asTerm(args[1])) {
			m.known = id
			return m.C.True
		}
		return m.C.False
	}
	harnessAPI["vfConc"] = func(m *Machine, args []Value) Value {
		return m.i64(m.ConcInt(args[0]))
	}
	harnessAPI["vfBound"] = func(m *Machine, args []Value) Value {
		if m.Cfg.Thorough {
			return args[1]
		}
		return args[0]
	}
	// vfMapOrder selects how `range` walks maps from now on: 0 insertion order, 1 reverse insertion
	// order, k >= 2: insertion order except that up to k-1 individual range statements, chosen by
	// fork, run in reverse. Go's order is unspecified; this exposes order dependence.
	harnessAPI["vfMapOrder"] = func(m *Machine, args []Value) Value {
		k := m.ConcInt(args[0])
		m.mapReverse = k == 1
		m.mapFlips = 0
		if k >= 2 {
			m.mapFlips = k - 1 // adversarial: up to k-1 individual `range` statements (chosen by fork) run reversed
		}
		return nil
	}
	// vfYield is an explicit scheduling point; vfPreemptions sets the context bound of the path.
	harnessAPI["vfYield"] = func(m *Machine, args []Value) Value {
		m.yield()
		return nil
	}
	harnessAPI["vfPreemptions"] = func(m *Machine, args []Value) Value {
		m.sch.bound = m.ConcInt(args[0])
		return nil
	}
	// vfRaceDetect switches happens-before race detection on for the rest of the path.
	harnessAPI["vfRaceDetect"] = func(m *Machine, args []Value) Value {
		m.sch.race.on = true
		return nil
	}
	harnessAPI["vfSingleP"] = func(m *Machine, args []Value) Value {
		f := m.Prog.Func("vfNoop")
		if f == nil {
			m.unsupported("vfNoop not defined by the harness")
		}
		return f
	}
	harnessAPI["vfSymbolic"] = func(m *Machine, args []Value) Value { return m.C.True }
}
