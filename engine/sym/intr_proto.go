package sym

import (
	"go/types"

	"golang.org/x/tools/go/ssa"
)

// protoreflect.Value is a union built with unsafe. Only its unsafe leaf helpers are modelled; the
// public methods (Interface, String, Bytes, Message, ... with their type-mismatch panics) are
// interpreted from protobuf-go's source.
//
//	struct value { DoNotCompare; typ unsafe.Pointer; ptr unsafe.Pointer; num uint64 }
const protoreflectPkg = "google.golang.org/protobuf/reflect/protoreflect"

func (m *Machine) typeToken(t types.Type) *Value {
	if t == nil {
		return nil
	}
	key := "typeToken:" + t.String()
	if p, ok := m.Prog.tokens.Load(key); ok {
		return p.(*Value)
	}
	p := new(Value)
	*p = Str{S: key}
	act, _ := m.Prog.tokens.LoadOrStore(key, p)
	return act.(*Value)
}

// protoTypeGlobal reads protoreflect's own type sentinel (stringType, bytesType, ...).
func (m *Machine) protoTypeGlobal(name string) *Value {
	g, _ := m.Prog.Package(protoreflectPkg).Members[name].(*ssa.Global)
	if g == nil {
		m.unsupported("protoreflect." + name + " not found")
	}
	p, _ := m.load(m.global(g)).(*Value)
	return p
}

func init() {
	// larking.getExtensionHTTP(desc.Options()): answered from the harness's fakeOpts (stub contract:
	// proto.GetExtension(E_Http) returns the rule the fake descriptor carries).
	reg("larking.io/larking.getExtensionHTTP", func(m *Machine, fn *ssa.Function, args []Value) Value {
		i, _ := args[0].(Iface)
		res := fn.Signature.Results().At(0).Type()
		if i.T == nil {
			return m.zero(res)
		}
		if p, ok := i.V.(*Value); ok && p != nil {
			if st, ok := (*p).(Struct); ok && len(st) == 1 {
				return st[0]
			}
		}
		m.unsupported("getExtensionHTTP on " + i.T.String())
		return nil
	})
	// proto.Clone: field-wise copy of the pointed-to struct (used for google.rpc.Status).
	reg("google.golang.org/protobuf/proto.Clone", func(m *Machine, fn *ssa.Function, args []Value) Value {
		i, _ := args[0].(Iface)
		if i.T == nil {
			return i
		}
		p, ok := i.V.(*Value)
		if !ok {
			m.unsupported("proto.Clone on " + i.T.String())
		}
		if p == nil {
			return i
		}
		cell := new(Value)
		*cell = copyVal(*p)
		return Iface{T: i.T, V: cell}
	})
	reg("math/rand.Intn", func(m *Machine, fn *ssa.Function, args []Value) Value {
		n := m.ConcInt(args[0])
		if n <= 0 {
			panic(targetPanic{msg: "invalid argument to Intn", stack: m.stackString()})
		}
		return m.i64(m.Choose(n))
	})
}

func init() {
	P := protoreflectPkg
	reg(P+".typeOf", func(m *Machine, fn *ssa.Function, args []Value) Value {
		i := args[0].(Iface)
		return m.typeToken(i.T)
	})
	mkValue := func(m *Machine, typ *Value, ptr Value, num *Term) Value {
		return Struct{Array{}, typ, ptr, num}
	}
	reg(P+".valueOfString", func(m *Machine, fn *ssa.Function, args []Value) Value {
		s := args[0].(Str)
		cell := new(Value)
		*cell = s
		return mkValue(m, m.protoTypeGlobal("stringType"), cell, m.C.BV(64, uint64(s.Len())))
	})
	reg(P+".valueOfBytes", func(m *Machine, fn *ssa.Function, args []Value) Value {
		s, _ := args[0].(Slice)
		cell := new(Value)
		*cell = s
		return mkValue(m, m.protoTypeGlobal("bytesType"), cell, m.C.BV(64, uint64(len(s))))
	})
	reg(P+".valueOfIface", func(m *Machine, fn *ssa.Function, args []Value) Value {
		i := args[0].(Iface)
		cell := new(Value)
		*cell = i
		return mkValue(m, m.typeToken(i.T), cell, m.C.BV(64, 0))
	})
	get := func(m *Machine, v Value) Value {
		st := v.(Struct)
		p, _ := st[2].(*Value)
		if p == nil {
			return nil
		}
		return *p
	}
	reg("("+P+".Value).getString", func(m *Machine, fn *ssa.Function, args []Value) Value {
		if s, ok := get(m, args[0]).(Str); ok {
			return s
		}
		return Str{}
	})
	reg("("+P+".Value).getBytes", func(m *Machine, fn *ssa.Function, args []Value) Value {
		if s, ok := get(m, args[0]).(Slice); ok {
			return s
		}
		return Slice(nil)
	})
	reg("("+P+".Value).getIface", func(m *Machine, fn *ssa.Function, args []Value) Value {
		if i, ok := get(m, args[0]).(Iface); ok {
			return i
		}
		return Iface{}
	})
}
