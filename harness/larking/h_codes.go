package larking

import (
	"github.com/gobwas/ws"
	"google.golang.org/grpc/codes"
)

func init() {
	vfHarnesses["VerifH_codes"] = VerifH_codes
	vfHarnesses["VerifH_grpcmsg"] = VerifH_grpcmsg
}

// VerifH_codes: HTTPStatusCode / WSStatusCode on any uint32 code (C05 tables, C09 no panic).
func VerifH_codes() {
	c := codes.Code(vfU32())
	h := HTTPStatusCode(c)
	w := WSStatusCode(c)
	if c <= 16 {
		i := vfConc(int(c))
		vfCheck(h == refHTTPStatus[i], "HTTP status for an in-range code differs from the documented table")
		vfCheck(w == refWSStatus[i], "WebSocket close code for an in-range code differs from the documented table")
		vfCheck((h == 200) == (c == 0), "only OK maps to HTTP 200")
		vfCover("in-range")
	} else {
		vfCheck(h == 500, "out-of-range code must map to HTTP 500")
		vfCheck(w == ws.StatusInternalServerError, "out-of-range code must map to close code 1011")
		vfCover("out-of-range")
	}
}

// VerifH_grpcmsg: refPercentDecode(encodeGrpcMessage(m)) == m and the output is a legal
// Percent-Encoded grpc-message (bytes 0x20..0x7E, '%' only as the start of an escape).
func VerifH_grpcmsg() {
	n := vfLen(vfBound(6, 9))
	msg := vfString(n)
	out := encodeGrpcMessage(msg)
	j := 0 // position in msg
	i := 0
	for i < len(out) {
		c := out[i]
		vfCheck(c >= 0x20 && c <= 0x7e, "grpc-message contains a byte outside 0x20..0x7E")
		if c == '%' {
			vfCheck(i+2 < len(out), "grpc-message has a truncated escape")
			hi, lo := refUnhex(out[i+1]), refUnhex(out[i+2])
			vfCheck(hi >= 0 && lo >= 0, "grpc-message has a malformed escape")
			vfCheck(j < n, "grpc-message decodes to more bytes than the status message has")
			vfCheck(byte(hi<<4|lo) == msg[j], "grpc-message escape decodes to a different byte")
			i += 3
			vfCover("escaped")
		} else {
			vfCheck(j < n, "grpc-message decodes to more bytes than the status message has")
			vfCheck(c == msg[j], "grpc-message literal byte differs from the status message")
			i++
		}
		j++
	}
	vfCheck(j == n, "grpc-message decodes to fewer bytes than the status message has (tail lost)")
	if n > 0 {
		vfCover("nonempty")
	}
}
