package larking

import (
	"errors"
	"net/http"
	"net/url"
	"strings"
	"sync"

	"google.golang.org/grpc"
	"google.golang.org/grpc/codes"
	"google.golang.org/grpc/status"
)

func init() {
	vfHarnesses["VerifH_grpc_pending_recv"] = VerifH_grpc_pending_recv
}

// vfOpenBody is the request body of a client that keeps its sending side open: after the bytes it
// has sent, Read blocks until the server closes the body (net/http's contract: Close unblocks a
// pending Read), then fails.
type vfOpenBody struct {
	mu     sync.Mutex
	data   []byte
	off    int
	closed chan struct{}
	once   sync.Once
}

var errVfBodyClosed = errors.New("http: read on closed request body")

func (b *vfOpenBody) Read(p []byte) (int, error) {
	b.mu.Lock()
	if b.off < len(b.data) && len(p) > 0 {
		n := copy(p, b.data[b.off:])
		b.off += n
		b.mu.Unlock()
		return n, nil
	}
	b.mu.Unlock()
	<-b.closed
	return 0, errVfBodyClosed
}

func (b *vfOpenBody) Close() error {
	b.once.Do(func() { close(b.closed) })
	return nil
}

// VerifH_grpc_pending_recv (C09, C15): a bidirectional gRPC (or gRPC-web) call whose handler ends the
// call from the server side - it returns while a goroutine of its own is still waiting in RecvMsg
// and the client keeps its sending side open. The call must complete: the status reaches the
// client, the waiting receive is released with an error, ServeHTTP returns. Every interleaving of
// the handler, its receive goroutine and the serving goroutine within the preemption bound.
func VerifH_grpc_pending_recv() {
	vfRaceDetect()
	in := schemaRoute()
	out := newFakeMD("vf.Resp", strField("r"))
	md := &fakeMethod{full: "vf.S.St", in: in, out: out, cs: true, ss: true, opts: &fakeOpts{}}
	svc := &fakeSvc{full: "vf.S", methods: &fakeMethodList{list: []*fakeMethod{md}}}
	rec := &fakeCodec{name: "fake"}
	mux, err := NewMux(FilesOption(vfRegistry(svc)), CodecOption("application/x", rec))
	if err != nil {
		vfFail("NewMux failed")
	}
	k := vfLen(1)         // complete request messages the client has sent
	failing := vfBool()   // the handler ends the call with an error status
	sendFirst := vfBool() // ... after one reply
	var recvErr error
	got := 0
	released := make(chan struct{})
	h := func(s interface{}, stream grpc.ServerStream) error {
		started := make(chan struct{})
		go func() {
			close(started)
			for {
				m := newFakeMsg(in)
				if e := stream.RecvMsg(m); e != nil {
					recvErr = e
					break
				}
				got++
			}
			close(released)
		}()
		<-started
		if sendFirst {
			rp := newFakeMsg(out)
			rp.payload = []byte("rr")
			if e := stream.SendMsg(rp); e != nil {
				return e
			}
		}
		if failing {
			return status.Error(codes.Aborted, "enough")
		}
		return nil
	}
	sd := &grpc.ServiceDesc{ServiceName: "vf.S", Streams: []grpc.StreamDesc{{StreamName: "St", Handler: h, ClientStreams: true, ServerStreams: true}}}
	if err := mux.registerService(sd, &vfStreamSrv{in: in}); err != nil {
		vfFail("registerService failed: " + err.Error())
	}
	var data []byte
	for i := 0; i < k; i++ {
		data = append(data, 0, 0, 0, 0, 1, 'p')
	}
	body := &vfOpenBody{data: data, closed: make(chan struct{})}
	ct := "application/grpc+fake"
	web := vfBool()
	if web {
		ct = "application/grpc-web+fake"
	}
	r := &http.Request{
		Method: "POST", URL: &url.URL{Path: "/vf.S/St"},
		Header: http.Header{"Content-Type": []string{ct}, "Te": []string{"trailers"}}, Body: body, ContentLength: -1, ProtoMajor: 2,
	}
	w := newFakeRW()
	vfWatchdog(func() {
		mux.ServeHTTP(w, r)
		<-released
	})
	w.finish()
	vfCheck(recvErr != nil, "a receive pending when the handler returned was not released")
	vfCheck(got <= k, "more messages delivered than the client sent")
	want := "0"
	if failing {
		want = "10"
	}
	if web {
		if len(w.body) == 0 {
			// trailers-only response: the status travels as headers
			vs := w.sentHeader["Grpc-Status"]
			vfCheck(len(vs) == 1 && vs[0] == want, "the call's status did not reach the gRPC-web client")
		} else {
			vfCheck(strings.Contains(strings.ToLower(string(w.body)), "grpc-status: "+want+"\r\n"), "the call's status did not reach the gRPC-web client (no trailer frame)")
		}
		vfCover("web")
	} else {
		vs, _ := w.trailer("Grpc-Status")
		vfCheck(len(vs) == 1 && vs[0] == want, "the call's status did not reach the client")
		vfCover("grpc")
	}
	if failing {
		vfCover("failing")
	}
}
