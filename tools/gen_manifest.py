#!/usr/bin/env python3
"""Regenerates /verif/MANIFEST.json from the table below (kept in one place so it stays valid)."""
import json, sys

GOENV = "GOFLAGS=-mod=mod GOPROXY=off GOSUMDB=off GOTOOLCHAIN=local"

CHECKS = {
 "C15": dict(
   text="Bounded symbolic model checking of the real decodeTimeout (with strconv.ParseInt interpreted from source): every grpc-timeout string of length 0..10 with all bytes symbolic is compared with a reference (1-8 digits x unit, clamp of overflowing hours, rejection of every malformed shape). Exhaustive within the bound because lengths are enumerated and bytes are solver variables. Through the serveGRPC driver: a malformed grpc-timeout is answered 400 without invoking the handler, a well-formed one becomes the handler context's deadline (frozen-clock model).",
   note="Trusted: go/ssa as source semantics, the engine's instruction semantics (validated per run by native replay of witnesses), z3. Cancellation: the request context reaches the handler on every transport; a handler blocked in RecvMsg / SendMsg when the client disconnects is released with an error (sequentialised, VerifH_cancel) and - under the goroutine model - a receive still pending when the handler ends the call is released and the call completes (VerifH_grpc_pending_recv). Outside: the HTTP/2 server's own stream resets. Sign-prefixed values are unspecified.",
   design="§4 C15"),
 "C17": dict(
   text="Bounded symbolic model checking of the real CodecProto / CodecJSON / codecHTTPBody ReadNext+WriteNext: round trips of k symbolic messages through every read partition, EOF placement, carry-over and buffer capacity (the read schedule is a nondeterministic io.Reader), plus ReadNext on arbitrary symbolic wire bytes (all 1..10-byte varint prefixes, all uint64 sizes, arbitrary brace/quote/escape bytes) against reference decoders written from the wire specs.",
   note="Trusted: go/ssa semantics, engine semantics (witness replay per run), z3, the vfFragReader model of the io.Reader contract, runtime.growslice capacity model. Outside: limit <= 0, zero-byte non-error reads, payloads longer than the bound (long multi-byte prefixed messages only through the arbitrary-wire harness).",
   design="§4 C17"),
 "C05": dict(
   text="Bounded symbolic model checking of the status kernels: HTTPStatusCode / WSStatusCode on any uint32 code against the frozen documented tables; encodeGrpcMessage on every byte string up to the bound, decoded back with a reference Percent-Decoder and checked for legal output bytes. Through the real drivers (NewMux + registerService + ServeHTTP with a ResponseWriter model): gRPC grpc-status / grpc-message trailers, HTTP status + google.rpc.Status body under the negotiated type, Twirp name and message, gRPC-web trailer frame in binary and base64 text mode (and trailers-only responses) on HTTP/1.1 and HTTP/2, for handler codes 1..17 and symbolic messages.",
   note="Trusted: go/ssa semantics, engine semantics, z3, exact model of fmt.Sprintf(\"%%%02x\"). WebSocket: the close frame after a real ws.UpgradeHTTP (gobwas/ws interpreted from source) carries the mapped close code and the message cropped only to the 123-byte capacity. Status details (1..2 Any values, empty and non-empty message) are followed to the grpc-status-details-bin trailer (gRPC, gRPC-web trailer frame and trailers-only headers; decoded with an independent base64 + protobuf wire reader) and to the google.rpc.Status handed to the codec (transcoding); Twirp bodies for messages that need JSON escaping are read back with an independent RFC 8259 reader. Outside: what real clients decode (transports are not encoded), protojson rendering of the status body.",
   design="§4 C05"),
 "C01": dict(
   text="Bounded symbolic model checking of the real trie: rule sets are registered with the real addRule (lexTemplate, addVariable, addPath) over fake descriptors, then match (lexPath, search, variable.index, parseParam) runs on a fully symbolic request path; whatever is dispatched must be covered by a rule of that method under an independent reference matcher over the raw path (liberal reading of ':'), with captures byte-equal to the reference captures and no other field set.",
   note="Trusted: go/ssa semantics, engine semantics (witness replay), z3, the fake descriptor kit, the reference matcher (Appendix C.2). Bounds: curated rule-set family, ASCII paths up to 8 (quick) / 10 (thorough) bytes; FULLY symbolic bytes (non-ASCII letters and numbers, invalid UTF-8) for 1..3 / 1..5 bytes after a unicode prefix, with unicode.IsLetter / IsNumber encoded exactly from the range tables; typed captures (int32, bool, well-known wrappers, FieldMask) through ServeHTTP; request verbs without a rule kind (HEAD, OPTIONS, ...). Outside: longer paths, rule sets outside the family.",
   design="§4 C01"),
 "C02": dict(
   text="Same engine run as C01 with the completeness obligations: a rule that matches verb+path under the strict reading implies dispatch to a method owning a matching rule, a literal spelling beats a wildcard/variable at the same top-level position, and a relational harness builds two tries from permuted registration orders and asserts equal dispatch and captures for the same symbolic path.",
   note="Trusted base as C01. Also: non-ASCII path text with fully symbolic bytes (reference character class beyond ASCII = Unicode letter or number, independent of larking's isPath); completeness after every step of the registration histories (rules of earlier registrations still dispatch). Outside: permutations other than reversal/rotation, domination inside variable patterns (unspecified), longer paths.",
   design="§4 C02"),
 "C16": dict(
   text="Bounded symbolic model checking of registration: the real lexTemplate + addRule run on every template string up to the bound (all bytes symbolic) onto empty and pre-populated tries and are compared with an independent recursive-descent reference of the documented grammar (valid+resolvable => accepted; not derivable / unknown field / unresolvable body or response_body selector / colliding binding / nested bindings => error; never a panic; a rejected rule leaves the old route working).",
   note="Trusted base as C01. Unspecified regions (only panic-freedom demanded): nested variables, '**' not last, literals not starting with a letter, message-typed path fields, kind-* vs specific verb across methods. Publication atomicity is decided through the real registerService in the registry histories (a failing registration leaves the published snapshot pointer-identical). Literal templates with fully symbolic (non-ASCII, invalid UTF-8) bytes are decided against the grammar with Unicode letters / numbers.",
   design="§4 C16"),
 "C19": dict(
   text="Bounded symbolic model checking of the real ruleSelector.setRules/getRules: a symbolic well-formed selector plus a menu selector, both registration orders, against every symbolic method name within the bound; a rule is returned iff the reference selector semantics (exact name, '*', or 'prefix.*' covering >= 1 further component) says so.",
   note="Trusted base as C01 plus the byte-wise model of strings.Index. Outside (N/A part): health.AddHealthz end-to-end; Config-rule vs annotation equivalence is decided relationally: two muxes built through NewMux + registerService resolve every symbolic path identically.",
   design="§4 C19"),
 "C14": dict(
   text="Bounded symbolic model checking of the metadata kernels: decodeBinHeader/encodeBinHeader with the real encoding/base64 interpreted on symbolic bytes (padded and unpadded), setOutgoingHeader with reserved names, symbolic near-misses and arbitrary short keys against a header map holding the reserved response headers, newIncomingContext on headers with symbolic values.",
   note="Trusted: go/ssa semantics, engine, z3, context.WithValue stub. Through the serveGRPC / serveGRPCWeb drivers: handler header and trailer metadata and forged reserved trailers as the client sees them under net/http's header / trailer rules. Outside: handler keys that are not lower-case, HPACK, grpc-go's client view.",
   design="§4 C14"),
 "C08": dict(
   text="Bounded symbolic model checking of every size comparison on the receive and send paths with the limits themselves symbolic: readAll / writeAll (unary HTTP), the three stream codecs' limit handling through streamHTTP.RecvMsg, streamGRPC.RecvMsg with a symbolic flag byte and all 2^32 frame lengths and (fake) decompression to an arbitrary length, streamGRPC.SendMsg with independent symbolic send and receive limits. Obligations: no payload larger than the receive limit reaches the codec (measured after decompression); nothing within the limits is refused, exactly-at-limit included.",
   note="Trusted: go/ssa semantics, engine (witness replay), z3, recording codec, fake compressor (output length unrelated to input), sync.Pool model. WebSocket text messages through the real gobwas/ws frame reader are checked against the limit too. One open known finding (F-D39: a compressed gRPC frame longer than the limit around a message within it is refused; printed as a KNOWN-FINDING line, not repaired - see DESIGN 10.18). Outside: gzip with symbolic payload bytes, limit <= 0.",
   design="§4 C08"),
 "C06": dict(
   text="Bounded symbolic model checking of the stream plumbing around the real framing code: streamHTTP.RecvMsg/readMsg/decodeRequestArgs with CodecProto / CodecJSON / codecHTTPBody framing and a recording decoder, over every partition of the request bytes into reads, every EOF placement, every truncation offset and recycled buffers of several capacities; streamHTTP.SendMsg for unary, HttpBody and server-stream replies de-framed by a reference; one gRPC frame per direction. Obligation: the decoder sees exactly the sent payload sequence, then io.EOF (a stream cut inside a message yields the complete prefix and a non-EOF error).",
   note="Trusted base as C08/C17. Unspecified: an empty request body may produce one body-less first message. Also through the real drivers: a bidirectional gRPC stream (serveGRPC), unary gRPC-web in binary / text mode, a WebSocket echo stream over the interpreted gobwas/ws, and the AsHTTPBodyReader / Writer passthrough. Outside (N/A parts): gzip, HTTP/2 flow control, bidirectional interleaving (no goroutine model): the claim is per direction.",
   design="§4 C06"),
 "C04": dict(
   text="Bounded symbolic model checking of the reply path: negotiateContentType on Accept headers with symbolic tokens and q digits against an RFC 7231 admission reference, arbitrary Accept / Accept-Encoding bytes (no crash, result among the offers), streamHTTP.SendMsg (body = what the codec named by Content-Type produced, HttpBody = raw data under its own type, send limit exact, response_body walks the reply's field), response_body resolution at registration in the reply type.",
   note="Trusted base as C06. Content-Encoding truthfulness through ServeHTTP with a marking compressor; the real JSON codec end to end for string fields. Outside: byte-level protobuf encoding (stub), gzip itself, Accept headers beyond the stated shapes.",
   design="§4 C04"),
 "C07": dict(
   text="Bounded symbolic model checking through the real public entry: NewMux + registerService + ServeHTTP -> serveHTTP -> RecvMsg -> params.set on fake descriptors, with the path capture and a competing value for the same field as independent symbolic strings supplied through the query string and/or the decoded body; the field the handler receives must equal the capture (a relational query: any model with received != capture is a counterexample).",
   note="Trusted: go/ssa semantics, engine (witness replay), z3, fake descriptor / registry / ResponseWriter kit, stub of proto.GetExtension. Also: typed path variables (int32, bool, oneof members, well-known wrapper and FieldMask messages) against rival query values, the WebSocket upgrade path, and a fully symbolic raw query string (net/url interpreted). Outside: repeated path-bound fields.",
   design="§4 C07"),
 "C03": dict(
   text="Bounded symbolic model checking of request reconstruction: query-key resolution (proto / JSON names, dotted paths), per-kind conversion of URL text for string, bytes (base64 per the proto3-JSON rule, against a reference decoder), enum, int32 and bool, application to the message (set / append / nested creation), rejection of unknown keys and of paths through repeated or map fields, and through the real ServeHTTP the body plumbing (bytes reach the codec unmodified exactly once on the whole message or the body field, params after the body).",
   note="Trusted base as C07 plus the exact model of encoding/json.Unmarshal for integer / bool targets. The real JSON codec (CodecJSON / protojson; modelled fragment under the engine, real codec natively) is driven end to end for string fields. Well-known-type parameters (wrappers, FieldMask, Duration, Timestamp): larking's quote / parseParam / set are executed for real, protojson's scalar forms are modelled (model_wkt.go) and compared with the real codec on every run (each entry of a 40-text boundary menu is replayed natively). Floats by a concrete menu. N/A part, stated: the binary protobuf codec on real messages, FloatValue / DoubleValue / Struct parameters, protojson forms outside the model (exponents, quoted numbers, zone offsets).",
   design="§4 C03"),
 "C18": dict(
   text="Bounded symbolic model checking of the interceptor / stats plumbing through the real drivers: one unary RPC through NewMux + registerService + ServeHTTP on the gRPC and the transcoding entry with every combination of stats handler and unary interceptor on/off and succeeding / failing handlers (symbolic code and message): the interceptor runs exactly once with the full method name, the recorded stats events form tag, in-header, begin, payload events, out-trailer, end with End exactly once carrying the handler's error and payload lengths equal to the message lengths, and the client-visible result satisfies the same oracle under every option combination.",
   note="Trusted base as C07. Also: stream interceptor (handing a wrapping stream to the handler) and per-message stats on a bidirectional gRPC stream; End event of WebSocket calls; proxied calls (RegisterConn) through interceptors and stats exactly once, incl. a unary interceptor that replaces the reply or answers without calling the backend.",
   design="§4 C18"),
 "C09": dict(
   text="Panic-freedom and termination as the only obligations, over the real entry point and kernels on unconstrained symbolic input: ServeHTTP with symbolic content types, Accept headers, paths and bodies across the gRPC, gRPC-web and transcoding entries on HTTP/1 and HTTP/2; match at the 64-token cap; query parameters over list / map / nested fields; registration of mutated templates; stream codec parsers; gRPC frame reader with stats; status tables; negotiation; timeout parser. Any panic escaping larking's code or a path exhausting the step budget is reported with the concrete request and replayed natively.",
   note="Trusted base as C07. Every media type is served by the recording codec (real protobuf-go codecs cannot run on fake messages). Also: arbitrary bytes after a real WebSocket upgrade, a fully symbolic query string, well-known-type parameters incl. the empty text, and (goroutine model) a streaming gRPC handler that returns while its own goroutine waits in RecvMsg - the call must complete (deadlock detection). Outside: the HTTP/2 server, user-supplied interceptors that panic, gzip streams with symbolic bytes.",
   design="§4 C09"),
 "C10": dict(
   text="Bounded model checking of the proxy path on the real code under the engine's cooperative goroutine model: one gRPC call through the REAL RegisterConn + createConnHandler (its pump goroutine and reply loop) + serveGRPC for each of the four streaming shapes, against a scripted backend (0..2 replies, final status OK / NotFound / Canceled / Unavailable, failing before, during or after the stream, reading the request stream first, last or never) and a client that sends 0..2 messages and either ends its stream or keeps it open; the backend must receive exactly the client's messages and metadata, the client exactly the backend's replies in order followed by its final status, and the call must complete (deadlocks are found by the scheduler). grpc-go's client transport is replaced by an in-memory stream under the engine; every replay runs the same scripted backend behind a real in-process grpc.Server, so the model is compared with real grpc-go on every run.",
   note="Partial claim. Trusted: go/ssa semantics, engine semantics incl. the goroutine model, z3, the in-memory stream model (documented assumptions in the evidence file). Two defects found this way were repaired (missing CloseSend, F-D35; empty client streams answered Unknown 'EOF' without calling the backend, F-D37), one is listed as a known finding (F-D36: hang when the backend ends first while the client keeps its stream open) and is reported as a KNOWN-FINDING line. Status details with an empty message and request metadata under a non-protocol grpc- key are followed end to end. Outside: backend headers / trailers, proxied calls over the HTTP-transcoding, gRPC-web and WebSocket front ends, more than 2 messages per direction, flow control, deadline / cancellation propagation, schedules beyond the context bound.",
   design="§10.8"),
 "C11": dict(
   text="Bounded model checking of the registration state machine through the real code: NewMux, registerService, RegisterConn's body (clone, addConnHandler with a fake reflection conversation, storeState), DropConn, removeHandler, delRule, pickMethodHandler and match are executed for every history of register / drop operations up to the bound, and after every step the published state is compared with a reference model mapping each method to its number of live backends (counts, dropped handlers gone, handler pick succeeds iff a backend is live, the HTTP route of every live method still dispatches, documented return values).",
   note="Trusted base as C07 plus the discovery stubs (fake reflection stream; under the engine proto.Unmarshal of descriptors / protodesc.NewFile / sha256 are replaced, the native replay uses real descriptor bytes). Histories are enumerated by forked choices; there is little for the solver to range over besides the math/rand pick. Outside: invoking proxied handlers, histories longer than the bound.",
   design="§4 C11"),
 "C12": dict(
   text="The copy-on-write premises on the real code (after every writer of every registration history the previously published snapshot has an unchanged structural fingerprint; no-op and failing operations leave the routing state unchanged, a failed registerService leaves the snapshot pointer identical; an old snapshot resolves every symbolic request path identically before and after a second writer ran) AND, under the engine's cooperative goroutine model, the interleavings themselves: the REAL RegisterConn / registerService / DropConn run concurrently with each other and with a request for an already-registered method; every schedule within the context bound (2 / 3 preemptive switches; scheduling points at mutex, atomic snapshot load / store, pool operations and the reflection round trips) must end with the effect of both operations published, the request served and every live route dispatching. Schedule-dependent counterexamples are confirmed natively by stress replay against a real in-process gRPC backend.",
   note="Trusted base as C11 plus the goroutine model (scheduling points only at synchronisation operations; validated per run by VerifH_sched_selftest, which must find the textbook lost update and must not find one under a mutex). A happens-before race detector (vector clocks; confirmed natively under go test -race) runs on the explored schedules: replacing the atomic publication by a plain field is reported as a data race, removing or narrowing Mux.mu as a lost update. NOT claimed: races on memory touched only inside library models, atomicity violations between unsynchronised accesses that lie between two scheduling points, schedules beyond the context bound.",
   design="§4 C12"),
 "C13": dict(
   text="Pooled-buffer and pooled-compressor isolation on the real code: consecutive requests over larking's byte pool (HttpBody bodies retained by the first handler), the pooled gzip compressor with the REAL compress/gzip interpreted (consecutive calls reuse the pooled reader / writer, also after a truncated stream; two compressions in flight at once must get two writers), and - under the engine's cooperative goroutine model - two requests served CONCURRENTLY by one mux on every mix of HTTP transcoding, gRPC (with and without per-message compression) and gRPC-web text with scheduling points at every pool operation, atomic load and network read / write: each client must receive exactly the reply to its own request under every schedule within the context bound.",
   note="Trusted base as C07 plus the goroutine model (see C12). The happens-before race detector runs on these schedules as well. The race detector also records the element accesses of copy / append, and sync.Pool.Put is followed by a scheduling point (use-after-Put). NOT claimed: races on memory touched only inside library models, more than two concurrent requests, schedules beyond the context bound, the proxy's stream pumps under C13 (they are exercised, with race detection, under C10). Detects: recycling a buffer before its last use, dropping the copy out of a pooled buffer, returning a pooled gzip writer twice, not resetting a pooled writer.",
   design="§4 C13"),
 "C20": dict(
   text="Bounded symbolic model checking of server mounting on the real code: NewServer with MuxHandleOption / HTTPHandlerOption is executed with net/http.ServeMux (pattern registration and routing), http.StripPrefix, the h2c wrapper and http2.ConfigureServer interpreted from source; a request sent as prefix+path to the server's handler must be answered exactly (status, every header, body, handler invocations, captured variables) as an identically built bare mux answers path, for the transcoding, error / Twirp, gRPC and gRPC-web entries and four mount configurations; a path outside every prefix must not reach the mux and a handler added with HTTPHandlerOption must keep its pattern.",
   note="Partial claim (declined at design time, built later once the drivers existed). Trusted base as C07. Outside: the HTTP/1.1, HTTP/2, h2c-upgrade and TLS wire layers (the request enters at http.Server.Handler.ServeHTTP), unclean paths and the bare-prefix redirect (ServeMux behaviour, unspecified), host- and method-specific patterns, streaming and WebSocket through the mounted server.",
   design="§10.9"),
}

NOT_APPLICABLE = {
}

ALL = ["C%02d" % i for i in range(1, 21)]
PENDING = "check not built yet in this revision of /verif (solver-based harness pending); not claimed"

def main():
    checks = []
    for pid in sorted(CHECKS):
        c = CHECKS[pid]
        checks.append({
            "property_id": pid,
            "quick_cmd": f"./bin/symgo check -prop {pid} -tier quick",
            "thorough_cmd": f"./bin/symgo check -prop {pid} -tier thorough",
            "evidence_file": f"/verif/evidence/{pid}.json",
            "replay_cmd_template": "./bin/symgo replay {path}",
            "engine": "symgo",
            "level_claimed": {"category": "model_checking", "text": c["text"], "design_ref": c["design"]},
            "level_note": c["note"],
            "technique": "bounded symbolic execution of the real Go code (go/ssa) with SMT (z3) deciding every branch and assertion; counterexamples replayed natively",
        })
    na = []
    for pid in ALL:
        if pid in CHECKS:
            continue
        na.append({"property_id": pid, "reason": NOT_APPLICABLE.get(pid, PENDING)})
    m = {
        "version": 1,
        "setup_cmd": f"cd /verif/engine && {GOENV} go build -o /verif/bin/symgo ./cmd/symgo",
        "hooks": {
            "guard": "verif",
            "enable": "none needed: harnesses and fakes are injected as a go/packages + `go test -overlay` overlay of /verif/harness/larking/*.go (package larking); nothing is written into /repo",
            "baseline_off_cmd": f"cd /repo && {GOENV} go test -vet=off -count=1 ./...",
            "source_commits": [],
            "add_only": True,
        },
        "engines": [{
            "name": "symgo", "path": "/verif/engine",
            "serves_properties": sorted(CHECKS),
            "kind_free_text": "path-exploring symbolic interpreter for go/ssa (x/tools v0.29.0) with hash-consed bit-vector terms, interval pre-reasoning, z3 5.1 over a pipe (incremental + one-shot fallback), decision-tape re-execution over 16 workers, native replay through go test -overlay",
        }],
        "checks": checks,
        "not_applicable": na,
        "notes": "Exit codes of symgo check: 0 held within bounds; 1 natively reproduced violation (VIOLATION line); 2 inconclusive (solver unknown, budget, unsupported construct, vacuity label missed); 3 counterexample that did not reproduce natively.",
    }
    json.dump(m, open("/verif/MANIFEST.json", "w"), indent=1)
    print("wrote MANIFEST.json with", len(checks), "checks")

if __name__ == "__main__":
    main()
