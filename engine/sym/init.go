package sym

import (
	"fmt"
	"os"
	"strings"

	"golang.org/x/tools/go/ssa"
)

// DefaultInitPackages are initialised concretely inside the engine (leniently: an initialiser the
// engine cannot run poisons only the globals it would have set). Globals of every other package
// are poisoned: reading one aborts the path as unsupported instead of seeing a wrong zero value.
var DefaultInitPackages = []string{
	"errors", "io", "internal/bytealg", "internal/cpu", "unicode", "unicode/utf8", "unicode/utf16", "strconv", "strings", "bytes", "math", "math/bits",
	"sort", "slices", "encoding/base64", "encoding/binary", "encoding/hex", "net/textproto", "net/url", "net/http",
	"context", "io/fs", "os", "syscall", "time", "vendor/golang.org/x/net/http/httpguts", "golang.org/x/net/http/httpguts",
	"google.golang.org/grpc/codes", "google.golang.org/grpc/metadata",
	"google.golang.org/protobuf/encoding/protowire",
	"google.golang.org/protobuf/reflect/protoreflect",
	"google.golang.org/protobuf/reflect/protoregistry",
	"google.golang.org/grpc/internal/status",
	"google.golang.org/grpc/status",
	"math/rand",
	"google.golang.org/genproto/googleapis/api/annotations",
	"google.golang.org/protobuf/internal/errors",
	"google.golang.org/protobuf/encoding/protodelim",
	"google.golang.org/genproto/googleapis/rpc/code",
	"github.com/gobwas/ws", "github.com/gobwas/ws/wsutil", "github.com/gobwas/pool/pbufio", "github.com/gobwas/pool/pbytes", "github.com/gobwas/pool", "github.com/gobwas/httphead", "io/ioutil", "bufio",
	"compress/flate", "compress/gzip", "hash/crc32", "larking.io/health", "google.golang.org/protobuf/runtime/protoimpl",
}

// InitPackages runs the package initialisers of the listed packages and of the package under test.
func (m *Machine) InitPackages(paths []string) (poisoned []string) {
	allowed := map[*ssa.Package]bool{}
	for _, p := range paths {
		if sp := m.Prog.Package(p); sp != nil {
			allowed[sp] = true
		}
	}
	allowed[m.Prog.Pkg] = true
	saveBudget := m.Cfg.StepBudget
	m.Cfg.StepBudget = 1 << 40
	m.covers = map[string]bool{}
	m.pools = map[*Value][]Value{}
	m.natives = map[string]interface{}{}
	m.atoms = map[*Term]bool{}
	m.facts = map[*Term]ival{}
	m.rmemo = map[*Term]ival{}
	for _, p := range paths {
		if sp := m.Prog.Package(p); sp != nil {
			m.runInit(sp, allowed)
		}
	}
	m.runInit(m.Prog.Pkg, allowed)
	m.Cfg.StepBudget = saveBudget
	m.trail = m.trail[:0]
	m.steps = 0
	for g, cell := range m.globals {
		if po, ok := (*cell).(Poison); ok && g.Pkg != nil && allowed[g.Pkg] {
			poisoned = append(poisoned, g.String()+": "+firstLine(po.Why))
		}
	}
	return poisoned
}

func firstLine(s string) string {
	if i := strings.IndexByte(s, '\n'); i >= 0 {
		return s[:i]
	}
	return s
}

func (m *Machine) runInit(pkg *ssa.Package, allowed map[*ssa.Package]bool) {
	if m.inited[pkg] {
		return
	}
	m.inited[pkg] = true
	if os.Getenv("SYMGO_DEBUG_INIT") != "" {
		fmt.Fprintln(os.Stderr, "init", pkg.Pkg.Path())
	}
	fn := pkg.Func("init")
	if fn == nil || fn.Blocks == nil {
		return
	}
	fi := m.info(fn)
	fr := &frame{m: m, fn: fn, info: fi, initTop: true}
	fr.env = make([]Value, fi.n)
	fr.block = fn.Blocks[0]
	m.frames = append(m.frames, fr)
	depth := len(m.frames)
	for fr.block != nil {
		// lenient execution: one instruction at a time
		instrs := fr.block.Instrs
		jumped := false
		np := 0
		for np < len(instrs) {
			if _, ok := instrs[np].(*ssa.Phi); !ok {
				break
			}
			np++
		}
		if np > 0 {
			pi := 0
			for i, p := range fr.block.Preds {
				if p == fr.prev {
					pi = i
				}
			}
			tmp := make([]Value, np)
			for i := 0; i < np; i++ {
				tmp[i] = fr.get(instrs[i].(*ssa.Phi).Edges[pi])
			}
			for i := 0; i < np; i++ {
				fr.setReg(instrs[i].(*ssa.Phi), tmp[i])
			}
		}
		for _, in := range instrs[np:] {
			fr.cur = in
			if call, ok := in.(*ssa.Call); ok {
				if callee := call.Call.StaticCallee(); callee != nil && callee.Name() == "init" && callee.Pkg != nil && callee.Pkg != pkg && callee.Synthetic != "" {
					if allowed[callee.Pkg] {
						m.runInit(callee.Pkg, allowed)
						m.frames = m.frames[:depth]
					}
					continue
				}
			}
			k := m.lenientVisit(fr, in, depth)
			if k == kReturn {
				fr.block = nil
				jumped = true
				break
			}
			if k == kJump {
				jumped = true
				break
			}
		}
		if !jumped {
			break
		}
	}
	m.frames = m.frames[:depth-1]
}

func (m *Machine) lenientVisit(fr *frame, in ssa.Instruction, depth int) (k int) {
	defer func() {
		if r := recover(); r != nil {
			m.frames = m.frames[:depth]
			why := ""
			switch r := r.(type) {
			case abortPath:
				why = r.kind + ": " + r.msg
			case targetPanic:
				why = "panic in initialiser: " + r.msg
			default:
				why = fmt.Sprintf("engine: %v", r)
			}
			if v, ok := in.(ssa.Value); ok {
				fr.setReg(v, Poison{why})
			}
			if st, ok := in.(*ssa.Store); ok {
				// poison the target of a failed store
				if p, ok := fr.get(st.Addr).(*Value); ok && p != nil {
					*p = Poison{why}
				}
			}
			if _, isIf := in.(*ssa.If); isIf {
				// cannot decide: take the "skip" edge (guards are `if initialised goto done`)
				fr.prev, fr.block = fr.block, fr.block.Succs[1]
				k = kJump
				return
			}
			k = kNext
		}
	}()
	return fr.visit(in)
}

func (m *Machine) lenientCall(fn Value, args []Value, instr ssa.Instruction) Value {
	return m.callValue(fn, args, instr)
}
