package sym

import (
	"golang.org/x/tools/go/ssa"
)

// pureIntrinsics: intrinsics that only build a term from their arguments (no Decide, no side
// effects). The ite-merger may call them like a mergeable function.
var pureIntrinsics = map[string]bool{}

func init() {
	// unicode.isExcludingLatin(rangeTab, r): the binary / linear searches over the range tables
	// would fork once per probe on a symbolic rune. The model reads the SAME tables out of the
	// interpreted package's globals (so it follows the Go release in use) and returns the exact
	// characteristic term: r lies in one of R16[LatinOffset:] (compared as uint32, as the source
	// does) or in one of R32. Ranges are sorted and disjoint, so membership in any equals what the
	// searches compute. With a concrete rune the source is interpreted as before.
	name := "unicode.isExcludingLatin"
	pureIntrinsics[name] = true
	memo := map[[2]uintptr]*Term{}
	_ = memo
	reg(name, func(m *Machine, fn *ssa.Function, args []Value) Value {
		r := m.asTerm(args[1])
		if r.IsConst() {
			return m.callFnNoIntrinsic(fn, args)
		}
		tab, ok := args[0].(*Value)
		if !ok || tab == nil {
			m.unsupported("unicode.isExcludingLatin: nil table")
		}
		st := (*tab).(Struct)
		r16, _ := st[0].(Slice)
		r32, _ := st[1].(Slice)
		off := int(m.asTerm(st[2]).Val)
		C := m.C
		res := C.False
		in := func(lo, hi, stride uint64) *Term {
			lt, ht := C.BV(32, lo), C.BV(32, hi)
			c := C.And(C.Cmp(OpUle, lt, r), C.Cmp(OpUle, r, ht))
			if stride > 1 && lo != hi {
				c = C.And(c, C.Eq(C.Bin(OpURem, C.Bin(OpSub, r, lt), C.BV(32, stride)), C.BV(32, 0)))
			}
			return c
		}
		if len(r16) > off {
			for _, e := range r16[off:] {
				es := e.(Struct)
				res = C.Or(res, in(m.asTerm(es[0]).Val, m.asTerm(es[1]).Val, m.asTerm(es[2]).Val))
			}
		}
		for _, e := range r32 {
			es := e.(Struct)
			res = C.Or(res, in(m.asTerm(es[0]).Val, m.asTerm(es[1]).Val, m.asTerm(es[2]).Val))
		}
		return res
	})
}
