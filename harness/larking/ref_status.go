package larking

import (
	spb "google.golang.org/genproto/googleapis/rpc/status"
	"google.golang.org/protobuf/encoding/protowire"
	"google.golang.org/protobuf/proto"
)

// vfMarshalRPCStatus: the engine's stand-in for proto.Marshal of a google.rpc.Status (fields in
// number order, zero values omitted - protobuf-go's deterministic output for this message); natively
// the real proto.Marshal runs.
func vfMarshalRPCStatus(m proto.Message) ([]byte, error) {
	st := m.(*spb.Status)
	var b []byte
	if st.Code != 0 {
		b = protowire.AppendTag(b, 1, protowire.VarintType)
		b = protowire.AppendVarint(b, uint64(int64(st.Code)))
	}
	if st.Message != "" {
		b = protowire.AppendTag(b, 2, protowire.BytesType)
		b = protowire.AppendString(b, st.Message)
	}
	for _, d := range st.Details {
		var sub []byte
		if d.TypeUrl != "" {
			sub = protowire.AppendTag(sub, 1, protowire.BytesType)
			sub = protowire.AppendString(sub, d.TypeUrl)
		}
		if len(d.Value) > 0 {
			sub = protowire.AppendTag(sub, 2, protowire.BytesType)
			sub = protowire.AppendBytes(sub, d.Value)
		}
		b = protowire.AppendTag(b, 3, protowire.BytesType)
		b = protowire.AppendBytes(b, sub)
	}
	return b, nil
}

type refAny struct {
	url string
	val []byte
}

// refVarintAt: base-128 varint written out independently of protowire.
func refVarintAt(b []byte, i int) (uint64, int, bool) {
	var v uint64
	for s := uint(0); s < 64 && i < len(b); s += 7 {
		c := b[i]
		i++
		v |= uint64(c&0x7f) << s
		if c < 0x80 {
			return v, i, true
		}
	}
	return 0, i, false
}

// refParseRPCStatus decodes the wire form of google.rpc.Status (code = 1, message = 2, details = 3 of
// Any{type_url = 1, value = 2}); fields may come in any order.
func refParseRPCStatus(b []byte) (code int64, msg string, details []refAny, ok bool) {
	for i := 0; i < len(b); {
		tag, j, tok := refVarintAt(b, i)
		if !tok {
			return 0, "", nil, false
		}
		i = j
		switch tag {
		case 1<<3 | 0:
			v, j, vok := refVarintAt(b, i)
			if !vok {
				return 0, "", nil, false
			}
			code, i = int64(int32(v)), j
		case 2<<3 | 2, 3<<3 | 2:
			l, j, lok := refVarintAt(b, i)
			if !lok || j+int(l) > len(b) {
				return 0, "", nil, false
			}
			body := b[j : j+int(l)]
			i = j + int(l)
			if tag == 2<<3|2 {
				msg = string(body)
				continue
			}
			var a refAny
			for k := 0; k < len(body); {
				t2, k2, ok2 := refVarintAt(body, k)
				if !ok2 || (t2 != 1<<3|2 && t2 != 2<<3|2) {
					return 0, "", nil, false
				}
				l2, k3, ok3 := refVarintAt(body, k2)
				if !ok3 || k3+int(l2) > len(body) {
					return 0, "", nil, false
				}
				if t2 == 1<<3|2 {
					a.url = string(body[k3 : k3+int(l2)])
				} else {
					a.val = body[k3 : k3+int(l2)]
				}
				k = k3 + int(l2)
			}
			details = append(details, a)
		default:
			return 0, "", nil, false
		}
	}
	return code, msg, details, true
}
