package larking

import "io"

func init() {
	vfHarnesses["VerifH_json_roundtrip"] = VerifH_json_roundtrip
	vfHarnesses["VerifH_json_wire"] = VerifH_json_wire
	vfHarnesses["VerifH_body_chunks"] = VerifH_body_chunks
}

// refJSONEnd returns the length of the first top-level JSON object in b (brace matching outside
// strings, backslash escapes inside strings), 0 if incomplete, -1 if a closing brace comes first.
func refJSONEnd(b []byte) int {
	depth := 0
	inStr := false
	esc := false
	for i := 0; i < len(b); i++ {
		c := b[i]
		if esc {
			esc = false
			continue
		}
		if inStr {
			if c == '\\' {
				esc = true
			} else if c == '"' {
				inStr = false
			}
			continue
		}
		if c == '"' {
			inStr = true
		} else if c == '{' {
			depth++
		} else if c == '}' {
			depth--
			if depth == 0 {
				return i + 1
			}
			if depth < 0 {
				return -1
			}
		}
	}
	return 0
}

// VerifH_json_roundtrip: concatenated JSON objects are split back into the same objects for every
// read partition, EOF placement, carry-over and buffer capacity.
func VerifH_json_roundtrip() {
	var c CodecJSON
	k := vfLen(vfBound(2, 3))
	var msgs [][]byte
	sink := &vfSink{}
	longest := 0
	for i := 0; i < k; i++ {
		m := vfJSONMessage()
		msgs = append(msgs, m)
		if len(m) > longest {
			longest = len(m)
		}
		n, err := c.WriteNext(sink, m)
		vfCheck(err == nil && n == len(m), "WriteNext failed or reported a wrong count on a healthy writer")
	}
	wire := sink.buf
	limit := longest + vfLen(1) // exactly the longest message, or one more
	if k == 0 {
		limit = 4
	}
	r := &vfFragReader{data: wire}
	if len(wire) > vfBound(12, 13) {
		r.greedy = true
		r.maxChunk = 1 + vfChoice(3)
	}
	var carry []byte
	buf := make([]byte, 0, vfCapMenu())
	consumed := 0
	for i := 0; i < k; i++ {
		b := append(buf[:0], carry...)
		b, n, err := c.ReadNext(b, r, limit)
		if err == io.EOF && len(b) > 0 {
			vfCover("eof-with-data")
			b, n, err = c.ReadNext(b, r, limit)
		}
		vfCheck(err == nil, "ReadNext failed on a complete JSON object within the limit")
		vfCheck(n >= 0 && n <= len(b), "ReadNext returned n outside 0..len(dst)")
		vfCheck(n == len(msgs[i]), "ReadNext returned a wrong message length")
		vfCheck(vfBytesEq(b[:n], msgs[i]), "ReadNext returned different message bytes")
		consumed += len(msgs[i])
		vfCheck(vfBytesEq(b[n:], wire[consumed:r.pos]), "dst[n:] is not the unread remainder of the stream")
		carry = append(carry[:0], b[n:]...)
		buf = b
		vfCover("message")
	}
	b := append(buf[:0], carry...)
	b, n, err := c.ReadNext(b, r, limit)
	vfCheck(err == io.EOF, "clean end of stream not reported as io.EOF")
	vfCheck(n == 0 && len(b) == 0, "end of stream returned data")
	vfCover("clean-eof")
}

// VerifH_json_wire: ReadNext on arbitrary bytes against the reference scanner.
func VerifH_json_wire() {
	var c CodecJSON
	w := vfLen(vfBound(6, 8))
	wire := vfBytes(w)
	limit := 1 + vfLen(w+1)
	r := &vfFragReader{data: wire, greedy: true}
	if vfBool() {
		r.maxChunk = 1
	}
	buf := make([]byte, 0, vfCapMenu())
	b, n, err := c.ReadNext(buf, r, limit)
	if err == io.EOF && len(b) > 0 {
		vfCheck(vfBytesEq(b, wire[:r.pos]), "io.EOF return lost bytes already consumed from the reader")
		b, n, err = c.ReadNext(b, r, limit)
	}
	vfCheck(n >= 0 && n <= len(b), "ReadNext returned n outside 0..len(dst)")
	vfCheck(vfBytesEq(b, wire[:r.pos]), "dst does not hold exactly the bytes consumed from the reader")
	if err != nil {
		vfCheck(n == 0, "error return with n != 0")
	}
	end := refJSONEnd(wire)
	switch {
	case end > 0 && end <= limit:
		vfCheck(err == nil, "complete object within the limit rejected")
		vfCheck(n == end, "object boundary differs from the reference scanner")
		vfCover("message")
	case end > limit:
		vfCheck(err != nil, "object longer than the limit accepted")
		vfCover("over-limit")
	case end < 0:
		vfCheck(err != nil, "unbalanced closing brace accepted")
		vfCover("unbalanced")
	default:
		vfCheck(err != nil, "incomplete object accepted")
		vfCover("incomplete")
	}
}

// VerifH_body_chunks: the HttpBody chunker delivers a body as chunks of at most `limit` bytes whose
// concatenation is the body, for every body length around multiples of the limit, every read
// partition and carry-over.
func VerifH_body_chunks() {
	var c codecHTTPBody
	limit := 1 + vfLen(vfBound(2, 3)) // 1..3 | 1..4
	total := vfLen(3*limit + 1)
	body := vfBytes(total)
	r := &vfFragReader{data: body}
	if total > vfBound(7, 10) {
		r.greedy = true
		r.maxChunk = 1 + vfChoice(limit+1)
	}
	var carry []byte
	buf := make([]byte, 0, vfCapMenu())
	delivered := 0
	for iter := 0; iter < total+3; iter++ {
		b := append(buf[:0], carry...)
		b, n, err := c.ReadNext(b, r, limit)
		vfCheck(n >= 0 && n <= len(b), "ReadNext returned n outside 0..len(dst)")
		vfCheck(n <= limit, "chunk larger than the limit")
		if err != nil && err != io.EOF {
			vfFail("chunker failed on a healthy reader")
		}
		vfCheck(vfBytesEq(b[:n], body[delivered:delivered+n]), "chunk bytes differ from the body")
		delivered += n
		vfCheck(vfBytesEq(b[n:], body[delivered:r.pos]), "dst[n:] is not the unread remainder of the body")
		carry = append(carry[:0], b[n:]...)
		buf = b
		if n > 0 {
			vfCover("chunk")
		}
		if err == io.EOF && len(carry) == 0 {
			vfCheck(delivered == total, "end of body reported before every byte was delivered")
			vfCover("clean-eof")
			return
		}
		if err == io.EOF {
			vfFail("io.EOF reported while undelivered bytes remain in dst[n:]")
		}
	}
	vfFail("chunker did not finish the body within total+3 calls")
}
