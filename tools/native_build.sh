#!/bin/bash
# Compiles the harness overlay natively (type-check + link) against /repo.
python3 - <<'PY'
import json,glob,os
rep={}
for f in glob.glob('/verif/harness/larking/*.go'):
    b=os.path.basename(f)
    if b.endswith('_test.go'): rep['/repo/larking/zz_verif_replay_test.go']=f
    else: rep['/repo/larking/zz_verif_'+b]=f
for f in glob.glob('/tmp/dbg*_test.go'):
    rep['/repo/larking/zz_'+os.path.basename(f)]=f
json.dump({'Replace':rep},open('/tmp/ov.json','w'))
PY
cd /repo/larking && GOFLAGS=-mod=mod GOPROXY=off GOSUMDB=off GOTOOLCHAIN=local go test -overlay /tmp/ov.json -vet=off -count=1 -run "${1:-XXX}" -v . 2>&1 | tail -${2:-5}
