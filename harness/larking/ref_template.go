package larking

import (
	"unicode"
	"unicode/utf8"
)

// Reference model of the path-template grammar (lexer.go header; DESIGN Appendix C.1/C.2), written
// independently of larking's lexer as a recursive-descent parser over the raw string.

const (
	refValid = iota
	refInvalid
	refUnspecified
)

const (
	itLit = iota
	itStar
	itStarStar
)

type refItem struct {
	kind int
	lit  string
}

type refVar struct {
	field  string // dotted field path
	lo, hi int    // item span [lo,hi)
}

type refTmpl struct {
	items []refItem
	vars  []refVar
	verb  string
}

type refParser struct {
	s      string
	i      int
	t      refTmpl
	nested bool // a variable inside a variable was seen
	numLit bool // a literal starting with number/_/- was seen
	inVar  bool
}

func refIsLetterRune(r rune) bool { return unicode.IsLetter(r) }
func refIsIdentRune(r rune) bool {
	return unicode.IsLetter(r) || unicode.IsNumber(r) || r == '_' || r == '-'
}
func refIsLiteralRune(r rune) bool { return refIsIdentRune(r) || r == '.' }

func (p *refParser) peek() int {
	if p.i < len(p.s) {
		return int(p.s[p.i])
	}
	return -1
}

// rune at position i: ASCII bytes directly, otherwise UTF-8 decoded.
func (p *refParser) runeAt(i int) (rune, int) {
	if c := p.s[i]; c < utf8.RuneSelf {
		return rune(c), 1
	}
	return utf8.DecodeRuneInString(p.s[i:])
}

// literal = ( letter | [number _ - .] (flagged: lexical start of a LITERAL is not documented) ) { letter | number | _ | - | . }
func (p *refParser) literal() (string, bool) {
	st := p.i
	if p.i >= len(p.s) {
		return "", false
	}
	r, w := p.runeAt(p.i)
	if !refIsLiteralRune(r) {
		return "", false
	}
	if !refIsLetterRune(r) {
		p.numLit = true
	}
	p.i += w
	for p.i < len(p.s) {
		r, w := p.runeAt(p.i)
		if !refIsLiteralRune(r) {
			break
		}
		p.i += w
	}
	return p.s[st:p.i], true
}

func (p *refParser) ident() (string, bool) {
	st := p.i
	for p.i < len(p.s) {
		r, w := p.runeAt(p.i)
		if !refIsIdentRune(r) {
			break
		}
		p.i += w
	}
	return p.s[st:p.i], p.i > st
}

func (p *refParser) segment() bool {
	switch c := p.peek(); {
	case c == '*':
		p.i++
		if p.peek() == '*' {
			p.i++
			p.t.items = append(p.t.items, refItem{kind: itStarStar})
		} else {
			p.t.items = append(p.t.items, refItem{kind: itStar})
		}
		return true
	case c == '{':
		if p.inVar {
			p.nested = true
		}
		p.i++
		field, ok := p.ident()
		if !ok {
			return false
		}
		for p.peek() == '.' {
			p.i++
			id, ok := p.ident()
			if !ok {
				return false
			}
			field += "." + id
		}
		lo := len(p.t.items)
		if p.peek() == '=' {
			p.i++
			saved := p.inVar
			p.inVar = true
			if !p.segments() {
				return false
			}
			p.inVar = saved
		} else {
			p.t.items = append(p.t.items, refItem{kind: itStar})
		}
		if p.peek() != '}' {
			return false
		}
		p.i++
		p.t.vars = append(p.t.vars, refVar{field: field, lo: lo, hi: len(p.t.items)})
		return true
	default:
		lit, ok := p.literal()
		if !ok {
			return false
		}
		p.t.items = append(p.t.items, refItem{kind: itLit, lit: lit})
		return true
	}
}

func (p *refParser) segments() bool {
	for {
		if !p.segment() {
			return false
		}
		if p.peek() != '/' {
			return true
		}
		p.i++
	}
}

// refParseTemplate classifies t and, for valid templates, returns its structure.
func refParseTemplate(t string) (*refTmpl, int) {
	p := &refParser{s: t}
	if p.peek() != '/' {
		return nil, refInvalid
	}
	p.i++
	if !p.segments() {
		return nil, refInvalid
	}
	if p.peek() == ':' {
		p.i++
		v, ok := p.literal()
		if !ok {
			return nil, refInvalid
		}
		p.t.verb = v
	}
	if p.i != len(p.s) {
		return nil, refInvalid
	}
	if p.nested || p.numLit {
		return nil, refUnspecified
	}
	for i, it := range p.t.items {
		if it.kind == itStarStar && i != len(p.t.items)-1 {
			return nil, refUnspecified
		}
	}
	return &p.t, refValid
}
