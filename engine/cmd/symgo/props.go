package main

import "strings"

// HarnessSpec says how one harness is run for a property.
type HarnessSpec struct {
	Name         string
	Covers       []string // labels that must be reached (vacuity guard)
	Terminates   bool     // a path that exhausts the step budget is a violation (termination obligation)
	ThoroughOnly bool     // run in the thorough tier only
	MustViolate  string   // engine self-validation: the harness MUST end in a violation whose message contains this text (it is not a property violation and is not replayed)
	Concurrent   bool     // the harness runs goroutines: natively the schedule is Go's, so witness replays are compared by outcome kind only and violations are replayed many times
	MaxPathsQ    int      // path budgets (0 = default)
	MaxPathsT    int
	StepsQ       int
	StepsT       int
}

// PropSpec describes the check of one property.
type PropSpec struct {
	ID        string
	Harnesses []HarnessSpec
	Bounds    map[string]string // human-readable bounds per tier
	Assume    []string
	Outside   []string
}

var props = map[string]*PropSpec{}

func addProp(p *PropSpec) { props[p.ID] = p }

func init() {
	addProp(&PropSpec{
		ID: "C15",
		Harnesses: []HarnessSpec{
			{Name: "VerifH_timeout", Covers: []string{"accepted", "clamped", "rejected-shape", "rejected-nondigit", "signed"}},
		},
		Bounds: map[string]string{
			"quick":    "every grpc-timeout string of length 0..10 (all bytes symbolic)",
			"thorough": "every grpc-timeout string of length 0..10 (all bytes symbolic)",
		},
		Assume:  []string{"strconv.ParseInt interpreted from source (go1.23.5)", "fmt.Errorf texts are placeholders"},
		Outside: []string{"client cancellation / disconnect releasing a blocked handler (needs goroutines and the HTTP/2 server)", "sign-prefixed values (+1S, -1S) are declared unspecified"},
	})

	addProp(&PropSpec{
		ID: "C17",
		Harnesses: []HarnessSpec{
			{Name: "VerifH_proto_roundtrip", Covers: []string{"message", "clean-eof", "eof-with-data", "over-limit"}},
			{Name: "VerifH_proto_wire", Covers: []string{"message", "bad-prefix", "short-prefix", "over-limit", "prefix>=2^63", "truncated"}},
			{Name: "VerifH_json_roundtrip", Covers: []string{"message", "clean-eof", "eof-with-data"}},
			{Name: "VerifH_json_wire", Covers: []string{"message", "over-limit", "unbalanced", "incomplete"}},
			{Name: "VerifH_body_chunks", Covers: []string{"chunk", "clean-eof"}},
		},
		Bounds: map[string]string{
			"quick":    "proto: k<=2 messages of <=3 symbolic bytes, every read partition x EOF placement x 3 buffer capacities x limits 1..5; arbitrary wire <=11 symbolic bytes (all 1..10-byte prefixes, all uint64 sizes) x limit 1..12 x {greedy, byte-wise} reads; json: k<=2 objects from a 6-template grammar with symbolic filler, every partition of streams <=12 bytes; arbitrary json wire <=6 symbolic bytes; body chunker: limit 1..3, every body length 0..3*limit+1, every partition of bodies <=7 bytes",
			"thorough": "proto: k<=3, sizes<=4, wire<=13; json: k<=3, arbitrary wire<=8, partitions of streams<=13; body: limit 1..4, partitions of bodies<=10",
		},
		Assume:  []string{"io.Reader contract as modelled by vfFragReader (never (0,nil) on non-empty p; (n>0, io.EOF) allowed)", "protowire.ConsumeVarint/AppendVarint and io.ReadFull interpreted from source", "append growth = runtime.growslice of go1.23 (size classes)"},
		Outside: []string{"limit <= 0", "zero-byte non-error reads", "messages longer than the stated sizes (multi-byte prefixes are covered by the arbitrary-wire harness only)"},
	})
	addProp(&PropSpec{
		ID: "C05",
		Harnesses: []HarnessSpec{
			{Name: "VerifH_codes", Covers: []string{"in-range", "out-of-range"}},
			{Name: "VerifH_grpcmsg", Covers: []string{"escaped", "nonempty"}},
		},
		Bounds: map[string]string{
			"quick":    "status code: any uint32; grpc-message: every byte string of length 0..6",
			"thorough": "status code: any uint32; grpc-message: every byte string of length 0..9",
		},
		Assume:  []string{"fmt.Sprintf(\"%%%02x\", c) modelled exactly (two lower-case hex digits)", "strings.Builder interpreted from source"},
		Outside: []string{"what a real grpc-go / browser client decodes (transport stubs)", "JSON rendering of the status body"},
	})

	routeBounds := map[string]string{
		"quick":    "13 curated rule sets (2 methods, literals aa/bb, *, **, {f}, {f=aa/*}, {f=aa/**}, {f=aa/bb/**}, {f=*/bb}, nested field paths, :vv verbs, GET/POST/custom-* bindings, plus the implicit /Svc/Method rules) x request verbs {GET, POST, other} x every ASCII path of 1..8 bytes starting with '/' (bytes symbolic)",
		"thorough": "same rule sets x every ASCII path of 1..10 bytes",
	}
	routeAssume := []string{"fake protoreflect descriptors (plain Go, embedded interfaces) drive the real addRule/match", "protoreflect.Value leaf helpers (typeOf, valueOfString/Bytes/Iface, get*) modelled; its public methods interpreted from source", "the path starts with '/' (Mux.ServeHTTP prepends one)", "bytes < 0x80 (ASCII tier)", "status.Errorf / fmt texts are placeholders"}
	routeOutside := []string{"bytes >= 0x80 (unicode letters)", "paths longer than the bound (so the 64-token cap is not reached here)", "typed conversion of captures for non-string kinds (encoding/json reflection is not encoded)", "rule sets outside the listed family", "zero-segment '**' captures"}
	addProp(&PropSpec{
		ID:        "C01",
		Harnesses: []HarnessSpec{{Name: "VerifH_match_sound", Covers: []string{"dispatched", "not-dispatched", "captured"}}},
		Bounds:    routeBounds, Assume: routeAssume, Outside: routeOutside,
	})
	addProp(&PropSpec{
		ID: "C02",
		Harnesses: []HarnessSpec{
			{Name: "VerifH_match_complete", Covers: []string{"dispatched", "no-rule-matches", "literal-won"}},
			{Name: "VerifH_match_order", Covers: []string{"dispatched", "not-dispatched"}},
		},
		Bounds: routeBounds, Assume: routeAssume,
		Outside: append([]string{"registration orders other than reversal / rotation of the rule list", "literal-vs-wildcard domination inside variable patterns ({f=aa/*} vs {g=*/*}) is unspecified by the property text"}, routeOutside...),
	})

	addProp(&PropSpec{
		ID: "C16",
		Harnesses: []HarnessSpec{
			{Name: "VerifH_addRule_sym", Covers: []string{"invalid-rejected", "unspecified", "unknown-field", "conflict", "valid-accepted", "valid-with-variable", "old-route-intact"}},
			{Name: "VerifH_addRule_selectors", Covers: []string{"selector-rejected", "resp-whole", "resp-field"}},
			{Name: "VerifH_addRule_mut", Covers: []string{"invalid-rejected", "unspecified", "valid-accepted", "valid-with-variable", "unknown-field"}},
			{Name: "VerifH_addRule_collisions", Covers: []string{"redeclare-implicit", "own-path-verb", "star-vs-verb", "same-verb-conflict", "nested-bindings", "additional-bindings", "star-star-conflict", "same-short-name-conflict"}},
		},
		Bounds: map[string]string{
			"quick":    "every ASCII template string of 0..8 bytes (all bytes symbolic) registered with the real addRule onto an empty and a pre-populated trie; body selectors: menu + every ASCII string of 1..4 bytes, response_body: menu + every ASCII string of 1..3 bytes; 7 collision scenarios",
			"thorough": "templates of 0..10 bytes; selectors as quick",
		},
		Assume:  []string{"fake descriptors", "grammar of lexer.go's header with LITERAL/IDENT character classes of the token comments (Appendix C.1)", "bytes < 0x80"},
		Outside: []string{"nested variables, '**' before another segment, literals not starting with a letter, message-typed path fields: only panic-freedom is demanded (unspecified)", "kind '*' of one method vs a specific verb of another on the same path (unspecified)", "publication atomicity of registerService (claimed with C11/C12 once the registry driver exists)", "accepted => every instantiation routes: discharged over the rule-set family by C02"},
	})
	addProp(&PropSpec{
		ID: "C19",
		Harnesses: []HarnessSpec{
			{Name: "VerifH_selector", Covers: []string{"selected", "selected-by-wildcard", "selected-exact", "not-selected"}},
		},
		Bounds: map[string]string{
			"quick":    "one well-formed symbolic selector of 1..6 ASCII bytes plus one of {aa.*, aa.bb, *}, both registration orders, against every method full name of 3..7 ASCII bytes with >= 2 components",
			"thorough": "selector 1..7 bytes, names 3..9 bytes",
		},
		Assume:  []string{"selectors are well-formed (malformed selectors panic by design at option time)", "strings.Cut/Index modelled byte-wise"},
		Outside: []string{"health.AddHealthz end-to-end (proto.Merge and the real health server are not encoded)", "config-rule vs annotation equivalence through appendHandler (pending the registry driver)", "'pkg.*' against the name 'pkg' itself (zero further components) is unspecified"},
	})
	addProp(&PropSpec{
		ID: "C14",
		Harnesses: []HarnessSpec{
			{Name: "VerifH_binhdr", Covers: []string{"padded", "unpadded"}},
			{Name: "VerifH_outgoing", Covers: []string{"custom", "custom-bin", "details-bin", "grpc-prefixed-custom"}},
			{Name: "VerifH_incoming", Covers: []string{"padded", "unpadded"}},
		},
		Bounds: map[string]string{
			"quick":    "'-bin' values: padded and unpadded base64 of every byte string of 0..4 bytes; outgoing: reserved names, near-misses of grpc-status with one symbolic byte, every lower-case ASCII key of 1..4 bytes, symbolic values of 0..3 bytes, two values per key; incoming: two custom values of 0..2 symbolic bytes, binary value of 0..2 bytes",
			"thorough": "'-bin' values of 0..5 bytes; incoming binary 0..4",
		},
		Assume:  []string{"encoding/base64 and net/textproto.CanonicalMIMEHeaderKey interpreted from source", "handler metadata keys are lower-case (metadata.New / Pairs contract)", "context.WithValue built directly (comparability check skipped)"},
		Outside: []string{"client-visible trailers on gRPC / gRPC-web (needs the serveGRPC driver with the ResponseWriter model)", "grpc-go's client-side view, HPACK"},
	})

	addProp(&PropSpec{
		ID: "C08",
		Harnesses: []HarnessSpec{
			{Name: "VerifH_readAll", Terminates: true, StepsQ: 400000, StepsT: 400000, Covers: []string{"within", "at-limit", "over"}},
			{Name: "VerifH_writeAll", Covers: []string{"within", "over"}},
			{Name: "VerifH_grpc_recv", Covers: []string{"delivered", "delivered-decompressed", "over-limit", "over-limit-after-decompression", "truncated", "stats-inpayload", "undecodable"}},
			{Name: "VerifH_grpc_send", Covers: []string{"sent", "sent-above-receive-limit", "refused", "stats-outpayload", "compressed", "compressed-empty"}},
			{Name: "VerifH_proto_wire", Covers: []string{"over-limit", "prefix>=2^63", "message"}},
			{Name: "VerifH_http_recv_body", Covers: []string{"upload", "multi-chunk", "empty-upload"}},
			{Name: "VerifH_http_recv_stream", MaxPathsT: 6000000, Covers: []string{"clean-eof", "truncated", "empty-stream", "over-limit-refused"}},
		},
		Bounds: map[string]string{
			"quick":    "limits symbolic in 1..6; unary bodies of 0..7 bytes over every read partition; gRPC frames with a symbolic flag byte, all 2^32 length prefixes, 0..7 payload bytes present, fake decompression to 0..8 bytes; replies of 0..8 bytes with independent symbolic send and receive limits; varint prefixes over all of uint64; HttpBody uploads of every length 0..3*limit+1",
			"thorough": "unary bodies 0..9, gRPC payload 0..8, decompressed 0..10",
		},
		Assume:  []string{"Compressor is a fake whose output length is unrelated to its input (gzip's contract)", "recording codec stub (Unmarshal records the bytes it is handed)", "sync.Pool model: Get returns New() or the last Put object", "limits are symbolic small values: the comparisons are the same code as for the 4 MiB / 2 GiB defaults"},
		Outside: []string{"WebSocket messages (gobwas/ws frame I/O is not encoded; larking/websocket.go:89 has no size check - by reading, D17)", "gzip's real expansion", "limit <= 0"},
	})
	addProp(&PropSpec{
		ID: "C06",
		Harnesses: []HarnessSpec{
			{Name: "VerifH_http_recv_stream", MaxPathsT: 6000000, Covers: []string{"clean-eof", "truncated", "eof-with-data", "empty-stream"}},
			{Name: "VerifH_http_recv_body", Covers: []string{"upload", "multi-chunk", "empty-upload"}},
			{Name: "VerifH_http_send", Covers: []string{"stream", "unary", "httpbody"}},
			{Name: "VerifH_grpc_recv", Covers: []string{"delivered", "truncated"}},
			{Name: "VerifH_grpc_send", Covers: []string{"sent"}},
		},
		Bounds: map[string]string{
			"quick":    "HTTP client streams of k<=2 messages (proto: <=2 symbolic bytes each; json: 6-template grammar) through the real stream codecs, every read partition and EOF placement of streams <=9 bytes, every truncation offset; HttpBody uploads of every length 0..3*limit+1 for limit 1..3; server streams of 1..2 replies; one gRPC frame per direction",
			"thorough": "k<=3, partitions of streams <=10 bytes, limit 1..4",
		},
		Assume:  []string{"recording codec stub; real framing (CodecProto / CodecJSON / codecHTTPBody)", "vfFragReader model of the io.Reader contract", "an empty request body may yield one body-less first message (carrying path/query params) or EOF: unspecified"},
		Outside: []string{"WebSocket transport (gobwas/ws), gzip, real HTTP/2 flow control", "bidirectional interleaving (no goroutine model): the claim is per direction", "gRPC-web framing and multi-frame gRPC streams through serveGRPC (driver pending)"},
	})
	addProp(&PropSpec{
		ID: "C04",
		Harnesses: []HarnessSpec{
			{Name: "VerifH_negotiate_type", Covers: []string{"negotiated", "default", "several-header-lines", "long-q-value"}},
			{Name: "VerifH_negotiate_raw", Covers: []string{"done"}},
			{Name: "VerifH_http_send", Covers: []string{"unary", "response-body", "httpbody", "unary-refused", "httpbody-refused"}},
			{Name: "VerifH_addRule_selectors", Covers: []string{"resp-field", "resp-whole"}},
		},
		Bounds: map[string]string{
			"quick":    "Accept headers of 1..2 media ranges (*/*, a/*, a/b, x/y or a symbolic token/token) each with no q, q=0, q=1 or q=0.d (d symbolic), both separators; arbitrary Accept bytes of 0..5; replies of 0..4 symbolic bytes, HttpBody replies with symbolic content type (1..3 bytes) and data (0..7 bytes), symbolic send limit 1..6, response_body on/off",
			"thorough": "arbitrary Accept bytes 0..6; replies 0..6",
		},
		Assume:  []string{"recording codec stub: the claim is that the body is what the codec named by Content-Type produced, not the byte-level correctness of JSON / protobuf", "q-values are concretised (one fractional digit)", "liberal RFC 7231 reading: a more specific q=0 is not required to veto"},
		Outside: []string{"Content-Encoding truthfulness (needs the serveHTTP driver; gzip not encoded)", "byte-level JSON / protobuf encodings", "longer Accept headers and q-values with more digits"},
	})

	driverAssume := []string{"real NewMux + registerService + ServeHTTP run on fake descriptors registered in a real protoregistry.Files", "getExtensionHTTP answered from the fake method options (stub of proto.GetExtension)", "http.ResponseWriter modelled per net/http's documented rules (fakeRW)", "recording codec for application/x; the decoded body's field content is scripted", "net/url query parsing interpreted from source; values are 'plain' query bytes (no escapes)", "math/rand.Intn forked over its range"}
	addProp(&PropSpec{
		ID:        "C07",
		Harnesses: []HarnessSpec{{Name: "VerifH_serveHTTP_params", Covers: []string{"query-rival", "body-rival", "nested-bound", "query-param", "body-star", "body-field", "unknown-length"}}},
		Bounds: map[string]string{
			"quick":    "rules GET /{f}, GET /x/{h.k}, POST /{f}/y body:*, POST /aa/{f} body:h; capture and competing value: independent symbolic strings of 1..3 plain bytes; competing value supplied through the query string and/or the decoded body; optional second query parameter; body of 1..3 symbolic bytes",
			"thorough": "same",
		},
		Assume:  driverAssume,
		Outside: []string{"repeated path-bound fields (append semantics make 'authoritative' ill-defined)", "query map iteration orders other than the engine's (one competing key is used, so order does not matter)", "percent-escaped query values"},
	})
	addProp(&PropSpec{
		ID: "C03",
		Harnesses: []HarnessSpec{
			{Name: "VerifH_serveHTTP_params", Covers: []string{"query-param", "body-star", "body-field", "nested-bound"}},
			{Name: "VerifH_params", Covers: []string{"string", "json-name", "bytes", "bytes-rejected", "enum", "enum-rejected", "repeated", "nested", "through-list", "through-map", "unknown-key", "int32", "int32-rejected", "bool", "bool-rejected", "int64", "uint32", "uint32-rejected", "int-out-of-range-rejected", "int-at-range-limit", "float", "float-rejected"}},
			{Name: "VerifH_http_recv_stream", MaxPathsT: 6000000, Covers: []string{"clean-eof"}},
		},
		Bounds: map[string]string{
			"quick":    "query keys by proto and JSON name, dotted paths, repeated keys (2 values), unknown symbolic keys of 1..4 bytes, paths through repeated and map fields; values: strings 0..3 symbolic bytes, bytes fields: every text of 0..4 bytes against the proto3-JSON base64 rule, enum names / numbers of 1..4 ASCII bytes, int32 text of 1..4 bytes; bodies of 1..3 symbolic bytes into the whole message or the body field",
			"thorough": "bytes texts of 0..6 bytes",
		},
		Assume:  append([]string{"encoding/json.Unmarshal modelled exactly for bool / integer targets (JSON integer grammar, range check); other targets are not encoded", "bytes texts with non-zero trailing bits: acceptance unspecified"}, driverAssume...),
		Outside: []string{"float / double / 64-bit and well-known-type text conversion (protojson / encoding/json reflection is not encoded) - N/A part", "real JSON / protobuf body codecs and gzip: the claim is the plumbing (which bytes reach which codec on which (sub)message, params after the body, first message only) and the string / bytes / enum / int32 / bool conversions"},
	})

	// ---- Stage 3: clauses decided through the real ServeHTTP / serveGRPC / serveGRPCWeb drivers ----
	ext := func(id string, note string, hs ...HarnessSpec) {
		p := props[id]
		p.Harnesses = append(p.Harnesses, hs...)
		for k := range p.Bounds {
			p.Bounds[k] += "; " + note
		}
		p.Assume = append(p.Assume, driverAssume...)
	}
	ext("C05", "drivers: unary calls through serveGRPC / serveHTTP / serveGRPCWeb with handler codes 1..17 and symbolic messages of 0..2 bytes (gRPC: 0..2|4), Twirp and negotiated error bodies, gRPC-web binary and text mode over HTTP/1.1 and HTTP/2 with reply payloads of 0..3 bytes (all residues mod 3)",
		HarnessSpec{Name: "VerifH_serveGRPC", Covers: []string{"ok", "failed", "out-of-range-code"}},
		HarnessSpec{Name: "VerifH_serveHTTP_status", Covers: []string{"ok", "twirp", "status-body", "out-of-range-code"}},
		HarnessSpec{Name: "VerifH_grpcweb", Covers: []string{"ok", "text", "binary", "http2", "trailers-only"}})
	props["C05"].Outside = append(props["C05"].Outside, "WebSocket close frame (the block is inline behind ws.UpgradeHTTP, which needs a hijackable connection; by reading the close reason is never truncated to 123 bytes - D16)", "status details (proto.Marshal of the details is not encoded)", "json.Marshal of the Twirp error is modelled for messages that need no escaping")
	ext("C14", "drivers: header and trailer metadata (symbolic 1..2 byte values) set by the handler through grpc.SetHeader / SetTrailer, forged grpc-status / grpc-message trailers, as seen by the client through the ResponseWriter model on gRPC and in the gRPC-web trailer frame / trailers-only headers",
		HarnessSpec{Name: "VerifH_serveGRPC", Covers: []string{"ok", "failed", "metadata-set-twice"}},
		HarnessSpec{Name: "VerifH_grpcweb", Covers: []string{"ok", "trailers-only", "same-key-header-and-trailer"}})
	ext("C15", "driver: grpc-timeout header through serveGRPC: one digit x every unit (deadline seen by the handler) and every ASCII string of 1..3 bytes that decodeTimeout rejects (400, handler never invoked)",
		HarnessSpec{Name: "VerifH_serveGRPC_timeout", Covers: []string{"malformed", "deadline", "zero-timeout", "sub-second", "with-stats"}})
	props["C15"].Assume = append(props["C15"].Assume, "frozen clock: time.Now() is the zero Time, time.Until(t) = t - now; no timers run", "context.WithTimeout / WithCancel interpreted from source")
	ext("C06", "transport reachability and gRPC-web framing: unary gRPC-web calls in binary and base64 text mode over HTTP/1.1 and HTTP/2",
		HarnessSpec{Name: "VerifH_grpcweb", Covers: []string{"ok", "text", "binary", "http2"}})
	addProp(&PropSpec{
		ID: "C18",
		Harnesses: []HarnessSpec{
			{Name: "VerifH_serveGRPC", Covers: []string{"interceptor", "stats", "ok", "failed"}},
			{Name: "VerifH_serveHTTP_status", Covers: []string{"interceptor", "stats", "ok", "twirp", "status-body", "header-then-error", "header-then-reply", "http-header-metadata"}},
			{Name: "VerifH_grpc_recv", Covers: []string{"stats-inpayload"}},
			{Name: "VerifH_grpc_send", Covers: []string{"stats-outpayload"}},
		},
		Bounds: map[string]string{
			"quick":    "one unary RPC per run through serveGRPC and serveHTTP with every combination of {stats handler, unary interceptor} on/off x {success, failure with code 1..17 and a symbolic message}; request payloads of 0..2 bytes; payload stats on single gRPC frames of 0..7 bytes",
			"thorough": "same",
		},
		Assume:  driverAssume,
		Outside: []string{"proxied handlers over a real backend", "WebSocket stats (D28 by reading: End carries the upgrade error instead of the handler error)", "the relational 'options never change the outcome' clause is discharged by asserting the same client-visible oracle under every option combination"},
	})
	addProp(&PropSpec{
		ID: "C09",
		Harnesses: []HarnessSpec{
			{Name: "VerifH_entry", Covers: []string{"grpc-web-entry", "grpc-entry", "http-entry"}},
			{Name: "VerifH_match_tokencap", Covers: []string{"rejected", "dispatched"}},
			{Name: "VerifH_params", Covers: []string{"through-list", "through-map", "unknown-key"}},
			{Name: "VerifH_addRule_mut", Covers: []string{"invalid-rejected", "unspecified"}},
			{Name: "VerifH_proto_wire", Covers: []string{"bad-prefix", "prefix>=2^63", "truncated"}},
			{Name: "VerifH_json_wire", Covers: []string{"unbalanced", "incomplete"}},
			{Name: "VerifH_grpc_recv", Covers: []string{"over-limit", "truncated", "stats-inpayload"}},
			{Name: "VerifH_codes", Covers: []string{"out-of-range"}},
			{Name: "VerifH_negotiate_raw", Covers: []string{"done"}},
			{Name: "VerifH_timeout", Covers: []string{"rejected-shape", "rejected-nondigit"}},
			{Name: "VerifH_match_sound", Covers: []string{"dispatched", "not-dispatched"}},
		},
		Bounds: map[string]string{
			"quick":    "every harness listed runs with 'a panic escaping the code under test or a path exhausting the 2e6-step budget is a violation' as obligation: requests over {HTTP/1, HTTP/2} x {GET, POST} varying one of content type (10 shapes incl. symbolic suffixes), Accept (5 shapes incl. 0..3 symbolic bytes), path (incl. 0..3 symbolic bytes), body (0..6 symbolic bytes through the gRPC / gRPC-web / transcoding entries); paths of 58..62 tokens plus 0..5 symbolic bytes at the 64-token cap; the kernel harnesses of C01, C03, C05, C08, C15, C16, C17 at their quick bounds",
			"thorough": "the same harnesses at their thorough bounds",
		},
		Assume:  append([]string{"all media types are served by the recording codec (protobuf-go's real codecs cannot run on fake messages)"}, driverAssume...),
		Outside: []string{"the HTTP/2 server, ws.UpgradeHTTP and WebSocket frame I/O", "user-supplied interceptors", "real protobuf / JSON codecs and gzip"},
	})

	regAssume := append([]string{"descriptor discovery is stubbed: the reflection stream is a fake; under the engine proto.Unmarshal(FileDescriptorProto) / protodesc.NewFile / sha256 / newResolver are replaced (file name as opaque bytes, fake descriptors, injective hash) while the native replay uses real descriptor bytes and protobuf-go", "the REAL (*Mux).RegisterConn runs; only the reflection client of the backend connection is answered by the harness (fake conversation under the engine; natively a live in-process gRPC backend whose reflection service describes the current service set)"}, driverAssume...)
	addProp(&PropSpec{
		ID: "C11",
		Harnesses: []HarnessSpec{
			{Name: "VerifH_registry", Covers: []string{"register-local", "register-local-twice", "register-conn", "reregister-unchanged", "reregister-changed", "drop-conn", "drop-unknown", "failed-registration", "live-route", "dead-method"}},
		},
		Bounds: map[string]string{
			"quick":    "every history of 1..3 operations from {RegisterService(A), RegisterService(B), RegisterConn(c1:{A}), RegisterConn(c1:{B}), RegisterConn(c2:{A,B}), DropConn(c1), DropConn(c2), DropConn(unknown), failing registration}; after every step all 4 methods are checked against the reference model (backend counts, dropped handlers gone, handler pick, HTTP route of every live method); services share trie nodes (kind-* binding on an interior node, additional bindings)",
			"thorough": "histories of 1..4 operations",
		},
		Assume:  regAssume,
		Outside: []string{"invocation of proxied handlers (grpc-go client transports)", "longer histories", "a stale HTTP route of a method without backends may remain (the request then ends Unimplemented, which the property allows)"},
	})
	addProp(&PropSpec{
		ID: "C12",
		Harnesses: []HarnessSpec{
			{Name: "VerifH_registry", Covers: []string{"failed-registration", "reregister-unchanged", "drop-unknown", "register-conn", "drop-conn"}},
			{Name: "VerifH_registry_snapshot", Covers: []string{"dispatched", "not-dispatched"}},
		},
		Bounds: map[string]string{
			"quick":    "sequential premises of the copy-on-write argument: in every history of C11 the snapshot published before each writer has an unchanged structural fingerprint (printed trie, handler counts, connection count) after it, a failing / no-op operation leaves the routing state unchanged (a failed registerService leaves the pointer identical); relational: for 3 populated states x 6 second writers, an old snapshot resolves every ASCII path of 1..6 bytes x {GET, PUT} identically before and after the writer",
			"thorough": "paths of 1..8 bytes, histories of 1..4",
		},
		Assume:  regAssume,
		Outside: []string{"the interleaving quantifier itself and data-race freedom: the engine has no goroutine semantics, so removing Mux.mu or replacing the atomic publication by a plain field would NOT be detected (N/A part, stated)"},
	})
	addProp(&PropSpec{
		ID: "C13",
		Harnesses: []HarnessSpec{
			{Name: "VerifH_pool_alias", Covers: []string{"two-requests", "small-pooled-buffer"}},
		},
		Bounds: map[string]string{
			"quick":    "two HttpBody requests (receive + reply) processed back to back over larking's byte pool with independent symbolic bodies of 1..4 bytes; the pool hands the second request the buffer recycled by the first",
			"thorough": "same",
		},
		Assume:  []string{"sync.Pool model: Get returns the most recently Put object (the adversarial choice for aliasing), else New()", "sequentialised: the second request starts after the first has completed"},
		Outside: []string{"data-race freedom, true concurrency, gzip pools, the proxy's stream pumps: no goroutine model (N/A part, stated); only pooled-buffer aliasing across consecutive requests is decided"},
	})
	ext("C16", "registration atomicity through the real registerService: a failing registration leaves the published snapshot pointer-identical and the routing state unchanged (histories of C11)",
		HarnessSpec{Name: "VerifH_registry", Covers: []string{"failed-registration", "register-local-twice"}})
	ext("C19", "config-rule vs annotation: 3 rule shapes x every ASCII path of 1..8 bytes x {GET, POST}, two muxes built through NewMux(ServiceConfigOption) + registerService vs annotation + registerService",
		HarnessSpec{Name: "VerifH_config_vs_annotation", Covers: []string{"dispatched", "dispatched-by-rule", "not-dispatched", "only-star-selector", "rejected-alike"}})

	ext("C06", "gRPC bidirectional stream through serveGRPC: k<=2 request frames of 0..2 symbolic bytes, every partition of bodies <=6 bytes into reads (greedy chunks beyond), truncation of the last 1..2 bytes, j<=2 reply frames",
		HarnessSpec{Name: "VerifH_serveGRPC_stream", Covers: []string{"clean-eof", "truncated", "replies"}})
	ext("C18", "stream interceptor and per-message stats on a bidirectional gRPC stream (k<=2 in, j<=2 out)",
		HarnessSpec{Name: "VerifH_serveGRPC_stream", Covers: []string{"interceptor", "stats"}})

	ext("C07", "int32 path variable /n/{i} (digit 0..9, incl. the field's default 0) against a competing value 1..9 through the query or the decoded body",
		HarnessSpec{Name: "VerifH_serveHTTP_intparam", Covers: []string{"zero-capture", "query-rival", "body-rival"}})
	ext("C03", "int32 path variable through ServeHTTP",
		HarnessSpec{Name: "VerifH_serveHTTP_intparam", Covers: []string{"zero-capture"}})
	ext("C11", "register / drop / register-again of a connection under an adversarial map iteration order (one range statement over a map, chosen by fork, reversed); every route incl. additional bindings of the re-registered methods must dispatch; after every step of every history the path parameters of each live route are applied to a request message built from EACH live backend's own descriptors",
		HarnessSpec{Name: "VerifH_registry_maporder", Covers: []string{"reregistered"}})

	uni := "unicode: 3 rule sets with 2- and 3-byte UTF-8 letters (é, 日, 本) as literals, captures and around ':' verbs; paths = concrete unicode prefix (6 shapes) + 0..3 symbolic ASCII bytes + concrete unicode suffix (4 shapes)"
	ext("C01", uni, HarnessSpec{Name: "VerifH_match_unicode", Covers: []string{"dispatched", "captured", "not-dispatched", "unicode-suffix"}})
	ext("C02", uni, HarnessSpec{Name: "VerifH_match_unicode", Covers: []string{"dispatched", "no-rule-matches", "literal-won", "unicode-suffix"}})
	for _, id := range []string{"C01", "C02"} {
		for i, o := range props[id].Outside {
			if o == "bytes >= 0x80 (unicode letters)" {
				props[id].Outside[i] = "symbolic bytes >= 0x80 beyond VerifH_match_utf8's bound (elsewhere non-ASCII text is concrete: the letters é, 日, 本)"
			}
		}
	}
	pend := "server-initiated end of a bidirectional gRPC / gRPC-web call: the handler returns (OK or Aborted, with or without one reply) while its own goroutine waits in RecvMsg and the client keeps its sending side open (body Read blocks until Close); 0..1 request messages; every interleaving within the preemption bound; the call must complete, the status must reach the client and the pending receive must be released with an error"
	for _, id := range []string{"C09", "C15"} {
		ext(id, pend, HarnessSpec{Name: "VerifH_grpc_pending_recv", Concurrent: true, Covers: []string{"grpc", "web", "failing"}})
	}
	ext("C05", "Twirp error bodies for 17 status messages that need JSON escaping (control characters, DEL, quotes, backslashes, markup, non-ASCII, non-BMP, U+2028/9, format verbs, empty) x 16 codes: valid JSON (independent RFC 8259 reader) carrying the Twirp code name and exactly the message",
		HarnessSpec{Name: "VerifH_twirp_escape", Covers: []string{"twirp-escaped"}})
	ext("C05", "status details: a failing handler's status with 1..2 details (Any values, 0..2 symbolic payload bytes each), 16 codes, empty and non-empty message, on gRPC, gRPC-web (trailer frame and trailers-only) and HTTP transcoding; grpc-status-details-bin is decoded with an independent base64 and protobuf wire reader (proto.Marshal of google.rpc.Status modelled byte-exactly, the real one runs in replays)",
		HarnessSpec{Name: "VerifH_status_details", Covers: []string{"grpc", "web-trailers-only", "http", "empty-message"}})
	ext("C02", "completeness across registrations: after every step of the registration histories of C11 (services registered one after another on clones of the routing state, connections registered, dropped, re-registered) every rule of every live method - implicit /Service/Method paths and kind-* bindings of EARLIER registrations included - still dispatches",
		HarnessSpec{Name: "VerifH_registry", Covers: []string{"live-route", "register-local-twice", "register-conn"}})
	ext("C07", "WebSocket upgrade on /v1/{f=rooms/*} with and without a query parameter naming the path-bound field: the first message's field carries the path capture",
		HarnessSpec{Name: "VerifH_ws_stream", Covers: []string{"query-rival"}})
	for _, id := range []string{"C09", "C07"} {
		ext(id, "GET /aa/zz?<0..5 (quick) / 0..7 (thorough) fully symbolic bytes> through ServeHTTP with net/url's query parsing interpreted: one well-formed response, no crash; on dispatch the path-bound field holds the path capture and a plain g=<value> arrives verbatim",
			HarnessSpec{Name: "VerifH_serveHTTP_rawquery", Covers: []string{"refused", "delivered", "delivered-g"}})
	}
	for _, id := range []string{"C04", "C08"} {
		ext(id, "unary transcoded replies of limit-1, limit, limit+1 symbolic bytes through ServeHTTP with MaxSendMessageSizeOption: within the limit a 200 with exactly the reply's bytes, over the limit not delivered",
			HarnessSpec{Name: "VerifH_serveHTTP_sendlimit", Covers: []string{"within", "refused"}})
	}
	ext("C18", "larking's interceptor constructors NewUnaryContext / NewStreamContext through the gRPC entry for a unary method and each streaming shape: full method name, streaming flags, and the handler runs under the returned context",
		HarnessSpec{Name: "VerifH_context_helpers", Covers: []string{"unary", "client-stream", "server-stream", "bidi"}})
	for _, id := range []string{"C05", "C09"} {
		ext(id, "error bodies when the request's Content-Type is not a registered codec (absent, image/jpeg, text/plain with parameters, form post) x Accept absent / registered / unregistered x 16 codes: a response with the documented status and a Status body labelled with a registered codec's type",
			HarnessSpec{Name: "VerifH_error_body_ctype", Covers: []string{"handler-failed"}})
	}
	ext("C09", "unary body reader (readAll) on bodies below, at and above the receive limit over every read partition: terminates (a path that exhausts the step budget is a violation: the reader loops without consuming input)",
		HarnessSpec{Name: "VerifH_readAll", Terminates: true, StepsQ: 400000, StepsT: 400000, Covers: []string{"within", "at-limit", "over"}})
	for _, id := range []string{"C06", "C03", "C09"} {
		ext(id, "client-streaming method over plain HTTP through ServeHTTP (also under a user codec that is not a StreamCodec: an error, not a crash): 1..3 messages (length-delimited protobuf or JSON framing, symbolic bytes) in a body of known length, of unknown length (HTTP/2 style, ContentLength -1) or chunked: exactly the messages in order, then a clean end of stream, then the reply",
			HarnessSpec{Name: "VerifH_serveHTTP_clientstream", Covers: []string{"content-length", "unknown-length", "chunked", "codec-without-streaming"}})
	}
	ext("C03", "an HttpBody request message retained by its handler stays equal to what was sent while a later request reuses the pooled buffers",
		HarnessSpec{Name: "VerifH_pool_alias", Covers: []string{"two-requests"}})
	for _, id := range []string{"C06", "C09"} {
		ext(id, "server-streaming method over plain HTTP through ServeHTTP: 0..2 replies of 0..2 symbolic bytes in length-delimited framing: the response body is exactly the replies in order (also under a user codec that is not a StreamCodec: an error, not a crash)",
			HarnessSpec{Name: "VerifH_serveHTTP_serverstream", Covers: []string{"two-replies", "no-reply", "codec-without-streaming"}})
	}
	ext("C09", "one of 14 protocol headers (message / content / accept encodings, grpc-timeout, te, upgrade, connection, WebSocket handshake fields, '-bin' metadata, content-length, twirp-version) set to 0..2 (quick) / 0..3 (thorough) arbitrary bytes on the gRPC, gRPC-web, transcoding and WebSocket-handshake entries, with and without a stats handler: exactly one well-formed response, no crash",
		HarnessSpec{Name: "VerifH_entry_headers", Covers: []string{"answered"}})
	for _, id := range []string{"C13", "C06"} {
		ext(id, "client-streaming upload over plain HTTP with Content-Encoding: gzip (real gzip, pooled reader; 1..2 messages; body length known / unknown), then two decompressions in flight at once must each read their own stream",
			HarnessSpec{Name: "VerifH_gzip_stream", StepsQ: 40000000, StepsT: 40000000, Covers: []string{"gzip-upload", "unknown-length", "two-decompressions"}})
	}
	ext("C18", "HttpBody replies with a stats handler installed: one out-payload event per reply that was sent, none for a refused one",
		HarnessSpec{Name: "VerifH_http_send", Covers: []string{"httpbody-stats"}})
	wkt := "well-known-type parameters (google.protobuf wrappers, FieldMask, Duration, Timestamp) through the real parseQueryParams / parseParam / quote / params.set: the empty text for each of 10 types, a menu of 40 boundary texts (non-BMP strings, 32/64-bit limits, duration range and Go-style units, leap days, RFC 3339 range), symbolic texts of 1..3 (quick) / 1..4 (thorough) bytes for StringValue, BoolValue, Int32Value / UInt32Value, BytesValue, FieldMask; protojson's scalar forms modelled (model_wkt.go), generated messages seen through a fake reflection view"
	for _, id := range []string{"C03", "C09", "C01"} {
		ext(id, wkt, HarnessSpec{Name: "VerifH_params_wkt", Covers: []string{"empty-value", "menu-accepted", "menu-rejected", "string-wrapper", "bool-wrapper", "int-wrapper", "int-wrapper-rejected", "bytes-wrapper", "fieldmask", "fieldmask-rejected"}})
	}
	utf := "fully symbolic bytes (0x00..0xff, no ASCII restriction): 4 rule sets with unicode literals / variables, path = {/, /é/, /日/} + 1..3 (quick) / 1..5 (thorough) symbolic bytes incl. multi-byte letters, numbers (No, Nl), non-letters, truncated and invalid UTF-8; unicode.IsLetter / IsNumber beyond Latin-1 are encoded exactly from the interpreted package's own range tables (intr_unicode.go)"
	ext("C01", utf, HarnessSpec{Name: "VerifH_match_utf8", Covers: []string{"dispatched", "captured", "not-dispatched", "non-ascii-symbolic"}})
	ext("C02", utf, HarnessSpec{Name: "VerifH_match_utf8", Covers: []string{"dispatched", "no-rule-matches", "non-ascii-valid"}})
	ext("C16", "literal templates of 1..4 (quick) / 1..5 (thorough) fully symbolic bytes (no ASCII restriction): verdict per the grammar with Unicode letters / numbers, an accepted template routes its own text",
		HarnessSpec{Name: "VerifH_template_utf8", Covers: []string{"rejected", "accepted-non-ascii"}})

	ext("C04", "Content-Encoding truthfulness through ServeHTTP with a marking compressor registered as 'zz': Accept-Encoding in {absent, zz, gzip, *, 'zz;q=0, identity', 1..3 symbolic bytes} x request body plain / compressed",
		HarnessSpec{Name: "VerifH_serveHTTP_encoding", Covers: []string{"plain-response", "compressed-request"}})
	ext("C03", "request body sent with Content-Encoding (marking compressor) reaches the codec decompressed",
		HarnessSpec{Name: "VerifH_serveHTTP_encoding", Covers: []string{"compressed-request"}})

	ext("C06", "AsHTTPBodyReader / AsHTTPBodyWriter raw passthrough: uploads of 0..5 symbolic bytes over every read partition, downloads of 0..3 bytes, symbolic content type",
		HarnessSpec{Name: "VerifH_httpbody_passthrough", Covers: []string{"reader", "writer"}})

	wsAssume := []string{"gobwas/ws upgrade, frame reader / writer, masking and UTF-8 validation interpreted from source (strToBytes / btsToString conversions and sha1.Sum of the concrete nonce modelled)", "in-memory net.Conn with a hijackable ResponseWriter", "protojson: natively the real codec runs on the fake messages; under the engine its fragment for objects of escape-free strings and nested objects is modelled (model_protojson.go), compared on every run by witness replay"}
	dropOutside := func(id string, needle string) {
		var keep []string
		for _, o := range props[id].Outside {
			if !strings.Contains(o, needle) {
				keep = append(keep, o)
			}
		}
		props[id].Outside = keep
	}
	dropOutside("C05", "WebSocket close frame")
	dropOutside("C06", "WebSocket")
	dropOutside("C08", "WebSocket")
	dropOutside("C18", "WebSocket stats")
	props["C06"].Outside = append(props["C06"].Outside, "gzip, real HTTP/2 flow control")
	ext("C05", "WebSocket: a failing / succeeding handler behind a real ws.UpgradeHTTP; status codes 1..17, messages of 0..3, 121..124 and 130 bytes (close-reason capacity is 123)",
		HarnessSpec{Name: "VerifH_ws_close", Covers: []string{"normal-closure", "message-fits", "message-truncated"}})
	ext("C18", "WebSocket: End stats event of failing / succeeding handlers",
		HarnessSpec{Name: "VerifH_ws_close", Covers: []string{"stats"}})
	ext("C06", "WebSocket: k<=2 masked JSON text frames echoed by the handler, then the client's close frame",
		HarnessSpec{Name: "VerifH_ws_stream", Covers: []string{"echoed", "two-messages", "binary-frame", "fragmented-message"}})
	ext("C08", "WebSocket: a text message one byte above the receive limit among messages within it",
		HarnessSpec{Name: "VerifH_ws_stream", Covers: []string{"oversize", "echoed", "fragmented-message"}})
	ext("C03", "real JSON codec (CodecJSON / protojson) through ServeHTTP: path variable + query parameter + JSON body (body: * and body: field) with symbolic escape-free strings of 1..2 bytes",
		HarnessSpec{Name: "VerifH_serveHTTP_json", Covers: []string{"body-star", "body-field"}})
	ext("C04", "real JSON codec: the reply decoded from the response body equals the handler's reply",
		HarnessSpec{Name: "VerifH_serveHTTP_json", Covers: []string{"body-star", "accept-user-codec"}})
	for _, id := range []string{"C05", "C18", "C06", "C08", "C03", "C04"} {
		props[id].Assume = append(props[id].Assume, wsAssume...)
	}

	ext("C06", "gRPC per-message compression through serveGRPC with a marking compressor: compressed flag x negotiated encoding, payloads of 0..2 bytes",
		HarnessSpec{Name: "VerifH_serveGRPC_compressed", Covers: []string{"compressed-reply", "compressed-request", "plain", "flag-without-encoding"}})
	ext("C08", "gRPC per-message compression through the driver",
		HarnessSpec{Name: "VerifH_serveGRPC_compressed", Covers: []string{"compressed-request"}})

	norm := "path normalisation through ServeHTTP: rules GET /aa/{f} and GET /aa/{f=bb/*} plus the implicit binding, every ASCII request path of 0..7 bytes (with and without leading '/', trailing '/', '//')"
	ext("C01", norm, HarnessSpec{Name: "VerifH_serveHTTP_path", Covers: []string{"dispatched", "not-dispatched", "trailing-slash-stripped", "implicit"}})
	ext("C02", norm, HarnessSpec{Name: "VerifH_serveHTTP_path", Covers: []string{"dispatched", "not-dispatched"}})
	ext("C09", norm, HarnessSpec{Name: "VerifH_serveHTTP_path", Covers: []string{"dispatched", "not-dispatched"}})

	ext("C19", "health.AddHealthz end to end: AddHealthz (real) merged into an empty service config or one holding a user rule, NewMux(ServiceConfigOption) + registerService of a fake grpc.health.v1.Health descriptor whose Check handler is the REAL grpc health.Server (bridged message types), one SetServingStatus(name of 0..2 bytes, any of the 4 statuses) or none, GET /v1/healthz?service=<0..2 bytes> and the user's own path, WEBSOCKET /v1/healthz routed to Watch",
		HarnessSpec{Name: "VerifH_healthz", Covers: []string{"status-set", "status-unknown", "unknown-service", "user-rule-kept", "default-service", "other-config-does-not-leak"}})
	props["C19"].Assume = append(props["C19"].Assume, "proto.Merge(dst, src) on *serviceconfig.Service modelled: unset dst.Http takes src.Http, otherwise src's rules are appended (replays run the real Merge)", "the health server's generated request / response messages are bridged to fake messages field by field (service, status)")
	for i, o := range props["C19"].Outside {
		if strings.HasPrefix(o, "health.AddHealthz end-to-end") {
			props["C19"].Outside[i] = "health Watch stream contents over WebSocket (the binding's routing is checked, the watch loop blocks on channels); SetServingStatus histories longer than one call"
		}
	}

	ext("C15", "cancellation: the request context is cancelled while the handler runs (gRPC with and without grpc-timeout, gRPC-web over HTTP/1.1 and HTTP/2, HTTP transcoding) and the handler's own context must then be cancelled; a streaming gRPC handler whose client disconnects while it waits in RecvMsg (after 0..1 complete messages, 0..5 bytes into a further frame) or while it sends (connection gone from the 0th..3rd Write on)",
		HarnessSpec{Name: "VerifH_cancel", Covers: []string{"grpc", "grpc-with-timeout", "grpc-web", "http", "stream-between-messages", "stream-inside-message", "send-fails", "send-ok", "send-after-cancel"}})
	props["C15"].Assume = append(props["C15"].Assume, "net/http's contract stands in for the HTTP server: on disconnect the request context is cancelled and the blocked body Read / response Write returns an error (the harness's reader / writer do exactly that at the point where the real ones would block)")
	replaceOutside := func(id, prefix, with string) {
		found := false
		var keep []string
		for _, o := range props[id].Outside {
			if strings.HasPrefix(o, prefix) {
				found = true
				if with != "" {
					keep = append(keep, with)
				}
				continue
			}
			keep = append(keep, o)
		}
		if !found {
			panic("props: no outside entry of " + id + " starts with " + prefix)
		}
		props[id].Outside = keep
	}
	replaceOutside("C15", "client cancellation / disconnect", "goroutine-level blocking and the real HTTP/2 server: a disconnect is modelled sequentially (the blocked Read / Write fails and the request context is cancelled); WebSocket cancellation")
	replaceOutside("C03", "float / double / 64-bit", "float / double, uint64 / fixed64 and well-known-type text conversion (strconv float parsing and protojson's well-known types are not encoded) - N/A part")
	replaceOutside("C03", "real JSON / protobuf body codecs and gzip", "real protobuf binary bodies and gzip: the claim is the plumbing (which bytes reach which codec on which (sub)message, params after the body, first message only), the string / bytes / enum / bool / int32 / int64 / uint32 conversions, and JSON bodies of string and nested-message members through larking's JSON codec (protojson modelled, real in replays)")
	replaceOutside("C04", "Content-Encoding truthfulness", "gzip's real byte stream (Content-Encoding truthfulness is decided with a marking compressor registered under the negotiated encoding)")
	replaceOutside("C06", "gRPC-web framing and multi-frame gRPC streams", "gRPC-web streams of more than one request frame")
	replaceOutside("C14", "client-visible trailers on gRPC / gRPC-web", "")
	replaceOutside("C16", "publication atomicity of registerService", "")
	replaceOutside("C19", "config-rule vs annotation equivalence", "")

	gz := "REAL compress/gzip (and compress/flate, hash/crc32) interpreted on concrete payloads {1 byte, 64 x 'a', 30 distinct bytes} with larking's pooled CompressorGzip, receive limit 32, two consecutive calls on one mux (the second reuses the pooled reader / writer; full menu for the second call in the thorough tier)"
	ext("C13", gz+"; pooled compressor used 2x then a truncated stream (every cut of 1..9 bytes) then 2 decompressions",
		HarnessSpec{Name: "VerifH_gzip_pool", StepsQ: 40000000, StepsT: 40000000, Covers: []string{"roundtrip", "after-corrupt-stream"}},
		HarnessSpec{Name: "VerifH_gzip_http", StepsQ: 40000000, StepsT: 40000000, Covers: []string{"second-call", "gzip-request", "truncated-request", "pool-probe"}},
		HarnessSpec{Name: "VerifH_gzip_grpc", StepsQ: 40000000, StepsT: 40000000, Covers: []string{"second-call", "gzip-request", "gzip-reply", "truncated-request", "pool-probe"}})
	ext("C08", gz+"; HTTP Content-Encoding: gzip bodies and gRPC compressed frames around the limit",
		HarnessSpec{Name: "VerifH_gzip_http", StepsQ: 40000000, StepsT: 40000000, Covers: []string{"over-limit-after-decompression", "within-limit-though-compressed-form-is-larger"}},
		HarnessSpec{Name: "VerifH_gzip_grpc", StepsQ: 40000000, StepsT: 40000000, Covers: []string{"over-limit-after-decompression"}})
	ext("C03", gz+"; gzip content-encoded request bodies (valid and truncated)",
		HarnessSpec{Name: "VerifH_gzip_http", StepsQ: 40000000, StepsT: 40000000, Covers: []string{"gzip-request", "truncated-request", "unknown-length"}})
	ext("C04", gz+"; every response body decoded as its Content-Encoding header says is the reply / the error status, with and without Accept-Encoding: gzip, for succeeding and failing handlers",
		HarnessSpec{Name: "VerifH_gzip_http", StepsQ: 40000000, StepsT: 40000000, Covers: []string{"error-with-accept-gzip", "gzip-request"}})
	ext("C06", gz+"; gRPC per-message gzip compression in both directions",
		HarnessSpec{Name: "VerifH_gzip_grpc", StepsQ: 40000000, StepsT: 40000000, Covers: []string{"gzip-request", "gzip-reply", "truncated-request"}})
	replaceOutside("C03", "real protobuf binary bodies and gzip", "real protobuf binary bodies; gzip with symbolic payload bytes (payloads are concrete): the claim is the plumbing (which bytes reach which codec on which (sub)message, params after the body, first message only), the string / bytes / enum / bool / int32 / int64 / uint32 conversions, and JSON bodies of string and nested-message members through larking's JSON codec (protojson modelled, real in replays)")
	replaceOutside("C04", "gzip's real byte stream", "a gzip-compressed RESPONSE: NewMux builds its encoding offers from the codec names, so response compression is never negotiated on this tree; the harness checks that branch (with the real gzip) as soon as a change makes it reachable")
	replaceOutside("C06", "gzip, real HTTP/2 flow control", "real HTTP/2 flow control; gzip with symbolic payload bytes")
	replaceOutside("C08", "gzip's real expansion", "gzip with symbolic payload bytes; whether a compressed FRAME longer than the limit around a message within it must be accepted (grpc-go refuses it too) is left unspecified")
	replaceOutside("C09", "real protobuf / JSON codecs and gzip", "real protobuf codec; gzip streams with symbolic bytes")
	replaceOutside("C13", "data-race freedom, true concurrency, gzip pools", "data-race freedom, true concurrency, the proxy's stream pumps: no goroutine model (N/A part, stated); pooled-buffer aliasing and pooled gzip reader / writer reuse are decided across consecutive requests")

	typed := "typed path variables through ServeHTTP: int32 (every plain ASCII capture of 1..2 bytes, so 0 and -0 are included), bool (false / true / 0 / False) and a field with a distinct JSON name, each with and without a rival query parameter naming the same field (by proto or JSON name); path variables bound to well-known message types (Int32Value with captures 0 and 5, FieldMask) with a rival query value"
	ext("C07", typed, HarnessSpec{Name: "VerifH_serveHTTP_typed", Covers: []string{"zero-capture-with-rival", "rival-by-json-name", "query-rival", "int", "bool", "oneof-member", "wkt-wrapper", "wkt-fieldmask"}})
	ext("C01", typed, HarnessSpec{Name: "VerifH_serveHTTP_typed", Covers: []string{"int", "bool", "int-rejected", "bool-rejected", "json-name-field"}})
	ext("C03", typed, HarnessSpec{Name: "VerifH_serveHTTP_typed", Covers: []string{"int", "bool", "int-rejected", "bool-rejected"}})

	ext("C04", "unary replies through ServeHTTP with a handler that sends its headers explicitly (grpc.SendHeader) before replying: the reply is still labelled with the negotiated content type",
		HarnessSpec{Name: "VerifH_serveHTTP_status", Covers: []string{"ok", "header-then-reply"}})

	conc := "goroutine model (cooperative, context-bounded: at most 2 preemptive switches per path in the quick tier, 3 in the thorough tier; scheduling points at mutex, RWMutex, WaitGroup, Once, sync/atomic incl. atomic.Value, sync.Pool, channel operations, goroutine start / end and the reflection round trips): the REAL RegisterConn / registerService / DropConn, two of them running concurrently with each other and with a request for an already-registered method, 3 scenarios"
	ext("C12", conc,
		HarnessSpec{Name: "VerifH_sched_selftest", Concurrent: true, Covers: []string{"lost-update", "no-lost-update"}},
		HarnessSpec{Name: "VerifH_conc_registration", Concurrent: true, Covers: []string{"registerconn-registerservice", "registerconn-dropconn", "registerservice-dropconn", "failed-registerconn", "failed-after-earlier-success"}})
	props["C12"].Assume = append(props["C12"].Assume, "the reflection client of a backend connection is answered by the harness's fake conversation (natively a real in-process gRPC backend with a real reflection service is dialled)", "plain (unsynchronised) memory accesses are not scheduling points")
	replaceOutside("C12", "the interleaving quantifier itself and data-race freedom", "schedules with more preemptions than the bound, interleavings of unsynchronised memory accesses between two scheduling points, and data-race freedom as such (no happens-before tracking): replacing the atomic publication by a plain field would NOT be detected; removing or narrowing Mux.mu is (lost update)")

	ext("C13", "goroutine model (context bound 2 / 3, scheduling points at every pool operation, atomic load and network read / write): two requests served concurrently by one mux, every mix of HTTP transcoding, gRPC and gRPC-web text, payloads of 12 and 2 bytes competing for one recycled 32-byte buffer",
		HarnessSpec{Name: "VerifH_conc_requests", Concurrent: true, Covers: []string{"http", "grpc", "grpc-web-text", "grpc-compressed"}})
	replaceOutside("C13", "data-race freedom, true concurrency, the proxy's stream pumps", "data-race freedom as such (no happens-before tracking), more than two concurrent requests, schedules beyond the context bound, interleavings of unsynchronised memory accesses between two scheduling points, the proxy's stream pumps; pooled-buffer aliasing and pooled gzip reader / writer reuse are decided across consecutive AND concurrent requests")

	addProp(&PropSpec{
		ID: "C10",
		Harnesses: []HarnessSpec{
			{Name: "VerifH_proxy", Concurrent: true, MaxPathsT: 4000000, Covers: []string{"U", "CS", "SS", "BD", "succeeds", "fails-before", "fails-during", "fails-after", "replies-after-end-of-stream", "returns-without-reading-all", "client-keeps-stream-open", "multi-valued-metadata", "status-with-details", "http-front"}},
		},
		Bounds: map[string]string{
			"quick":    "one gRPC call through the REAL RegisterConn + createConnHandler + serveGRPC for each streaming shape (unary, client, server, bidirectional); backend scripts: 0..2 replies (exactly 1 / 0 for single-reply shapes), final status OK / NotFound / Canceled / Unavailable, failing before reading, right after the first reply or at the end, reading the request stream first / last / never; client: 0..2 request messages, ending its stream or keeping it open until the call ends, one metadata value; goroutine model with context bound 1 (the proxy's pump goroutine, the backend handler goroutine and the serving goroutine; scheduling points at every channel / WaitGroup / pool / atomic operation and every network read / write of the fakes)",
			"thorough": "context bound 2",
		},
		Assume: []string{
			"grpc-go's client transport is replaced under the engine: (*grpc.ClientConn).NewStream / Invoke are answered by an in-memory stream (buffered channels) whose far end runs the SAME scripted backend handler that the native replay runs behind a real in-process grpc.Server (bufconn) - every replay therefore compares the model with real grpc-go",
			"model of the in-memory stream: SendMsg after the call ended returns io.EOF except for the first SendMsg after NewStream (a real transport needs a round trip to learn that); RecvMsg of a call without server streaming returns only when the call has ended and returns its error status (grpc-go's documented behaviour); no flow control (channel capacity 8)",
			"message bytes are opaque under the engine (they travel as the unknown fields of interpreted dynamicpb messages through a pass-through codec registered as application/grpc+dual); natively the real protobuf codec runs",
			"the reflection conversation of RegisterConn is the fake one under the engine, a real reflection service natively",
			"the client -> larking leg is the ResponseWriter / request-body model used by the other drivers (also natively)",
			"go/ssa (x/tools v0.29.0) as the semantics of the source", "solver verdicts of z3-new (incremental, with one-shot fallback)",
		},
		Outside: []string{"status details and trailer metadata set by the backend", "response headers set by the backend (clientStream.Header is not forwarded by larking at all: by reading, not checked)", "calls over the HTTP-transcoding, gRPC-web and WebSocket front ends to a proxied backend", "more than 2 messages per direction, flow control, deadlines and cancellation propagation to the backend", "schedules beyond the context bound", "a client that neither sends a message nor ends its stream"},
	})

	addProp(&PropSpec{
		ID: "C20",
		Harnesses: []HarnessSpec{
			{Name: "VerifH_server_prefix", Covers: []string{"default-mount", "two-prefixes", "transcoding", "query", "error", "twirp-error", "grpc", "grpc-web", "unrouted", "outside-prefix", "mux-alone"}},
		},
		Bounds: map[string]string{
			"quick":    "NewServer (real; net/http.ServeMux pattern registration and routing, http.StripPrefix, the h2c wrapper and http2.ConfigureServer interpreted from source) with 4 mount configurations (default, MuxHandleOption(/api/), MuxHandleOption(/api, /v2/x/), MuxHandleOption(/)) plus HTTPHandlerOption(/static/); one request per entry kind - transcoding with a symbolic 1..2 byte path segment, failing handler (google.rpc.Status and Twirp error rendering), unary gRPC (ProtoMajor 2), unary gRPC-web, an unrouted path - sent as prefix+path to the server's handler and as path to an identically built bare mux: status, every response header, body, handler invocations and captured path variables must be equal; the same request under /other is answered 404 without reaching the mux; GET /static/file reaches the extra handler",
			"thorough": "as quick",
		},
		Assume:  append([]string{"the request enters at http.Server.Handler.ServeHTTP with the request object net/http would build (the HTTP/1.1 and HTTP/2 wire layers, TLS and h2c upgrade are not exercised)", "runtime.Caller answers 'unknown' (ServeMux uses it only to word registration conflicts)"}, driverAssume...),
		Outside: []string{"unclean paths ('.', '..', '//' segments): net/http.ServeMux answers them with a 301 before any handler runs, so NewServer is not transparent for them under ANY pattern including the default - unspecified, not asserted", "the request to exactly the prefix without trailing slash (ServeMux redirects it)", "host-specific and method-specific ServeMux patterns", "streaming calls, WebSocket upgrade through the mounted server", "the HTTP/2 and TLS layers"},
	})

	race := "happens-before race detection on the explored schedules (vector clocks per simulated goroutine; edges from mutex, RWMutex, WaitGroup, Once, sync/atomic, atomic.Value, Pool and channel operations and the go statement; loads, stores and map accesses executed by SSA instructions are checked; a reported race is confirmed natively under `go test -race`)"
	ext("C12", race,
		HarnessSpec{Name: "VerifH_race_selftest_clean", Concurrent: true, Covers: []string{"clean"}},
		HarnessSpec{Name: "VerifH_race_selftest_racy", Concurrent: true, MustViolate: "data race:"})
	ext("C13", race)
	replaceOutside("C12", "schedules with more preemptions than the bound", "schedules with more preemptions than the bound, interleavings of unsynchronised memory accesses between two scheduling points (atomicity violations there are invisible; data RACES on them are reported by the happens-before detector), accesses made inside engine intrinsics (copy, append, library models) are not race-checked")
	replaceOutside("C13", "data-race freedom as such (no happens-before tracking)", "races on memory touched only inside engine intrinsics (copy, append, library models), more than two concurrent requests, schedules beyond the context bound, interleavings of unsynchronised memory accesses between two scheduling points, the proxy's stream pumps under C13 (exercised, with race detection, under C10); pooled-buffer aliasing and pooled gzip reader / writer reuse are decided across consecutive AND concurrent requests")

	ext("C13", "two goroutines compressing through one pooled CompressorGzip at the same time (real gzip interpreted, scheduling points at pool operations and destination writes, race detection on)",
		HarnessSpec{Name: "VerifH_gzip_conc", Concurrent: true, StepsQ: 40000000, StepsT: 40000000, Covers: []string{"two-compressions"}})
	ext("C13", "HTTP client streams (every read partition, as under C06) with the byte pool scribbled over between two receives, as a concurrent request would do",
		HarnessSpec{Name: "VerifH_http_recv_stream", MaxPathsT: 6000000, Covers: []string{"clean-eof", "truncated"}})

	ext("C18", "calls to a PROXIED backend (real RegisterConn + createConnHandler, in-memory backend stream under the engine / real grpc.Server natively, goroutine model with context bound 1): the four streaming shapes, succeeding and failing backend, interceptors + stats handler on and off",
		HarnessSpec{Name: "VerifH_proxy_intercept", Concurrent: true, Covers: []string{"options-off", "unary-interceptor", "stream-interceptor", "failing", "interceptor-replaces-reply", "interceptor-rewrites-metadata"}})
	replaceOutside("C18", "proxied handlers over a real backend", "per-message payload stats events of proxied streams")

	ext("C09", "WebSocket entry after a real upgrade (gobwas/ws interpreted): arbitrary client bytes - a symbolic 2-byte frame header (every opcode, FIN / RSV and mask bit, declared length 0..9) plus 0..5 (6) symbolic bytes, and frames announcing 125 bytes, a 16-bit and a 64-bit extended length with 2..3 bytes sent - then the connection ends",
		HarnessSpec{Name: "VerifH_ws_raw", Terminates: true, Covers: []string{"no-message", "long-announced", "extended-16", "extended-64"}})
	replaceOutside("C09", "the HTTP/2 server, ws.UpgradeHTTP and WebSocket frame I/O", "the HTTP/2 server; WebSocket frames with declared lengths of 10..124 bytes and fragmented (continuation) messages longer than the byte bound")

	gen := "thorough tier only: a GENERATED rule-set family - every ordered pair of 18 templates (one per segment-kind combination of the grammar: literal, '*', '**', variable with / without pattern, verb suffix, nested field path, wildcard before a literal; the second rule binds other fields) registered in both orders, every ASCII request path of 0..8 bytes, verbs GET / POST: soundness, completeness / literal precedence and order independence together"
	for _, id := range []string{"C01", "C02"} {
		props[id].Bounds["thorough"] += "; " + gen
		props[id].Harnesses = append(props[id].Harnesses, HarnessSpec{Name: "VerifH_match_generated", ThoroughOnly: true, Covers: []string{"generated", "dispatched", "not-dispatched"}})
	}

	verbsNote := "one template bound with each rule pattern kind (get, put, post, delete, patch, custom) to six methods: each verb reaches its own method, an unbound verb is not dispatched"
	ext("C01", verbsNote, HarnessSpec{Name: "VerifH_match_verbs", Covers: []string{"verb-GET", "verb-PUT", "verb-POST", "verb-DELETE", "verb-PATCH", "verb-LIST", "unbound-verb"}})
	ext("C02", verbsNote, HarnessSpec{Name: "VerifH_match_verbs", Covers: []string{"verb-PUT", "verb-DELETE", "verb-PATCH"}})
	ext("C01", "typed conversion of captured / query text by parseParam (the same function converts path captures): string, bytes (padded and unpadded base64, both alphabets), enum, bool, int32 / int64 / uint32 incl. range limits",
		HarnessSpec{Name: "VerifH_params", Covers: []string{"bytes", "bytes-rejected", "int32", "bool"}})
	dr := "four overlapping variable bindings of four methods on one trie node, registered in either order; after delRule of any one the trie routes every ASCII path /v1/<0..5 (6) bytes> exactly as a trie built without that rule"
	ext("C02", dr, HarnessSpec{Name: "VerifH_match_delrule", Covers: []string{"dispatched", "not-dispatched"}})
	ext("C11", dr, HarnessSpec{Name: "VerifH_match_delrule", Covers: []string{"dispatched", "not-dispatched"}})
	ext("C16", "field paths of variables and body selectors over a request type with nested (depth 3), repeated and map message fields: 10 paths x {variable, body}; accepted ones must route and be storable, paths through repeated / map / scalar / unknown fields must be rejected",
		HarnessSpec{Name: "VerifH_addRule_fieldpaths", Covers: []string{"accepted", "rejected", "depth-3"}})
	replaceOutside("C16", "kind '*' of one method vs a specific verb of another on the same path (unspecified)", "a kind-* binding added on a path where another method already holds one specific verb (the reverse order is asserted to be a conflict)")

	ext("C16", "panic-freedom at the lexer's 64-token cap (shared with C09)", HarnessSpec{Name: "VerifH_match_tokencap", Covers: []string{"rejected", "dispatched"}})

	ext("C09", "a mux with nothing registered yet (every entry kind, DropConn of an unknown connection); WebSocket upgrade on a connection that cannot be hijacked",
		HarnessSpec{Name: "VerifH_entry_empty", Covers: []string{"grpc", "grpc-web", "http", "websocket", "with-stats", "unknown-method"}},
		HarnessSpec{Name: "VerifH_ws_raw", Covers: []string{"not-hijackable"}},
		HarnessSpec{Name: "VerifH_serveHTTP_status", Covers: []string{"empty-reply", "stats"}})
	ext("C11", "a mux with nothing registered yet", HarnessSpec{Name: "VerifH_entry_empty", Covers: []string{"grpc", "http"}})
	replaceOutside("C03", "float / double, uint64 / fixed64 and well-known-type text conversion", "float / double text conversion on SYMBOLIC text (decided on a menu of concrete texts around the float32 / float64 ranges, converted by the host's encoding/json), uint64 / fixed64 and well-known-type text conversion (protojson's well-known types are not encoded) - N/A part")

	ext("C03", "HttpBody request bodies: every chunk handed to the handler carries the REQUEST's content type (not the type the reply is negotiated to)",
		HarnessSpec{Name: "VerifH_http_recv_body", Covers: []string{"upload", "multi-chunk"}})

	ext("C08", "stream codec limits (shared with C17): ReadNext must report a message longer than the limit as an error, never deliver it; compressed replies exactly at / one past the send limit",
		HarnessSpec{Name: "VerifH_json_wire", Covers: []string{"over-limit", "message"}},
		HarnessSpec{Name: "VerifH_proto_wire", Covers: []string{"over-limit", "message"}},
		HarnessSpec{Name: "VerifH_grpc_send", Covers: []string{"compressed-at-limit", "compressed-refused"}})
	// session of 2026-09-28: well-known types, status details, copy / append in the race detector
	replaceOutside("C03", "float / double text conversion on SYMBOLIC text", "float / double text conversion on SYMBOLIC text (decided on a menu of concrete texts around the float32 / float64 ranges, converted by the host's encoding/json); FloatValue / DoubleValue / Struct / Value / ListValue parameters; protojson forms of the well-known types outside model_wkt.go (exponent notation, quoted numbers, RFC 3339 offsets other than Z) - there the model answers 'error' and nothing is asserted")
	replaceOutside("C10", "status details and trailer metadata set by the backend", "trailer metadata set by the backend")
	replaceOutside("C13", "races on memory touched only inside engine intrinsics (copy, append, library models)", "races on memory touched only inside library models (copy / append element accesses ARE recorded), more than two concurrent requests, schedules beyond the context bound, interleavings of unsynchronised memory accesses between two scheduling points, the proxy's stream pumps under C13 (exercised, with race detection, under C10); pooled-buffer aliasing and pooled gzip reader / writer reuse are decided across consecutive AND concurrent requests")
	replaceOutside("C12", "schedules with more preemptions than the bound", "schedules with more preemptions than the bound, interleavings of unsynchronised memory accesses between two scheduling points (atomicity violations there are invisible; data RACES on them are reported by the happens-before detector), accesses made inside library models are not race-checked (copy / append element accesses are)")

}
