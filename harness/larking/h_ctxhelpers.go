package larking

import (
	"context"
	"net/http"
	"net/url"

	"google.golang.org/grpc"
)

func init() {
	vfHarnesses["VerifH_context_helpers"] = VerifH_context_helpers
}

// VerifH_context_helpers (C18): larking's own interceptor constructors NewUnaryContext /
// NewStreamContext hand the context function the method's full name and its streaming flags
// (client-streaming, server-streaming) - for a unary method and for each streaming shape, through
// the real gRPC entry.
func VerifH_context_helpers() {
	in := schemaRoute()
	out := newFakeMD("vf.Resp", strField("r"))
	shape := vfChoice(4) // 0 unary, 1 client stream, 2 server stream, 3 bidi
	cs := shape == 1 || shape == 3
	ss := shape == 2 || shape == 3
	type seen struct {
		method     string
		isC, isS   bool
		calls      int
		handlerCtx bool
	}
	var got seen
	type ctxKey struct{}
	fn := func(ctx context.Context, fullMethod string, isClientStream, isServerStream bool) context.Context {
		got.method, got.isC, got.isS = fullMethod, isClientStream, isServerStream
		got.calls++
		return context.WithValue(ctx, ctxKey{}, "tagged")
	}
	md := &fakeMethod{full: "vf.S.M0", in: in, out: out, cs: cs, ss: ss, opts: &fakeOpts{}}
	svc := &fakeSvc{full: "vf.S", methods: &fakeMethodList{list: []*fakeMethod{md}}}
	rec := &fakeCodec{name: "fake"}
	mux, err := NewMux(FilesOption(vfRegistry(svc)), CodecOption("application/x", rec),
		UnaryServerInterceptorOption(NewUnaryContext(fn)), StreamServerInterceptorOption(NewStreamContext(fn)))
	if err != nil {
		vfFail("NewMux failed")
	}
	var sd *grpc.ServiceDesc
	if shape == 0 {
		srv := &vfServer{in: in, out: out, reply: newFakeMsg(out)}
		srv.reply.payload = []byte("REPLY")
		srv.hook = func(ctx context.Context) { got.handlerCtx = ctx.Value(ctxKey{}) == "tagged" }
		sd = &grpc.ServiceDesc{ServiceName: "vf.S", Methods: []grpc.MethodDesc{{MethodName: "M0", Handler: vfUnaryHandler}}}
		if err := mux.registerService(sd, srv); err != nil {
			vfFail("registerService failed: " + err.Error())
		}
	} else {
		h := func(s interface{}, stream grpc.ServerStream) error {
			got.handlerCtx = stream.Context().Value(ctxKey{}) == "tagged"
			for {
				m := newFakeMsg(in)
				if e := stream.RecvMsg(m); e != nil {
					break
				}
			}
			return nil
		}
		sd = &grpc.ServiceDesc{ServiceName: "vf.S", Streams: []grpc.StreamDesc{{StreamName: "M0", Handler: h, ClientStreams: cs, ServerStreams: ss}}}
		if err := mux.registerService(sd, &vfStreamSrv{in: in}); err != nil {
			vfFail("registerService failed: " + err.Error())
		}
	}
	r := &http.Request{Method: "POST", URL: &url.URL{Path: "/vf.S/M0"},
		Header: http.Header{"Content-Type": []string{"application/grpc+fake"}, "Te": []string{"trailers"}},
		Body:   vfNopCloser{&vfWholeReader{data: []byte{0, 0, 0, 0, 1, 'p'}}}, ContentLength: -1, ProtoMajor: 2}
	w := newFakeRW()
	mux.ServeHTTP(w, r)
	w.finish()
	gs, _ := w.trailer("Grpc-Status")
	vfCheck(len(gs) == 1 && gs[0] == "0", "the call did not succeed with the context helpers installed")
	vfCheck(got.calls >= 1, "the context function was not called")
	vfCheck(got.method == "/vf.S/M0", "the context function did not get the method's full name")
	vfCheck(got.isC == cs && got.isS == ss, "the context function got wrong streaming flags")
	vfCheck(got.handlerCtx, "the handler does not run under the context the context function returned")
	vfCover([]string{"unary", "client-stream", "server-stream", "bidi"}[shape])
}
