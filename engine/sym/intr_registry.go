package sym

import (
	"go/types"

	"golang.org/x/tools/go/ssa"
)

// Stubs of descriptor discovery for the registration harness (DESIGN §2.7): what a backend's
// reflection service describes is outside the claim; the bookkeeping around it is real.
func init() {
	harnessAPI["vfFileBytes"] = func(m *Machine, args []Value) Value {
		return m.strToBytes(args[0].(Str))
	}
	// proto.Unmarshal(b, *descriptorpb.FileDescriptorProto): the opaque bytes are the file name.
	reg("google.golang.org/protobuf/proto.Unmarshal", func(m *Machine, fn *ssa.Function, args []Value) Value {
		target := args[1].(Iface)
		if target.T == nil || target.T.String() != "*google.golang.org/protobuf/types/descriptorpb.FileDescriptorProto" {
			m.unsupported("proto.Unmarshal into " + m.show(target))
		}
		st := target.T.Underlying().(*types.Pointer).Elem().Underlying().(*types.Struct)
		cell := target.V.(*Value)
		s := (*cell).(Struct)
		for i := 0; i < st.NumFields(); i++ {
			if st.Field(i).Name() == "Name" {
				np := new(Value)
				*np = m.bytesToStr(args[0].(Slice))
				m.set(&s[i], np)
			}
		}
		return Iface{}
	})
	// protodesc.NewFile(fd, resolver): the harness's fake descriptors for that file name.
	reg("google.golang.org/protobuf/reflect/protodesc.NewFile", func(m *Machine, fn *ssa.Function, args []Value) Value {
		get := m.methodOf(types.NewPointer(m.Prog.Package("google.golang.org/protobuf/types/descriptorpb").Type("FileDescriptorProto").Type()), "GetName")
		name := m.callFn(get, []Value{args[0]}, nil)
		f := m.Prog.Func("vfFakeFileByName")
		if f == nil {
			m.unsupported("vfFakeFileByName not defined by the harness")
		}
		fd := m.callFn(f, []Value{name}, nil).(Iface)
		if fd.T == nil {
			return Tuple{fd, m.newError(Str{S: "verif: unknown file"}, Iface{})}
		}
		return Tuple{fd, Iface{}}
	})
	reg("crypto/sha256.New", func(m *Machine, fn *ssa.Function, args []Value) Value {
		f := m.Prog.Func("vfNewHash")
		if f == nil {
			m.unsupported("vfNewHash not defined by the harness")
		}
		return m.callFn(f, nil, nil)
	})
	// larking.newResolver registers the real google.api descriptor files (protobuf-go globals): skipped.
	reg("larking.io/larking.newResolver", func(m *Machine, fn *ssa.Function, args []Value) Value {
		rt := fn.Signature.Results().At(0).Type()
		cell := new(Value)
		st := m.zero(deref(rt)).(Struct)
		st[0] = args[0]
		*cell = st
		return Tuple{cell, Iface{}}
	})
}
