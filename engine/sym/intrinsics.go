package sym

import (
	"fmt"
	"go/types"
	"strings"

	"golang.org/x/tools/go/ssa"
)

type intrinsic func(m *Machine, fn *ssa.Function, args []Value) Value

var intrinsics = map[string]intrinsic{}

// prefixIntrinsics match instantiated generics and families by name prefix.
var prefixIntrinsics []struct {
	prefix string
	f      intrinsic
}

func lookupIntrinsic(m *Machine, fn *ssa.Function, name string) (intrinsic, bool) {
	if f, ok := intrinsics[name]; ok {
		return f, true
	}
	for _, p := range prefixIntrinsics {
		if strings.HasPrefix(name, p.prefix) {
			return p.f, true
		}
	}
	return nil, false
}

func reg(name string, f intrinsic) { intrinsics[name] = f }

func (m *Machine) i64(v int) *Term { return m.C.BV(64, uint64(int64(v))) }

// goString returns the concrete Go string of a Str, concretising symbolic bytes is NOT done:
// symbolic strings are rendered with a placeholder.
func goString(s Str) string {
	if s.Concrete() {
		return s.S
	}
	return fmt.Sprintf("<sym:%d>", s.Len())
}

// nativeArg converts an engine value to a native Go value for fmt.
func (m *Machine) nativeArg(v Value) interface{} {
	switch v := v.(type) {
	case Iface:
		if v.T == nil {
			return nil
		}
		// error / Stringer first
		if _, isBasic := v.T.Underlying().(*types.Basic); !isBasic {
			if s, ok := m.tryErrorString(v); ok {
				return fmtString(s)
			}
		}
		return m.nativeTyped(v.V, v.T)
	}
	return m.nativeTyped(v, nil)
}

type fmtString string

func (s fmtString) String() string { return string(s) }

func (m *Machine) nativeTyped(v Value, t types.Type) interface{} {
	switch v := v.(type) {
	case *Term:
		if !v.IsConst() {
			return "<sym>"
		}
		if v.W == 0 {
			return v.Val != 0
		}
		if t != nil && isUnsigned(t) {
			switch v.W {
			case 8:
				return uint8(v.Val)
			case 16:
				return uint16(v.Val)
			case 32:
				return uint32(v.Val)
			}
			return v.Val
		}
		switch v.W {
		case 8:
			return int8(v.Val)
		case 16:
			return int16(v.Val)
		case 32:
			return int32(v.Val)
		}
		return int64(v.Val)
	case Str:
		return goString(v)
	case float64:
		return v
	case Slice:
		if t != nil {
			if st, ok := t.Underlying().(*types.Slice); ok {
				if b, ok := st.Elem().Underlying().(*types.Basic); ok && b.Kind() == types.Uint8 {
					bs := make([]byte, len(v))
					for i, e := range v {
						et := e.(*Term)
						if !et.IsConst() {
							return "<sym-bytes>"
						}
						bs[i] = byte(et.Val)
					}
					return bs
				}
				if isString(st.Elem()) {
					ss := make([]string, len(v))
					for i, e := range v {
						ss[i] = goString(e.(Str))
					}
					return ss
				}
			}
		}
		return fmt.Sprintf("<slice len %d>", len(v))
	case *Value:
		if v == nil {
			return nil
		}
		return "<ptr>"
	}
	return fmt.Sprintf("<%T>", v)
}

func (m *Machine) sprintf(format Str, rest Slice) Str {
	if !format.Concrete() {
		return Str{S: "<sym-format>"}
	}
	// exact model of "%%%02x" with one (possibly symbolic) byte: larking's percent-encoder
	if format.S == "%%%02x" && len(rest) == 1 {
		if i, ok := rest[0].(Iface); ok {
			if t, ok := i.V.(*Term); ok && t.W == 8 {
				hex := func(n *Term) *Term { // 4-bit value -> ascii
					n8 := m.C.Zext(n, 8)
					return m.C.Ite(m.C.Cmp(OpUlt, n8, m.C.BV(8, 10)),
						m.C.Bin(OpAdd, n8, m.C.BV(8, '0')), m.C.Bin(OpAdd, n8, m.C.BV(8, 'a'-10)))
				}
				return m.mkStr([]*Term{m.C.BV(8, '%'), hex(m.C.Extract(t, 7, 4)), hex(m.C.Extract(t, 3, 0))})
			}
		}
	}
	nat := make([]interface{}, len(rest))
	for i, a := range rest {
		nat[i] = m.nativeArg(a)
	}
	return Str{S: fmt.Sprintf(format.S, nat...)}
}

func init() {
	reg("fmt.Sprintf", func(m *Machine, fn *ssa.Function, args []Value) Value {
		rest, _ := args[1].(Slice)
		return m.sprintf(args[0].(Str), rest)
	})
	reg("fmt.Errorf", func(m *Machine, fn *ssa.Function, args []Value) Value {
		rest, _ := args[1].(Slice)
		s := m.sprintf(args[0].(Str), rest)
		// wrap support: if the format has %w, keep the first error operand
		var wrapped Value = Iface{}
		if f := args[0].(Str); f.Concrete() && strings.Contains(f.S, "%w") {
			for _, a := range rest {
				if i, ok := a.(Iface); ok && i.T != nil && m.Prog.implements(i.T, errorIface()) {
					wrapped = i
					break
				}
			}
		}
		return m.newError(s, wrapped)
	})
	reg("fmt.Sprint", func(m *Machine, fn *ssa.Function, args []Value) Value {
		rest, _ := args[0].(Slice)
		nat := make([]interface{}, len(rest))
		for i, a := range rest {
			nat[i] = m.nativeArg(a)
		}
		return Str{S: fmt.Sprint(nat...)}
	})
	reg("fmt.Sprintln", func(m *Machine, fn *ssa.Function, args []Value) Value {
		rest, _ := args[0].(Slice)
		nat := make([]interface{}, len(rest))
		for i, a := range rest {
			nat[i] = m.nativeArg(a)
		}
		return Str{S: fmt.Sprintln(nat...)}
	})
	// Fprint*: format (natively, placeholders for symbolic operands) and Write to the interpreted writer.
	fprint := func(kind string) intrinsic {
		return func(m *Machine, fn *ssa.Function, args []Value) Value {
			var text Str
			switch kind {
			case "f":
				rest, _ := args[2].(Slice)
				text = m.sprintf(args[1].(Str), rest)
			default:
				rest, _ := args[1].(Slice)
				nat := make([]interface{}, len(rest))
				allStr := true
				for i, a := range rest {
					nat[i] = m.nativeArg(a)
					if ia, ok := a.(Iface); !ok || !isString(ia.T) {
						allStr = false
					}
				}
				if allStr && len(rest) == 1 {
					// keep symbolic content of a single string operand
					text = rest[0].(Iface).V.(Str)
					if kind == "ln" {
						text = m.strConcat(text, Str{S: "\n"})
					}
				} else if kind == "ln" {
					text = Str{S: fmt.Sprintln(nat...)}
				} else {
					text = Str{S: fmt.Sprint(nat...)}
				}
			}
			w := args[0].(Iface)
			if w.T == nil {
				m.rtPanic("invalid memory address or nil pointer dereference (nil io.Writer)")
			}
			wf := m.methodOf(w.T, "Write")
			if wf == nil {
				m.unsupported("Fprint to a writer without Write: " + w.T.String())
			}
			return m.callFn(wf, []Value{w.V, m.strToBytes(text)}, nil)
		}
	}
	reg("fmt.Fprintf", fprint("f"))
	reg("fmt.Fprintln", fprint("ln"))
	reg("fmt.Fprint", fprint(""))
	for _, n := range []string{"log.Printf", "log.Println", "log.Print"} {
		reg(n, func(m *Machine, fn *ssa.Function, args []Value) Value { return nil })
	}

	// ---- internal/bytealg and friends: byte-wise models using Decide -----------------------
	reg("internal/bytealg.IndexByteString", func(m *Machine, fn *ssa.Function, args []Value) Value {
		s := args[0].(Str)
		c := m.asTerm(args[1])
		for i := 0; i < s.Len(); i++ {
			if m.Decide(m.C.Eq(m.strAt(s, i), c)) {
				return m.i64(i)
			}
		}
		return m.i64(-1)
	})
	reg("internal/bytealg.IndexByte", func(m *Machine, fn *ssa.Function, args []Value) Value {
		s := args[0].(Slice)
		c := m.asTerm(args[1])
		for i := 0; i < len(s); i++ {
			if m.Decide(m.C.Eq(m.asTerm(s[i]), c)) {
				return m.i64(i)
			}
		}
		return m.i64(-1)
	})
	reg("internal/bytealg.CountString", func(m *Machine, fn *ssa.Function, args []Value) Value {
		s := args[0].(Str)
		c := m.asTerm(args[1])
		n := 0
		for i := 0; i < s.Len(); i++ {
			if m.Decide(m.C.Eq(m.strAt(s, i), c)) {
				n++
			}
		}
		return m.i64(n)
	})
	reg("internal/bytealg.Count", func(m *Machine, fn *ssa.Function, args []Value) Value {
		s := args[0].(Slice)
		c := m.asTerm(args[1])
		n := 0
		for i := 0; i < len(s); i++ {
			if m.Decide(m.C.Eq(m.asTerm(s[i]), c)) {
				n++
			}
		}
		return m.i64(n)
	})
	indexStr := func(m *Machine, a, b Str) Value {
		n := b.Len()
		for i := 0; i+n <= a.Len(); i++ {
			if m.Decide(m.strEq(m.strSlice(a, i, i+n), b)) {
				return m.i64(i)
			}
		}
		return m.i64(-1)
	}
	reg("internal/bytealg.IndexString", func(m *Machine, fn *ssa.Function, args []Value) Value {
		return indexStr(m, args[0].(Str), args[1].(Str))
	})
	reg("internal/bytealg.Index", func(m *Machine, fn *ssa.Function, args []Value) Value {
		return indexStr(m, m.bytesToStr(args[0].(Slice)), m.bytesToStr(args[1].(Slice)))
	})
	reg("strings.Index", func(m *Machine, fn *ssa.Function, args []Value) Value {
		return indexStr(m, args[0].(Str), args[1].(Str))
	})
	reg("bytes.Index", func(m *Machine, fn *ssa.Function, args []Value) Value {
		return indexStr(m, m.bytesToStr(args[0].(Slice)), m.bytesToStr(args[1].(Slice)))
	})
	indexAny := func(m *Machine, s Str, chars Str) Value {
		if !chars.Concrete() {
			m.unsupported("IndexAny with symbolic character set")
		}
		for i := 0; i < len(chars.S); i++ {
			if chars.S[i] >= 0x80 {
				m.unsupported("IndexAny with non-ASCII character set")
			}
		}
		for i := 0; i < s.Len(); i++ {
			c := m.strAt(s, i)
			hit := m.C.False
			for j := 0; j < len(chars.S); j++ {
				hit = m.C.Or(hit, m.C.Eq(c, m.C.BV(8, uint64(chars.S[j]))))
			}
			if m.Decide(hit) {
				return m.i64(i)
			}
		}
		return m.i64(-1)
	}
	reg("bytes.IndexAny", func(m *Machine, fn *ssa.Function, args []Value) Value {
		sl, _ := args[0].(Slice)
		return indexAny(m, m.bytesToStr(sl), args[1].(Str))
	})
	reg("strings.IndexAny", func(m *Machine, fn *ssa.Function, args []Value) Value {
		return indexAny(m, args[0].(Str), args[1].(Str))
	})
	reg("internal/bytealg.Equal", func(m *Machine, fn *ssa.Function, args []Value) Value {
		return m.strEq(m.bytesToStr(args[0].(Slice)), m.bytesToStr(args[1].(Slice)))
	})
	reg("bytes.Equal", func(m *Machine, fn *ssa.Function, args []Value) Value {
		a, _ := args[0].(Slice)
		b, _ := args[1].(Slice)
		return m.strEq(m.bytesToStr(a), m.bytesToStr(b))
	})
	reg("internal/bytealg.Compare", func(m *Machine, fn *ssa.Function, args []Value) Value {
		a, b := m.bytesToStr(args[0].(Slice)), m.bytesToStr(args[1].(Slice))
		if m.Decide(m.strEq(a, b)) {
			return m.i64(0)
		}
		if m.Decide(m.strLess(a, b)) {
			return m.i64(-1)
		}
		return m.i64(1)
	})
	cmpStr := func(m *Machine, a, b Str) Value {
		if m.Decide(m.strEq(a, b)) {
			return m.i64(0)
		}
		if m.Decide(m.strLess(a, b)) {
			return m.i64(-1)
		}
		return m.i64(1)
	}
	reg("internal/bytealg.CompareString", func(m *Machine, fn *ssa.Function, args []Value) Value {
		return cmpStr(m, args[0].(Str), args[1].(Str))
	})
	reg("strings.Compare", func(m *Machine, fn *ssa.Function, args []Value) Value {
		return cmpStr(m, args[0].(Str), args[1].(Str))
	})
	reg("internal/bytealg.MakeNoZero", func(m *Machine, fn *ssa.Function, args []Value) Value {
		n := m.ConcInt(args[0])
		s := make(Slice, n)
		for i := range s {
			s[i] = m.C.BV(8, 0)
		}
		return s
	})
	reg("internal/stringslite.Clone", func(m *Machine, fn *ssa.Function, args []Value) Value { return args[0] })
	reg("strings.Clone", func(m *Machine, fn *ssa.Function, args []Value) Value { return args[0] })
	reg("internal/abi.NoEscape", func(m *Machine, fn *ssa.Function, args []Value) Value { return args[0] })
	reg("internal/abi.Escape", func(m *Machine, fn *ssa.Function, args []Value) Value { return args[0] })
	reg("internal/race.Acquire", func(m *Machine, fn *ssa.Function, args []Value) Value { return nil })
	reg("internal/race.Release", func(m *Machine, fn *ssa.Function, args []Value) Value { return nil })
	reg("internal/race.ReleaseMerge", func(m *Machine, fn *ssa.Function, args []Value) Value { return nil })
	reg("internal/race.Enable", func(m *Machine, fn *ssa.Function, args []Value) Value { return nil })
	reg("internal/race.Disable", func(m *Machine, fn *ssa.Function, args []Value) Value { return nil })
	reg("runtime.KeepAlive", func(m *Machine, fn *ssa.Function, args []Value) Value { return nil })
	reg("(*strings.Builder).copyCheck", func(m *Machine, fn *ssa.Function, args []Value) Value { return nil })
	reg("(*strings.Builder).String", func(m *Machine, fn *ssa.Function, args []Value) Value {
		b := (*args[0].(*Value)).(Struct)
		buf, _ := b[1].(Slice)
		return m.bytesToStr(buf)
	})

	// ---- sync: sequential models -----------------------------------------------------------
	reg("(*sync.Once).Do", func(m *Machine, fn *ssa.Function, args []Value) Value {
		o := (*args[0].(*Value)).(Struct)
		// field 0: done atomic.Uint32 (struct{_ noCopy; v uint32}) or uint32 depending on version
		doneCell := &o[0]
		if st, ok := (*doneCell).(Struct); ok {
			doneCell = &st[len(st)-1]
		}
		m.yield()
		if m.concurrent() {
			// a second caller waits until the first one's function has returned
			m.block(func() bool { return !m.sch.onces[doneCell] }, "sync.Once.Do")
		}
		if t := (*doneCell).(*Term); t.IsConst() && t.Val != 0 {
			m.hbAcquire(doneCell)
			return nil
		}
		m.set(doneCell, m.C.BV((*doneCell).(*Term).W, 1))
		m.sch.onces[doneCell] = true
		func() {
			defer func() { m.sch.onces[doneCell] = false; m.hbRelease(doneCell) }()
			m.callValue(args[1], nil, nil)
		}()
		return nil
	})
	reg("(*sync.Pool).Get", func(m *Machine, fn *ssa.Function, args []Value) Value {
		p := args[0].(*Value)
		m.yield()
		m.hbAcquire(p)
		if objs := m.pools[p]; len(objs) > 0 {
			v := objs[len(objs)-1]
			m.pools[p] = objs[:len(objs)-1]
			return v
		}
		st := (*p).(Struct)
		newFn := st[len(st)-1]
		if c, ok := newFn.(*Closure); ok && c == nil {
			return Iface{}
		}
		return m.callValue(newFn, nil, nil)
	})
	reg("(*sync.Pool).Put", func(m *Machine, fn *ssa.Function, args []Value) Value {
		p := args[0].(*Value)
		m.yield()
		if i, ok := args[1].(Iface); ok && i.T == nil {
			return nil
		}
		m.hbRelease(p)
		m.pools[p] = append(m.pools[p], args[1])
		// a second scheduling point AFTER the object is in the pool: another goroutine may take it
		// before this one executes its next statement (use-after-Put)
		m.yield()
		return nil
	})

	// sync/atomic primitives over cells
	for _, ty := range []string{"Int32", "Int64", "Uint32", "Uint64", "Uintptr", "Pointer"} {
		reg("sync/atomic.Load"+ty, func(m *Machine, fn *ssa.Function, args []Value) Value {
			m.yield()
			m.hbAcquire(args[0])
			return m.load(args[0])
		})
		reg("sync/atomic.Store"+ty, func(m *Machine, fn *ssa.Function, args []Value) Value {
			m.yield()
			m.hbAcquire(args[0])
			m.hbRelease(args[0])
			m.store(args[0], args[1])
			return nil
		})
		reg("sync/atomic.Swap"+ty, func(m *Machine, fn *ssa.Function, args []Value) Value {
			m.yield()
			m.hbAcquire(args[0])
			m.hbRelease(args[0])
			old := m.load(args[0])
			m.store(args[0], args[1])
			return old
		})
		reg("sync/atomic.CompareAndSwap"+ty, func(m *Machine, fn *ssa.Function, args []Value) Value {
			m.yield()
			m.hbAcquire(args[0])
			m.hbRelease(args[0])
			old := m.load(args[0])
			if m.Decide(m.eqVal(old, args[1])) {
				m.store(args[0], args[2])
				return m.C.True
			}
			return m.C.False
		})
		if ty != "Pointer" {
			reg("sync/atomic.Add"+ty, func(m *Machine, fn *ssa.Function, args []Value) Value {
				m.yield()
				m.hbAcquire(args[0])
				m.hbRelease(args[0])
				nv := m.C.Bin(OpAdd, m.asTerm(m.load(args[0])), m.asTerm(args[1]))
				m.store(args[0], nv)
				return nv
			})
		}
	}
	// atomic.Value: field v any
	reg("(*sync/atomic.Value).Load", func(m *Machine, fn *ssa.Function, args []Value) Value {
		m.yield()
		m.hbAcquire(args[0])
		st := (*args[0].(*Value)).(Struct)
		return st[0]
	})
	reg("(*sync/atomic.Value).Store", func(m *Machine, fn *ssa.Function, args []Value) Value {
		st := (*args[0].(*Value)).(Struct)
		if i, ok := args[1].(Iface); ok && i.T == nil {
			panic(targetPanic{msg: "sync/atomic: store of nil value into Value", stack: m.stackString()})
		}
		m.yield()
		m.hbAcquire(args[0])
		m.hbRelease(args[0])
		m.set(&st[0], args[1])
		return nil
	})

	// ---- errors ----------------------------------------------------------------------------
	reg("errors.Is", func(m *Machine, fn *ssa.Function, args []Value) Value {
		return m.C.Bool(m.errorsIs(args[0].(Iface), args[1].(Iface), 0))
	})
	reg("errors.As", func(m *Machine, fn *ssa.Function, args []Value) Value {
		return m.C.Bool(m.errorsAs(args[0].(Iface), args[1].(Iface), 0))
	})

	// ---- time ------------------------------------------------------------------------------
	reg("time.Now", func(m *Machine, fn *ssa.Function, args []Value) Value {
		return m.zero(fn.Signature.Results().At(0).Type())
	})
	timeSub := func(m *Machine, a, b Value) Value {
		tt := m.Prog.Package("time").Type("Time").Type()
		f := m.methodOf(tt, "Sub")
		return m.callFn(f, []Value{a, b}, nil)
	}
	// the engine's clock is frozen at the zero Time: Until(t) = t - now, Since(t) = now - t
	reg("time.Since", func(m *Machine, fn *ssa.Function, args []Value) Value {
		return timeSub(m, m.zero(fn.Signature.Params().At(0).Type()), args[0])
	})
	reg("time.Until", func(m *Machine, fn *ssa.Function, args []Value) Value {
		return timeSub(m, args[0], m.zero(fn.Signature.Params().At(0).Type()))
	})
	reg("time.AfterFunc", func(m *Machine, fn *ssa.Function, args []Value) Value {
		// no timers run: the returned *Timer is inert
		cell := new(Value)
		*cell = m.zero(deref(fn.Signature.Results().At(0).Type()))
		return cell
	})
	reg("(*time.Timer).Stop", func(m *Machine, fn *ssa.Function, args []Value) Value { return m.C.True })
	reg("(*time.Timer).Reset", func(m *Machine, fn *ssa.Function, args []Value) Value { return m.C.True })
}

func errorIface() *types.Interface {
	return types.Universe.Lookup("error").Type().Underlying().(*types.Interface)
}

// newError builds a *errors.errorString-like error value using fmt.wrapError / errors.errorString types.
func (m *Machine) newError(msg Str, wrapped Value) Value {
	if w, ok := wrapped.(Iface); ok && w.T != nil {
		if p := m.Prog.Package("fmt"); p != nil {
			if t := p.Type("wrapError"); t != nil {
				var cell Value = Struct{msg, w}
				return Iface{T: types.NewPointer(t.Type()), V: &cell}
			}
		}
	}
	p := m.Prog.Package("errors")
	t := p.Type("errorString")
	var cell Value = Struct{msg}
	return Iface{T: types.NewPointer(t.Type()), V: &cell}
}

func (m *Machine) methodOf(t types.Type, name string) *ssa.Function {
	ms := m.Prog.SSA.MethodSets.MethodSet(t)
	for i := 0; i < ms.Len(); i++ {
		if ms.At(i).Obj().Name() == name {
			return m.Prog.SSA.MethodValue(ms.At(i))
		}
	}
	return nil
}

func (m *Machine) unwrap(err Iface) []Iface {
	f := m.methodOf(err.T, "Unwrap")
	if f == nil {
		return nil
	}
	r := m.callFn(f, []Value{err.V}, nil)
	switch r := r.(type) {
	case Iface:
		if r.T == nil {
			return nil
		}
		return []Iface{r}
	case Slice:
		var out []Iface
		for _, e := range r {
			if i := e.(Iface); i.T != nil {
				out = append(out, i)
			}
		}
		return out
	}
	return nil
}

func (m *Machine) errorsIs(err, target Iface, depth int) bool {
	if err.T == nil || target.T == nil {
		return err.T == nil && target.T == nil
	}
	if depth > 10 {
		return false
	}
	if types.Comparable(target.T) && types.Identical(err.T, target.T) {
		if m.Decide(m.eqVal(err.V, target.V)) {
			return true
		}
	}
	if f := m.methodOf(err.T, "Is"); f != nil && f.Signature.Params().Len() == 1 {
		if m.Decide(m.asTerm(m.callFn(f, []Value{err.V, target}, nil))) {
			return true
		}
	}
	for _, u := range m.unwrap(err) {
		if m.errorsIs(u, target, depth+1) {
			return true
		}
	}
	return false
}

func (m *Machine) errorsAs(err, target Iface, depth int) bool {
	if err.T == nil || depth > 10 {
		return false
	}
	pt, ok := target.T.Underlying().(*types.Pointer)
	if !ok {
		panic(targetPanic{msg: "errors: target must be a non-nil pointer", stack: m.stackString()})
	}
	want := pt.Elem()
	match := false
	if it, isI := want.Underlying().(*types.Interface); isI {
		match = m.Prog.implements(err.T, it)
		if match {
			m.store(target.V, err)
			return true
		}
	} else if types.Identical(err.T, want) {
		m.store(target.V, err.V)
		return true
	}
	if f := m.methodOf(err.T, "As"); f != nil {
		if m.Decide(m.asTerm(m.callFn(f, []Value{err.V, target}, nil))) {
			return true
		}
	}
	for _, u := range m.unwrap(err) {
		if m.errorsAs(u, target, depth+1) {
			return true
		}
	}
	return false
}
