#!/bin/bash
# usage: seedverify.sh <seed-src-dir> <seed-id> <property> <caught-by>
# Confirms a seeded change in a scratch worktree (suite passes with it, demo fails with it, demo passes without it)
# and stores it under /verif/seeded/<seed-id>/.
src=$1; id=$2; prop=$3; caught=$4
export GOFLAGS=-mod=mod GOPROXY=off GOSUMDB=off GOTOOLCHAIN=local
wt=$(mktemp -d /tmp/wt-verify-XXXX); rmdir $wt
git -C /repo worktree add -q $wt HEAD || exit 2
cd $wt
git apply $src/patch.diff || { echo "$id: patch does not apply"; git -C /repo worktree remove --force $wt; exit 2; }
suite=$(go test -vet=off -count=1 ./... 2>&1 | grep -c "^ok")
suitefail=$(go test -vet=off -count=1 ./... 2>&1 | grep -c "^FAIL\|^---")
cp $src/demo_test.go larking/zz_seed_demo_test.go
with=$(cd larking && go test -vet=off -count=1 -run 'TestSeedDemo' . 2>&1 | tail -1)
git checkout -q -- .
without=$(cd larking && go test -vet=off -count=1 -run 'TestSeedDemo' . 2>&1 | tail -1)
rm -f larking/zz_seed_demo_test.go
cd /; git -C /repo worktree remove --force $wt
echo "$id: suite_ok=$suite suite_fail=$suitefail with=[$with] without=[$without]"
case "$with" in FAIL*) ;; *) echo "$id: NOT CONFIRMED (demo does not fail with the change)"; exit 1;; esac
case "$without" in ok*) ;; *) echo "$id: NOT CONFIRMED (demo does not pass without the change)"; exit 1;; esac
[ "$suitefail" = "0" ] || { echo "$id: NOT CONFIRMED (suite fails with the change)"; exit 1; }
mkdir -p /verif/seeded/$id
cp $src/patch.diff /verif/seeded/$id/patch.diff
cp $src/demo_test.go /verif/seeded/$id/demo_test.go.txt
needs=$(grep -i -m1 -A3 "condition\|manifest\|trigger" $src/notes.md | tr '\n' ' ' | cut -c1-600)
python3 - "$id" "$prop" "$caught" "$needs" "$with" "$without" <<'PY'
import json,sys
id,prop,caught,needs,w,wo=sys.argv[1:7]
json.dump({"id":id,"breaks_property":prop,"needs_to_manifest":needs,
 "confirmed":{"existing_suite_with_change":"pass","demo_with_change":w,"demo_without_change":wo,
  "commands":["git apply patch.diff (scratch worktree of /repo HEAD)","go test -vet=off -count=1 ./...","cp demo_test.go larking/ && go test -run TestSeedDemo ./larking","git checkout -- . && go test -run TestSeedDemo ./larking"]},
 "detected_by":caught,
 "check_run":"tools/seedtest.sh patch.diff "+prop+" (git -C /repo apply; ./bin/symgo check -prop "+prop+" -tier quick -> exit 1 with VIOLATION; git -C /repo checkout -- .)"},
 open("/verif/seeded/%s/meta.json"%id,"w"),indent=1)
PY
