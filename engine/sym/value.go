package sym

import (
	"fmt"
	"go/constant"
	"go/types"
	"math"
	"strings"

	"golang.org/x/tools/go/ssa"
)

// Value is a dynamic value of the interpreted program.
//
//	integers, bool      *Term   (bit-vector of the type's width / Bool), constant or symbolic
//	float32/64          float64 (concrete only)
//	string              Str
//	pointer             *Value  (Go pointer to the cell; nil pointer = (*Value)(nil))
//	struct              Struct  (value semantics: copied on load/store)
//	array               Array   (value semantics)
//	slice               Slice   (shares backing Go slice; nil = Slice(nil))
//	map                 *Map
//	interface           Iface
//	func                *ssa.Function, *Closure, *ssa.Builtin; nil func = (*Closure)(nil)
//	tuple               Tuple
//	chan                *Chan
type Value interface{}

type Struct []Value
type Array []Value
type Slice []Value
type Tuple []Value

// Str is a string of concrete length. If B != nil the bytes are terms (len(B) is the length),
// otherwise the string is the concrete S.
type Str struct {
	S string
	B []*Term
}

type Iface struct {
	T types.Type
	V Value
}

type Closure struct {
	Fn  *ssa.Function
	Env []Value
}

type Chan struct {
	Closed  bool
	Buf     []Value
	Elem    types.Type
	Cap     int
	Sent    uint64 // values ever enqueued
	Taken   uint64 // values ever dequeued
	Waiting int    // goroutines blocked receiving
}

// Poison marks a value the engine could not compute (failed package initialiser,
// un-initialised package). Using it aborts the path as unsupported.
type Poison struct{ Why string }

// DataPtr is the result of unsafe.SliceData / unsafe.StringData.
type DataPtr struct {
	S   Slice
	Str *Str
}

// Native wraps an engine-side object handed to interpreted code as an opaque value.
type Native struct {
	Kind string
	X    interface{}
}

func (s Str) Len() int {
	if s.B != nil {
		return len(s.B)
	}
	return len(s.S)
}

func (s Str) Concrete() bool { return s.B == nil }

// ---------------------------------------------------------------------------------------

func (m *Machine) strBytes(s Str) []*Term {
	if s.B != nil {
		return s.B
	}
	out := make([]*Term, len(s.S))
	for i := 0; i < len(s.S); i++ {
		out[i] = m.C.BV(8, uint64(s.S[i]))
	}
	return out
}

// mkStr builds a Str from byte terms, normalising to a concrete string where possible.
func (m *Machine) mkStr(b []*Term) Str {
	all := true
	for _, t := range b {
		if !t.IsConst() {
			all = false
			break
		}
	}
	if all {
		buf := make([]byte, len(b))
		for i, t := range b {
			buf[i] = byte(t.Val)
		}
		return Str{S: string(buf)}
	}
	if b == nil {
		b = []*Term{}
	}
	cp := make([]*Term, len(b))
	copy(cp, b)
	return Str{B: cp}
}

func (m *Machine) strAt(s Str, i int) *Term {
	if s.B != nil {
		return s.B[i]
	}
	return m.C.BV(8, uint64(s.S[i]))
}

func (m *Machine) strSlice(s Str, lo, hi int) Str {
	if s.B != nil {
		return m.mkStr(s.B[lo:hi])
	}
	return Str{S: s.S[lo:hi]}
}

func (m *Machine) strConcat(a, b Str) Str {
	if a.B == nil && b.B == nil {
		return Str{S: a.S + b.S}
	}
	x := append(append([]*Term{}, m.strBytes(a)...), m.strBytes(b)...)
	return m.mkStr(x)
}

func (m *Machine) strEq(a, b Str) *Term {
	if a.Len() != b.Len() {
		return m.C.False
	}
	if a.B == nil && b.B == nil {
		return m.C.Bool(a.S == b.S)
	}
	r := m.C.True
	for i := 0; i < a.Len(); i++ {
		r = m.C.And(r, m.C.Eq(m.strAt(a, i), m.strAt(b, i)))
		if r == m.C.False {
			return r
		}
	}
	return r
}

// strLess is lexicographic a < b.
func (m *Machine) strLess(a, b Str) *Term {
	if a.B == nil && b.B == nil {
		return m.C.Bool(a.S < b.S)
	}
	n := a.Len()
	if b.Len() < n {
		n = b.Len()
	}
	r := m.C.Bool(a.Len() < b.Len())
	for i := n - 1; i >= 0; i-- {
		x, y := m.strAt(a, i), m.strAt(b, i)
		r = m.C.Or(m.C.Cmp(OpUlt, x, y), m.C.And(m.C.Eq(x, y), r))
	}
	return r
}

func (m *Machine) bytesToStr(s Slice) Str {
	b := make([]*Term, len(s))
	for i, v := range s {
		b[i] = m.asTerm(v)
	}
	return m.mkStr(b)
}

func (m *Machine) strToBytes(s Str) Slice {
	out := make(Slice, s.Len())
	for i := range out {
		out[i] = m.strAt(s, i)
	}
	return out
}

func (m *Machine) asTerm(v Value) *Term {
	switch v := v.(type) {
	case *Term:
		return v
	case Poison:
		m.unsupported("use of poisoned value: " + v.Why)
	}
	panic(fmt.Sprintf("asTerm: unexpected %T", v))
}

// ---------------------------------------------------------------------------------------
// Type helpers.

var stdSizes = types.StdSizes{WordSize: 8, MaxAlign: 8}

func intWidth(b *types.Basic) int {
	switch b.Kind() {
	case types.Int8, types.Uint8:
		return 8
	case types.Int16, types.Uint16:
		return 16
	case types.Int32, types.Uint32:
		return 32
	case types.Int64, types.Uint64, types.Int, types.Uint, types.Uintptr:
		return 64
	case types.UntypedInt, types.UntypedRune:
		return 64
	}
	return 0
}

func isUnsigned(t types.Type) bool {
	b, ok := t.Underlying().(*types.Basic)
	return ok && b.Info()&types.IsUnsigned != 0
}

func isInteger(t types.Type) bool {
	b, ok := t.Underlying().(*types.Basic)
	return ok && b.Info()&types.IsInteger != 0
}

func isFloat(t types.Type) bool {
	b, ok := t.Underlying().(*types.Basic)
	return ok && b.Info()&types.IsFloat != 0
}

func isString(t types.Type) bool {
	b, ok := t.Underlying().(*types.Basic)
	return ok && b.Info()&types.IsString != 0
}

func isBoolean(t types.Type) bool {
	b, ok := t.Underlying().(*types.Basic)
	return ok && b.Info()&types.IsBoolean != 0
}

func widthOf(t types.Type) int {
	if b, ok := t.Underlying().(*types.Basic); ok {
		return intWidth(b)
	}
	return 0
}

func deref(t types.Type) types.Type {
	if p, ok := t.Underlying().(*types.Pointer); ok {
		return p.Elem()
	}
	panic("deref of non-pointer " + t.String())
}

// zero returns the zero value of type t.
func (m *Machine) zero(t types.Type) Value {
	switch t := t.(type) {
	case *types.Basic:
		switch {
		case t.Kind() == types.UntypedNil:
			return (*Value)(nil)
		case t.Info()&types.IsBoolean != 0:
			return m.C.False
		case t.Info()&types.IsInteger != 0:
			return m.C.BV(intWidth(t), 0)
		case t.Info()&types.IsFloat != 0:
			return float64(0)
		case t.Info()&types.IsString != 0:
			return Str{}
		case t.Kind() == types.UnsafePointer:
			return (*Value)(nil)
		case t.Info()&types.IsComplex != 0:
			return complex128(0)
		}
		panic("zero: basic " + t.String())
	case *types.Pointer:
		return (*Value)(nil)
	case *types.Slice:
		return Slice(nil)
	case *types.Map:
		return (*Map)(nil)
	case *types.Chan:
		return (*Chan)(nil)
	case *types.Signature:
		return (*Closure)(nil)
	case *types.Interface:
		return Iface{}
	case *types.Struct:
		s := make(Struct, t.NumFields())
		for i := range s {
			s[i] = m.zero(t.Field(i).Type())
		}
		return s
	case *types.Array:
		n := int(t.Len())
		a := make(Array, n)
		if n > 0 {
			z := m.zero(t.Elem())
			switch z.(type) {
			case Struct, Array:
				for i := range a {
					a[i] = m.zero(t.Elem())
				}
			default:
				for i := range a {
					a[i] = z
				}
			}
		}
		return a
	case *types.Named:
		return m.zero(t.Underlying())
	case *types.Alias:
		return m.zero(types.Unalias(t))
	case *types.Tuple:
		tu := make(Tuple, t.Len())
		for i := range tu {
			tu[i] = m.zero(t.At(i).Type())
		}
		return tu
	case *types.TypeParam:
		panic("zero: type parameter " + t.String())
	}
	panic(fmt.Sprintf("zero: %T %v", t, t))
}

// copyVal copies aggregates (value semantics for structs and arrays).
func copyVal(v Value) Value {
	switch v := v.(type) {
	case Struct:
		c := make(Struct, len(v))
		for i, f := range v {
			c[i] = copyVal(f)
		}
		return c
	case Array:
		c := make(Array, len(v))
		for i, f := range v {
			c[i] = copyVal(f)
		}
		return c
	}
	return v
}

// constValue converts an ssa.Const.
func (m *Machine) constValue(c *ssa.Const) Value {
	if c.Value == nil {
		return m.zero(c.Type())
	}
	t := c.Type().Underlying()
	if b, ok := t.(*types.Basic); ok {
		switch {
		case b.Info()&types.IsBoolean != 0:
			return m.C.Bool(constant.BoolVal(c.Value))
		case b.Info()&types.IsInteger != 0:
			w := intWidth(b)
			if v, ok := constant.Int64Val(constant.ToInt(c.Value)); ok {
				return m.C.BV(w, uint64(v))
			}
			v, _ := constant.Uint64Val(constant.ToInt(c.Value))
			return m.C.BV(w, v)
		case b.Info()&types.IsFloat != 0:
			f, _ := constant.Float64Val(c.Value)
			if b.Kind() == types.Float32 {
				return float64(float32(f))
			}
			return f
		case b.Info()&types.IsString != 0:
			if c.Value.Kind() == constant.String {
				return Str{S: constant.StringVal(c.Value)}
			}
			// int constant converted to string
			v, _ := constant.Int64Val(c.Value)
			return Str{S: string(rune(v))}
		case b.Info()&types.IsComplex != 0:
			re, _ := constant.Float64Val(constant.Real(c.Value))
			im, _ := constant.Float64Val(constant.Imag(c.Value))
			return complex(re, im)
		}
	}
	panic(fmt.Sprintf("constValue: %v of type %v", c.Value, c.Type()))
}

// concInt extracts a concrete signed integer from v (which must be a constant term).
func concInt(v Value) (int64, bool) {
	t, ok := v.(*Term)
	if !ok || !t.IsConst() {
		return 0, false
	}
	if t.W == 0 {
		return int64(t.Val), true
	}
	return sext64(t.Val, t.W), true
}

// ---------------------------------------------------------------------------------------
// Maps. Small ordered association lists; keys compared with eqVal so symbolic string keys work.

type mapEntry struct {
	K Value
	V Value
}

type Map struct {
	E       []mapEntry
	KeyType types.Type
	ValType types.Type
}

// ---------------------------------------------------------------------------------------
// Debug printing.

func (m *Machine) show(v Value) string {
	var sb strings.Builder
	m.showTo(&sb, v, 0)
	return sb.String()
}

func (m *Machine) showTo(sb *strings.Builder, v Value, depth int) {
	if depth > 4 {
		sb.WriteString("…")
		return
	}
	switch v := v.(type) {
	case nil:
		sb.WriteString("<nil>")
	case *Term:
		if v.IsConst() {
			if v.W == 0 {
				fmt.Fprintf(sb, "%v", v.Val != 0)
			} else {
				fmt.Fprintf(sb, "%d", sext64(v.Val, v.W))
			}
		} else {
			s := v.String()
			if len(s) > 60 {
				s = s[:60] + "…"
			}
			sb.WriteString(s)
		}
	case float64:
		fmt.Fprintf(sb, "%g", v)
	case Str:
		if v.B == nil {
			fmt.Fprintf(sb, "%q", v.S)
		} else {
			fmt.Fprintf(sb, "sym-string[%d]", len(v.B))
		}
	case *Value:
		if v == nil {
			sb.WriteString("nil")
		} else {
			sb.WriteString("&")
			m.showTo(sb, *v, depth+1)
		}
	case Struct:
		sb.WriteString("{")
		for i, f := range v {
			if i > 0 {
				sb.WriteString(" ")
			}
			m.showTo(sb, f, depth+1)
		}
		sb.WriteString("}")
	case Array:
		fmt.Fprintf(sb, "array[%d]", len(v))
	case Slice:
		if v == nil {
			sb.WriteString("nil-slice")
		} else {
			fmt.Fprintf(sb, "slice[%d/%d]", len(v), cap(v))
		}
	case *Map:
		if v == nil {
			sb.WriteString("nil-map")
		} else {
			fmt.Fprintf(sb, "map[%d]", len(v.E))
		}
	case Iface:
		if v.T == nil {
			sb.WriteString("nil-iface")
		} else {
			fmt.Fprintf(sb, "iface(%s:", v.T)
			m.showTo(sb, v.V, depth+1)
			sb.WriteString(")")
		}
	case *ssa.Function:
		sb.WriteString(v.String())
	case *Closure:
		if v == nil {
			sb.WriteString("nil-func")
		} else {
			sb.WriteString("closure " + v.Fn.String())
		}
	case Tuple:
		sb.WriteString("(")
		for i, f := range v {
			if i > 0 {
				sb.WriteString(", ")
			}
			m.showTo(sb, f, depth+1)
		}
		sb.WriteString(")")
	case Poison:
		sb.WriteString("poison(" + v.Why + ")")
	default:
		fmt.Fprintf(sb, "%T", v)
	}
}

var _ = math.MaxInt64
