package sym

import (
	"fmt"
	"math/rand"
	"os"
	"sort"
	"strconv"
	"strings"
	"sync"
	"time"
)

// Finding is an open known finding: a violation on a path inside its region (vfKnown) whose
// message contains Check is attributed to it instead of being reported as new.
type Finding struct {
	ID       string `json:"id"`
	Property string `json:"property"`
	Harness  string `json:"harness"`
	Check    string `json:"check"`
	Site     string `json:"site"`
	Region   string `json:"region"`
	Example  string `json:"example"`
	Status   string `json:"status"` // open | fixed
	Commit   string `json:"commit,omitempty"`
}

// Explorer runs harnesses over a pool of workers.
type Explorer struct {
	Property  string // the property being checked (scopes open known findings); "" = all
	Prog      *Program
	Workers   int
	Solver    string
	Cfg       Config
	InitPkgs  []string
	Findings  map[string]Finding
	Seed      int64
	machines  []*Machine
	Poisoned  []string
	InitTime  time.Duration
	StopEarly bool // stop at the first unlisted violation
}

// HarnessResult aggregates the exploration of one harness.
type HarnessResult struct {
	Name         string
	Kinds        map[string]int
	Violations   []Outcome
	KnownHits    map[string][]Outcome
	CoverSamples map[string]Outcome
	Samples      []Outcome
	Inconclusive []Outcome
	Paths        int
	Steps        int
	Forced       int
	Decided      int
	Choices      int
	Funcs        map[string]int
	Intrinsics   map[string]int
	Queries      struct{ Sat, Unsat, Unknown, Errors int }
	FeasQ        int
	AssertQ      int
	ConcQ        int
	SolverTime   time.Duration
	InterpTime   time.Duration
	Wall         time.Duration
	PathBudget   bool
	Distinct     map[string]bool // distinct outcome signatures
	ForkSites    map[string]int
	CrossAsked   int
	CrossAgreed  int
	CrossSkipped int
}

func (e *Explorer) Start() error {
	if e.Workers <= 0 {
		e.Workers = 1
	}
	if e.InitPkgs == nil {
		e.InitPkgs = DefaultInitPackages
	}
	cfg := e.Cfg
	cfg.OpenFindings = map[string]bool{}
	cfg.ForeignFindings = map[string]bool{}
	for id, f := range e.Findings {
		if f.Status == "open" {
			if e.Property == "" || f.Property == e.Property {
				cfg.OpenFindings[id] = true
			} else {
				// an open finding of ANOTHER property: its region is that property's obligation; a
				// check of this property that runs the same harness leaves the region out
				cfg.ForeignFindings[id] = true
			}
		}
	}
	t0 := time.Now()
	e.machines = make([]*Machine, e.Workers)
	var wg sync.WaitGroup
	errs := make([]error, e.Workers)
	for i := range e.machines {
		wg.Add(1)
		go func(i int) {
			defer wg.Done()
			m, err := NewMachine(e.Prog, e.Solver, cfg)
			if err != nil {
				errs[i] = err
				return
			}
			p := m.InitPackages(e.InitPkgs)
			if i == 0 {
				e.Poisoned = p
			}
			e.machines[i] = m
		}(i)
	}
	wg.Wait()
	for _, err := range errs {
		if err != nil {
			return err
		}
	}
	e.InitTime = time.Since(t0)
	return nil
}

// SetStepBudget sets the per-path step budget (0 = default).
func (e *Explorer) SetStepBudget(n int) {
	if n == 0 {
		n = 2000000
	}
	for _, m := range e.machines {
		m.Cfg.StepBudget = n
	}
}

// SetTrace switches instruction tracing on all workers.
func (e *Explorer) SetTrace(on bool) {
	for _, m := range e.machines {
		m.Cfg.Trace = on
	}
}

func (e *Explorer) Close() {
	for _, m := range e.machines {
		if m != nil {
			m.Close()
		}
	}
}

// Run explores one harness function completely (or until maxPaths).
func (e *Explorer) Run(harness string, maxPaths int, maxSamples int) (*HarnessResult, error) {
	fn := e.Prog.Func(harness)
	if fn == nil {
		return nil, fmt.Errorf("harness %s not found in %s", harness, e.Prog.PkgPath)
	}
	seenViol := map[string]bool{}
	maxViol := 8
	if v, err := strconv.Atoi(os.Getenv("SYMGO_MAXVIOL")); err == nil && v > 0 {
		maxViol = v
	}
	res := &HarnessResult{Name: harness, Kinds: map[string]int{}, KnownHits: map[string][]Outcome{},
		CoverSamples: map[string]Outcome{}, Funcs: map[string]int{}, Intrinsics: map[string]int{}, Distinct: map[string]bool{}}
	t0 := time.Now()
	var mu sync.Mutex
	cond := sync.NewCond(&mu)
	stack := []WorkItem{{}}
	active := 0
	stop := false
	rng := rand.New(rand.NewSource(e.Seed))
	seenSamples := 0

	// reset per-machine stats
	type snap struct {
		funcs, intr            map[string]int
		sat, unsat, unk, errs  int
		feas, asrt, conc       int
		solverTime, interpTime time.Duration
	}
	snaps := make([]snap, len(e.machines))
	for i, m := range e.machines {
		snaps[i] = snap{funcs: copyMap(m.Stats.Funcs), intr: copyMap(m.Stats.Intrinsics),
			sat: m.S.Queries.Sat, unsat: m.S.Queries.Unsat, unk: m.S.Queries.Unknown, errs: m.S.Queries.Errors,
			feas: m.Stats.FeasQueries, asrt: m.Stats.AssertQueries, conc: m.Stats.ConcQueries,
			solverTime: m.Stats.SolverTime, interpTime: m.Stats.InterpTime}
	}

	record := func(out Outcome) {
		res.Paths++
		res.Steps += out.Steps
		res.Forced += out.Forced
		res.Decided += out.Decided
		res.Choices += out.Choices
		res.Kinds[out.Kind]++
		sig := out.Kind + "|" + firstLine(out.Msg) + "|" + strings.Join(out.Covers, ",")
		res.Distinct[sig] = true
		switch out.Kind {
		case "ok":
			for _, c := range out.Covers {
				if _, ok := res.CoverSamples[c]; !ok {
					res.CoverSamples[c] = out
				}
			}
			seenSamples++
			if len(res.Samples) < maxSamples {
				res.Samples = append(res.Samples, out)
			} else if maxSamples > 0 {
				if j := rng.Intn(seenSamples); j < maxSamples {
					res.Samples[j] = out
				}
			}
		case "assume-false":
		case "violation", "panic":
			if out.Known != "" {
				if f, ok := e.Findings[out.Known]; ok && f.Status == "open" && (f.Check == "" || strings.Contains(out.Msg, f.Check)) {
					if len(res.KnownHits[out.Known]) < 3 {
						res.KnownHits[out.Known] = append(res.KnownHits[out.Known], out)
					} else {
						res.KnownHits[out.Known][0].Steps++ // keep count cheaply
					}
					return
				}
			}
			// keep violations that differ in message or in the harness's draws (schedules and solver
			// models of the same draws are not interesting twice)
			key := firstLine(out.Msg) + fmt.Sprint(ConcreteDraws(out.Draws, out.Model))
			if !seenViol[key] && len(res.Violations) < maxViol {
				seenViol[key] = true
				res.Violations = append(res.Violations, out)
			}
			if e.StopEarly || len(res.Violations) >= maxViol {
				// enough distinct counterexamples: the verdict cannot change any more, and a defect that
				// also blows the path count up must not turn a violation into a timeout
				stop = true
			}
		default:
			if len(res.Inconclusive) < 8 {
				res.Inconclusive = append(res.Inconclusive, out)
			}
		}
	}

	progress := os.Getenv("SYMGO_PROGRESS") != ""
	var wg sync.WaitGroup
	for _, m := range e.machines {
		wg.Add(1)
		go func(m *Machine) {
			defer wg.Done()
			for {
				mu.Lock()
				for len(stack) == 0 && active > 0 && !stop {
					cond.Wait()
				}
				if stop || (len(stack) == 0 && active == 0) {
					mu.Unlock()
					cond.Broadcast()
					return
				}
				item := stack[len(stack)-1]
				stack = stack[:len(stack)-1]
				active++
				mu.Unlock()

				out, sibs := m.RunPath(fn, item)

				mu.Lock()
				active--
				record(out)
				if progress && res.Paths%200 == 0 {
					fmt.Fprintf(os.Stderr, "[%s] paths=%d stack=%d wall=%.0fs\n", harness, res.Paths, len(stack), time.Since(t0).Seconds())
				}
				stack = append(stack, sibs...)
				if maxPaths > 0 && res.Paths >= maxPaths && len(stack) > 0 {
					res.PathBudget = true
					stop = true
				}
				mu.Unlock()
				cond.Broadcast()
			}
		}(m)
	}
	wg.Wait()
	res.Wall = time.Since(t0)
	res.ForkSites = map[string]int{}
	for i, m := range e.machines {
		for k, v := range m.Stats.ForkSites {
			res.ForkSites[k] += v
		}
		m.Stats.ForkSites = map[string]int{}
		res.CrossAsked += m.Stats.CrossAsked
		res.CrossAgreed += m.Stats.CrossAgreed
		res.CrossSkipped += m.Stats.CrossSkipped
		m.Stats.CrossAsked, m.Stats.CrossAgreed, m.Stats.CrossSkipped = 0, 0, 0
		for k, v := range m.Stats.Funcs {
			if d := v - snaps[i].funcs[k]; d > 0 {
				res.Funcs[k] += d
			}
		}
		for k, v := range m.Stats.Intrinsics {
			if d := v - snaps[i].intr[k]; d > 0 {
				res.Intrinsics[k] += d
			}
		}
		res.Queries.Sat += m.S.Queries.Sat - snaps[i].sat
		res.Queries.Unsat += m.S.Queries.Unsat - snaps[i].unsat
		res.Queries.Unknown += m.S.Queries.Unknown - snaps[i].unk
		res.Queries.Errors += m.S.Queries.Errors - snaps[i].errs
		res.FeasQ += m.Stats.FeasQueries - snaps[i].feas
		res.AssertQ += m.Stats.AssertQueries - snaps[i].asrt
		res.ConcQ += m.Stats.ConcQueries - snaps[i].conc
		res.SolverTime += m.Stats.SolverTime - snaps[i].solverTime
		res.InterpTime += m.Stats.InterpTime - snaps[i].interpTime
	}
	return res, nil
}

func copyMap(m map[string]int) map[string]int {
	c := make(map[string]int, len(m))
	for k, v := range m {
		c[k] = v
	}
	return c
}

// Summary renders a short human-readable summary.
func (r *HarnessResult) Summary() string {
	var ks []string
	for k, v := range r.Kinds {
		ks = append(ks, fmt.Sprintf("%s=%d", k, v))
	}
	sort.Strings(ks)
	return fmt.Sprintf("%s: paths=%d [%s] steps=%d queries sat=%d unsat=%d unknown=%d wall=%.1fs solver=%.1fs interp=%.1fs",
		r.Name, r.Paths, strings.Join(ks, " "), r.Steps, r.Queries.Sat, r.Queries.Unsat, r.Queries.Unknown+r.Queries.Errors,
		r.Wall.Seconds(), r.SolverTime.Seconds(), r.InterpTime.Seconds())
}
