package larking

import "google.golang.org/protobuf/reflect/protoreflect"

func init() {
	vfHarnesses["VerifH_match_verbs"] = VerifH_match_verbs
	vfHarnesses["VerifH_match_delrule"] = VerifH_match_delrule
	vfHarnesses["VerifH_addRule_fieldpaths"] = VerifH_addRule_fieldpaths
	vfHarnesses["VerifH_match_generated"] = VerifH_match_generated
	vfHarnesses["VerifH_match_sound"] = VerifH_match_sound
	vfHarnesses["VerifH_match_complete"] = VerifH_match_complete
	vfHarnesses["VerifH_match_order"] = VerifH_match_order
	vfHarnesses["VerifH_match_tokencap"] = VerifH_match_tokencap
	vfHarnesses["VerifH_match_unicode"] = VerifH_match_unicode
}

// vfRuleSets: the curated rule-set family of the quick tier (DESIGN Appendix C.3). Every set also
// gets the implicit /vf.S/Mi rule of each method, as appendHandler adds it.
var vfRuleSets = [][]vfRule{
	{{0, "GET", "/aa/{f}"}, {1, "GET", "/aa/bb"}},
	{{0, "GET", "/{f=aa/*}:vv"}, {1, "POST", "/aa/{g}"}},
	{{0, "GET", "/aa/{f=bb/**}"}, {1, "GET", "/aa/{g}/bb"}},
	{{0, "GET", "/{f=aa/**}:vv"}, {1, "GET", "/{g=**}"}},
	{{0, "*", "/aa/bb"}, {1, "GET", "/aa/{h.k}"}},
	{{0, "GET", "/{f}/{g}"}, {1, "GET", "/{f}/aa"}},
	{{0, "GET", "/aa/**"}, {1, "GET", "/aa/bb:vv"}},
	{{0, "GET", "/{f=*/bb}"}, {1, "GET", "/aa/*"}},
	{{0, "GET", "/aa/{f}/bb/{g}"}, {0, "POST", "/aa/{f}"}, {1, "GET", "/aa/{f}/bb"}},
	{{0, "GET", "/{f=aa/bb/**}"}, {1, "GET", "/aa/bb/{h.c}:vv"}},
	// overlapping variable patterns on one trie node (both match the same paths)
	{{0, "GET", "/aa/{f=**}"}, {1, "GET", "/aa/{g}"}},
	{{0, "GET", "/{f=aa/**}"}, {1, "GET", "/{g=aa/*}"}, {1, "POST", "/{g=**}"}},
	// one node carrying a specific verb and a kind-* binding of the same method
	{{0, "GET", "/aa/bb"}, {0, "*", "/aa/bb"}, {1, "GET", "/aa/{g}/bb"}},
}

func vfVerb() string {
	switch vfChoice(3) {
	case 0:
		return "GET"
	case 1:
		return "POST"
	}
	return "OTHER"
}

func vfFieldPath(fds []interface{ Name() string }) string { return "" }

// VerifH_match_sound (C01): whatever match dispatches is covered by a rule of that method under the
// liberal reading of ':' and carries exactly the reference captures.
func VerifH_match_sound() {
	si := vfChoice(len(vfRuleSets))
	b := vfBuild(vfRuleSets[si], vfIdentityOrder(len(vfRuleSets[si])))
	verb := vfVerb()
	route := vfRoute(vfBound(8, 10))
	vfCheckSound(b, route, verb)
}

// VerifH_match_complete (C02 a,b): a strictly matching rule implies dispatch to a method owning a
// matching rule, and a literal spelling beats a wildcard/variable at the same top-level position.
func VerifH_match_complete() {
	si := vfChoice(len(vfRuleSets))
	b := vfBuild(vfRuleSets[si], vfIdentityOrder(len(vfRuleSets[si])))
	verb := vfVerb()
	route := vfRoute(vfBound(8, 10))
	vfCheckComplete(b, route, verb)
}

// VerifH_match_order (C02 c): the outcome does not depend on registration order.
func VerifH_match_order() {
	si := vfChoice(len(vfRuleSets))
	set := vfRuleSets[si]
	n := len(set)
	perm := vfIdentityOrder(n)
	// pick a non-identity permutation: reverse, or rotate by one
	if n == 2 || vfBool() {
		for i, j := 0, n-1; i < j; i, j = i+1, j-1 {
			perm[i], perm[j] = perm[j], perm[i]
		}
	} else {
		first := perm[0]
		copy(perm, perm[1:])
		perm[n-1] = first
	}
	a := vfBuild(set, vfIdentityOrder(n))
	b := vfBuild(set, perm)
	verb := vfVerb()
	route := vfRoute(vfBound(8, 10))
	m1, ps1, err1 := a.root.match(route, verb)
	m2, ps2, err2 := b.root.match(route, verb)
	vfCheck((err1 == nil) == (err2 == nil), "dispatch depends on registration order (one order dispatches, the other does not)")
	if err1 != nil {
		vfCover("not-dispatched")
		return
	}
	vfCover("dispatched")
	vfCheck(m1.name == m2.name, "dispatch target depends on registration order")
	vfCheck(len(ps1) == len(ps2), "captures depend on registration order")
	for i := range ps1 {
		if len(ps1[i].fds) > 0 && len(ps2[i].fds) > 0 {
			vfCheck(vfParamField(ps1[i]) == vfParamField(ps2[i]) && ps1[i].val.String() == ps2[i].val.String(), "captures depend on registration order")
		}
	}
}

// VerifH_match_tokencap (C09): paths at the lexer's 64-token cap (a long literal prefix plus a
// symbolic tail) against tries with '**' captures and verbs: no panic, an answer within the budget.
func VerifH_match_tokencap() {
	in := schemaRoute()
	out := newFakeMD("vf.Resp", strField("r"))
	d0 := &fakeMethod{full: "vf.S.M0", in: in, out: out}
	d1 := &fakeMethod{full: "vf.S.M1", in: in, out: out}
	root := newPath()
	if root.addRule(vfHTTPRule("GET", "/a/{f=**}"), d0, "/vf.S/M0") != nil || root.addRule(vfHTTPRule("GET", "/a/{g=a/**}:vv"), d1, "/vf.S/M1") != nil {
		vfFail("setup rules rejected")
	}
	prefix := ""
	segs := 29 + vfChoice(3)
	for i := 0; i < segs; i++ {
		prefix += "/a"
	}
	route := prefix + vfAsciiString(vfLen(vfBound(5, 6)))
	m, ps, err := root.match(route, "GET")
	if err != nil {
		vfCover("rejected")
		return
	}
	vfCheck(m != nil && len(ps) >= 1, "dispatched without a method or captures")
	vfCover("dispatched")
}

// VerifH_match_unicode (C01, C02): templates and paths with multi-byte UTF-8 letters (2- and 3-byte
// runes, concrete) around symbolic ASCII bytes: the lexer's multi-byte path, literal comparison and
// captures of non-ASCII text; same soundness and completeness oracles.
func VerifH_match_unicode() {
	sets := [][]vfRule{
		{{0, "GET", "/é/{f}"}, {1, "GET", "/é/日本"}},
		{{0, "GET", "/{f=é/*}:vv"}, {1, "GET", "/é/{g}/日"}},
		{{0, "GET", "/日本/**"}, {1, "GET", "/日本/é"}},
	}
	set := sets[vfChoice(len(sets))]
	b := vfBuild(set, vfIdentityOrder(len(set)))
	verb := vfVerb()
	var prefix string
	switch vfChoice(6) {
	case 0:
		prefix = "/é/"
	case 1:
		prefix = "/é"
	case 2:
		prefix = "/é/日"
	case 3:
		prefix = "/日本/"
	case 4:
		prefix = "/é/é"
	default:
		prefix = "/"
	}
	tail := vfAsciiString(vfLen(vfBound(3, 5)))
	suffix := ""
	switch vfChoice(4) {
	case 1:
		suffix = "本"
	case 2:
		suffix = "/日"
	case 3:
		suffix = "é:vv"
	}
	route := prefix + tail + suffix
	vfCheckSound(b, route, verb)
	vfCheckComplete(b, route, verb)
	if len(suffix) > 0 {
		vfCover("unicode-suffix")
	}
}

// ---- generated rule-set family (thorough tier) ------------------------------------------------------

// vfGenTemplates: one template per segment-kind combination of the grammar (literal, '*', '**',
// variable with and without pattern, verb suffix, nested field path, wildcard before a literal).
var vfGenTemplates = []string{
	"/aa", "/aa/bb", "/{f}", "/aa/{f}", "/{f}/bb", "/aa/*", "/aa/**", "/{f=*}", "/{f=**}",
	"/{f=aa/*}", "/{f=aa/**}", "/aa/{f=bb/*}/cc", "/aa:vv", "/aa/{f}:vv", "/{f=aa/**}:vv",
	"/*/bb", "/{f}/{g}", "/aa/{h.k}",
}

// vfSecondFields renames the fields of a template so that the second rule binds other fields than
// the first (f -> g, g -> f, h.k -> h.c): captures then tell the two rules apart.
func vfSecondFields(t string) string {
	out := make([]byte, 0, len(t))
	for i := 0; i < len(t); i++ {
		c := t[i]
		if c == '{' && i+1 < len(t) {
			switch {
			case t[i+1] == 'f':
				out = append(out, '{', 'g')
				i++
				continue
			case t[i+1] == 'g':
				out = append(out, '{', 'f')
				i++
				continue
			case i+3 < len(t) && t[i+1] == 'h' && t[i+2] == '.' && t[i+3] == 'k':
				out = append(out, '{', 'h', '.', 'c')
				i += 3
				continue
			}
		}
		out = append(out, c)
	}
	return string(out)
}

// vfGenBuild registers an ordered pair of templates of the generated family (methods 0 and 1, verb
// GET) in the given order; pairs that addRule rejects (colliding bindings) are not part of the family.
func vfGenBuild(i, j int, reversed bool) *vfBuilt {
	set := []vfRule{{0, "GET", vfGenTemplates[i]}, {1, "GET", vfSecondFields(vfGenTemplates[j])}}
	in := schemaRoute()
	out := newFakeMD("vf.Resp", strField("r"))
	descs := []*fakeMethod{{full: "vf.S.M0", in: in, out: out}, {full: "vf.S.M1", in: in, out: out}}
	b := &vfBuilt{root: newPath()}
	all := []vfRule{{0, "*", vfMethodName(0)}, {1, "*", vfMethodName(1)}}
	if reversed {
		all = append(all, set[1], set[0])
	} else {
		all = append(all, set[0], set[1])
	}
	for _, r := range all {
		rule := vfHTTPRule(r.verb, r.tmpl)
		if r.tmpl == vfMethodName(r.m) {
			rule.Body = "*"
		}
		err := b.root.addRule(rule, descs[r.m], vfMethodName(r.m))
		vfAssume(err == nil)
		t, st := refParseTemplate(r.tmpl)
		if st != refValid {
			vfFail("generated template is not valid per the reference grammar: " + r.tmpl)
		}
		b.rules = append(b.rules, r)
		b.tmpls = append(b.tmpls, t)
	}
	return b
}

// VerifH_match_generated (C01, C02; thorough tier): the soundness, completeness / literal-precedence
// and registration-order obligations over EVERY ordered pair of templates of the generated family
// (18 x 18) and every ASCII request path up to the bound.
func VerifH_match_generated() {
	i, j := vfChoice(len(vfGenTemplates)), vfChoice(len(vfGenTemplates))
	a := vfGenBuild(i, j, false)
	verb := "GET"
	if vfBool() {
		verb = "POST"
	}
	route := vfRoute(vfBound(6, 8))
	vfCheckSound(a, route, verb)
	vfCheckComplete(a, route, verb)
	b := vfGenBuild(i, j, true)
	m1, ps1, err1 := a.root.match(route, verb)
	m2, ps2, err2 := b.root.match(route, verb)
	vfCheck((err1 == nil) == (err2 == nil), "dispatch depends on registration order (one order dispatches, the other does not)")
	if err1 != nil {
		return
	}
	vfCheck(m1.name == m2.name, "dispatch target depends on registration order")
	vfCheck(len(ps1) == len(ps2), "captures depend on registration order")
	for k := range ps1 {
		if len(ps1[k].fds) > 0 && len(ps2[k].fds) > 0 {
			vfCheck(vfParamField(ps1[k]) == vfParamField(ps2[k]) && ps1[k].val.String() == ps2[k].val.String(), "captures depend on registration order")
		}
	}
	vfCover("generated")
}

// VerifH_match_verbs (C01, C02): one template bound with each rule pattern kind (get, put, post,
// delete, patch, a custom kind) to a different method index: a request with verb V reaches exactly
// the method bound with V, and a verb nobody bound is not dispatched.
func VerifH_match_verbs() {
	in := schemaRoute()
	out := newFakeMD("vf.Resp", strField("r"))
	verbs := []string{"GET", "PUT", "POST", "DELETE", "PATCH", "LIST"}
	root := newPath()
	for i, v := range verbs {
		d := &fakeMethod{full: "vf.S.V" + v, in: in, out: out}
		if err := root.addRule(vfHTTPRule(v, "/aa/{f}"), d, "/vf.S/V"+verbs[i]); err != nil {
			vfFail("a rule of pattern kind " + v + " was rejected")
		}
	}
	k := vfChoice(len(verbs) + 1)
	if k == len(verbs) {
		// verbs nobody bound, among them the standard methods that have no rule pattern kind of
		// their own and spellings close to a bound one
		unbound := []string{"OTHER", "HEAD", "OPTIONS", "TRACE", "CONNECT", "get", "GETS", "GE", ""}
		_, _, err := root.match("/aa/zz", unbound[vfChoice(len(unbound))])
		vfCheck(err != nil, "a verb that no rule carries was dispatched")
		vfCover("unbound-verb")
		return
	}
	m, ps, err := root.match("/aa/zz", verbs[k])
	vfCheck(err == nil && m != nil && m.name == "/vf.S/V"+verbs[k], "a request was not dispatched to the method whose rule carries its verb")
	vfCheck(len(ps) == 1 && ps[0].val.String() == "zz", "capture lost")
	vfCover("verb-" + verbs[k])
}

// VerifH_match_delrule (C02, C11): three overlapping variable bindings of three methods on one trie
// node; after delRule of any one of them the trie must route every path exactly as a trie freshly
// built from the two remaining rules (removal must not disturb the variable order).
func VerifH_match_delrule() {
	in := schemaRoute()
	out := newFakeMD("vf.Resp", strField("r"))
	tmpls := []string{"/v1/{f=**}", "/v1/{g=aa/*}", "/v1/{h.k=aa/bb}", "/v1/{h.c=*}"}
	// every template its own method, or one method owning the two variables that are ADJACENT in the
	// node's sort order ({h.c=*} and {f=**}): its removal deletes two neighbours at once
	owner := []int{0, 1, 2, 3}
	if vfBool() {
		owner = []int{0, 1, 2, 0}
		vfCover("two-adjacent-variables-removed")
	}
	descs := make([]*fakeMethod, len(tmpls))
	for i := range tmpls {
		descs[i] = &fakeMethod{full: "vf.S.D" + string(rune('0'+owner[i])), in: in, out: out}
	}
	name := func(i int) string { return "/vf.S/D" + string(rune('0'+owner[i])) }
	// registration order of the full set: identity or reversed
	order := []int{0, 1, 2, 3}
	if vfBool() {
		order = []int{3, 2, 1, 0}
	}
	full := newPath()
	for _, i := range order {
		if err := full.addRule(vfHTTPRule("GET", tmpls[i]), descs[i], name(i)); err != nil {
			vfFail("setup rule rejected: " + tmpls[i])
		}
	}
	k := vfChoice(len(tmpls))
	full.delRule(name(k))
	fresh := newPath()
	for _, i := range order {
		if owner[i] == owner[k] {
			continue
		}
		if err := fresh.addRule(vfHTTPRule("GET", tmpls[i]), descs[i], name(i)); err != nil {
			vfFail("setup rule rejected: " + tmpls[i])
		}
	}
	route := "/v1/" + vfAsciiString(vfLen(vfBound(5, 6)))
	m1, ps1, e1 := full.match(route, "GET")
	m2, ps2, e2 := fresh.match(route, "GET")
	vfCheck((e1 == nil) == (e2 == nil), "after removing a rule the trie dispatches differently from a trie built without it")
	if e1 != nil {
		vfCover("not-dispatched")
		return
	}
	vfCheck(m1.name == m2.name, "after removing a rule the trie picks another method than a trie built without it")
	vfCheck(m1.name != name(k), "a removed rule still dispatches")
	vfCheck(len(ps1) == len(ps2), "captures differ after removing a rule")
	for i := range ps1 {
		if len(ps1[i].fds) > 0 && len(ps2[i].fds) > 0 {
			vfCheck(vfParamField(ps1[i]) == vfParamField(ps2[i]) && ps1[i].val.String() == ps2[i].val.String(), "captures differ after removing a rule")
		}
	}
	vfCover("dispatched")
}

// VerifH_addRule_fieldpaths (C16): field paths of variables and body / response_body selectors
// against a request type with nested, repeated and map fields: every path that resolves through
// singular message fields (of any depth) is accepted and routes; a path through a repeated or map
// field, through a scalar, or naming an unknown field is rejected - and nothing panics later.
func VerifH_addRule_fieldpaths() {
	leaf := newFakeMD("vf.Leaf", strField("id"))
	mid := newFakeMD("vf.Mid", strField("c"), &fakeFD{name: "leaf", kind: protoreflect.MessageKind, msg: leaf})
	in := newFakeMD("vf.FPReq",
		strField("a"),
		&fakeFD{name: "mid", kind: protoreflect.MessageKind, msg: mid},
		&fakeFD{name: "mids", kind: protoreflect.MessageKind, msg: mid, list: true},
		&fakeFD{name: "mp", kind: protoreflect.MessageKind, msg: mid, isMap: true},
	)
	out := newFakeMD("vf.Resp", strField("r"))
	d := &fakeMethod{full: "vf.S.M0", in: in, out: out}
	cases := []struct {
		path string
		ok   bool
	}{
		{"a", true}, {"mid.c", true}, {"mid.leaf.id", true},
		{"mids.c", false}, {"mp.c", false}, {"mids.leaf.id", false},
		{"nope", false}, {"mid.nope", false}, {"a.c", false}, {"mid.leaf.id.x", false},
	}
	c := cases[vfChoice(len(cases))]
	asBody := vfBool()
	root := newPath()
	var err error
	if asBody {
		r := vfHTTPRule("POST", "/aa")
		r.Body = c.path
		err = root.addRule(r, d, "/vf.S/M0")
	} else {
		err = root.addRule(vfHTTPRule("GET", "/aa/{"+c.path+"}"), d, "/vf.S/M0")
	}
	if c.path == "a" && asBody {
		// a scalar body field: whether a non-message body selector is acceptable is not settled by
		// the property; only panic-freedom
		vfCover("scalar-body")
		return
	}
	if !c.ok {
		vfCheck(err != nil, "a field path that does not resolve through singular message fields was accepted")
		vfCover("rejected")
		return
	}
	vfCheck(err == nil, "a well-formed field path that resolves in the request type was rejected")
	if !asBody {
		m, ps, merr := root.match("/aa/zz", "GET")
		vfCheck(merr == nil && m != nil && len(ps) == 1 && ps[0].val.String() == "zz", "a path instantiated from an accepted template does not route with its capture")
		msg := newFakeMsg(in)
		vfCheck(params(ps).set(msg) == nil, "the capture of an accepted template cannot be stored in the request message")
		if c.path == "mid.leaf.id" {
			vfCover("depth-3")
		}
	}
	vfCover("accepted")
}
