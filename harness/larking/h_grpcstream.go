package larking

import (
	"io"
	"net/http"
	"net/url"

	"google.golang.org/grpc"
)

func init() {
	vfHarnesses["VerifH_serveGRPC_stream"] = VerifH_serveGRPC_stream
}

// vfWrappedStream is what a real stream interceptor hands to the handler: the handler must run on
// it, not on the transport stream it wraps.
type vfWrappedStream struct {
	grpc.ServerStream
	recvs, sends int
}

func (w *vfWrappedStream) RecvMsg(m interface{}) error {
	err := w.ServerStream.RecvMsg(m)
	if err == nil {
		w.recvs++
	}
	return err
}
func (w *vfWrappedStream) SendMsg(m interface{}) error { w.sends++; return w.ServerStream.SendMsg(m) }

type vfStreamLog struct {
	calls      int
	method     string
	clientFlag bool
	serverFlag bool
}

// VerifH_serveGRPC_stream (C06, C18): a bidirectional-streaming call through the real serveGRPC:
// k request frames (every partition of the body into reads, optional truncation of the last
// frame), j reply frames; the handler sees exactly the k payloads then io.EOF, the client sees
// exactly the j replies then the status; the stream interceptor runs once with the right flags and
// the stats handler sees one payload event per message.
func VerifH_serveGRPC_stream() {
	in := schemaRoute()
	out := newFakeMD("vf.Resp", strField("r"))
	md := &fakeMethod{full: "vf.S.St", in: in, out: out, cs: true, ss: true, opts: &fakeOpts{}}
	svc := &fakeSvc{full: "vf.S", methods: &fakeMethodList{list: []*fakeMethod{md}}}
	rec := &fakeCodec{name: "fake"}
	opts := []MuxOption{FilesOption(vfRegistry(svc)), CodecOption("application/x", rec), MaxReceiveMessageSizeOption(8)}
	withStats := vfBool()
	withInterceptor := vfBool()
	var st *fakeStats
	ilog := &vfStreamLog{}
	var wrapped *vfWrappedStream
	if withStats {
		st = &fakeStats{}
		opts = append(opts, StatsOption(st))
	}
	if withInterceptor {
		opts = append(opts, StreamServerInterceptorOption(func(srv interface{}, ss grpc.ServerStream, info *grpc.StreamServerInfo, handler grpc.StreamHandler) error {
			ilog.calls++
			ilog.method = info.FullMethod
			ilog.clientFlag, ilog.serverFlag = info.IsClientStream, info.IsServerStream
			wrapped = &vfWrappedStream{ServerStream: ss}
			return handler(srv, wrapped)
		}))
	}
	mux, err := NewMux(opts...)
	if err != nil {
		vfFail("NewMux failed")
	}
	srv := &vfStreamSrv{in: in}
	sd := &grpc.ServiceDesc{ServiceName: "vf.S", Streams: []grpc.StreamDesc{{StreamName: "St", Handler: vfStreamHandler, ClientStreams: true, ServerStreams: true}}}
	if err := mux.registerService(sd, srv); err != nil {
		vfFail("registerService failed: " + err.Error())
	}
	k := vfLen(2)
	var payloads [][]byte
	var body []byte
	for i := 0; i < k; i++ {
		p := vfBytes(vfLen(2))
		payloads = append(payloads, p)
		body = append(body, 0, 0, 0, 0, byte(len(p)))
		body = append(body, p...)
	}
	cut := len(body)
	if len(body) > 0 && vfBool() {
		cut = len(body) - 1 - vfChoice(2)%len(body) // drop the last 1..2 bytes
	}
	j := vfLen(2)
	for i := 0; i < j; i++ {
		r := newFakeMsg(out)
		r.payload = vfBytes(vfLen(2))
		srv.replies = append(srv.replies, r)
	}
	rd := &vfFragReader{data: body[:cut]}
	if cut > vfBound(6, 9) {
		rd.greedy = true
		rd.maxChunk = 1 + vfChoice(4)
	}
	r := &http.Request{
		Method: "POST", URL: &url.URL{Path: "/vf.S/St"},
		Header: http.Header{"Content-Type": []string{"application/grpc+fake"}}, Body: vfNopCloser{rd}, ContentLength: -1, ProtoMajor: 2,
	}
	w := newFakeRW()
	mux.ServeHTTP(w, r)
	w.finish()
	vfCheck(srv.calls == 1, "stream handler not invoked exactly once")
	// complete frames in body[:cut]
	complete, off := 0, 0
	for i := 0; i < k; i++ {
		l := 5 + len(payloads[i])
		if off+l <= cut {
			complete++
			off += l
		} else {
			break
		}
	}
	vfCheck(len(srv.got) == complete, "the handler did not receive exactly the complete request messages")
	for i := 0; i < complete && i < len(srv.got); i++ {
		vfCheck(vfBytesEq(srv.got[i], payloads[i]), "a request message reached the handler altered")
	}
	if off == cut {
		vfCheck(srv.recvErr == io.EOF, "clean end of the request stream not reported as io.EOF")
		vfCover("clean-eof")
	} else {
		vfCheck(srv.recvErr != nil && srv.recvErr != io.EOF, "request stream ending inside a frame reported as a clean end")
		vfCover("truncated")
	}
	// replies as the client sees them
	pos := 0
	for i := 0; i < j; i++ {
		p := srv.replies[i].payload
		vfCheck(pos+5+len(p) <= len(w.body) && w.body[pos] == 0 && int(w.body[pos+4]) == len(p) && vfBytesEq(w.body[pos+5:pos+5+len(p)], p), "reply frame missing or altered")
		pos += 5 + len(p)
	}
	vfCheck(pos == len(w.body), "extra bytes after the last reply frame")
	gs, ok := w.trailer("Grpc-Status")
	vfCheck(ok && len(gs) == 1 && gs[0] == "0", "grpc-status of a successful stream is not 0")
	if j > 0 {
		vfCover("replies")
	}
	if withInterceptor {
		vfCheck(ilog.calls == 1 && ilog.method == "/vf.S/St" && ilog.clientFlag && ilog.serverFlag, "stream interceptor not invoked exactly once with the method name and streaming flags")
		vfCheck(wrapped != nil && wrapped.recvs == complete && wrapped.sends == j, "the handler did not run on the stream the interceptor passed to it")
		vfCover("interceptor")
	}
	if withStats {
		vfCheck(len(st.inLen) == complete && len(st.outLen) == j, "stats payload events do not match the messages received and sent")
		for i := 0; i < complete && i < len(st.inLen); i++ {
			vfCheck(st.inLen[i] == len(payloads[i]), "in-payload stats length differs from the message length")
		}
		vfCheck(st.ends == 1 && st.endErr == nil, "End stats event not delivered exactly once without error")
		vfCover("stats")
	}
}
