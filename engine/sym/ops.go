package sym

import (
	"fmt"
	"go/token"
	"go/types"
	"math"
	"unicode/utf8"

	"golang.org/x/tools/go/ssa"
)

// SymRef is a pointer into a slice/array cell selected by a symbolic index.
type SymRef struct {
	Cells []Value
	Idx   *Term // 64-bit, already bounds-checked
}

func (m *Machine) rtPanic(msg string) {
	panic(targetPanic{runtime: true, msg: "runtime error: " + msg, stack: m.stackString()})
}

// selectTerm builds vals[idx] as a nested ite over runs of equal values.
func (m *Machine) selectTerm(idx *Term, vals []*Term) *Term {
	if len(vals) == 0 {
		panic("selectTerm: empty")
	}
	type run struct {
		hi int
		v  *Term
	}
	var runs []run
	for i, v := range vals {
		if len(runs) > 0 && runs[len(runs)-1].v == v {
			runs[len(runs)-1].hi = i
		} else {
			runs = append(runs, run{i, v})
		}
	}
	res := runs[len(runs)-1].v
	for k := len(runs) - 2; k >= 0; k-- {
		res = m.C.Ite(m.C.Cmp(OpUle, idx, m.C.BV(idx.W, uint64(runs[k].hi))), runs[k].v, res)
	}
	return res
}

// load reads through a pointer value.
func (m *Machine) load(p Value) Value {
	switch p := p.(type) {
	case *Value:
		if p == nil {
			m.rtPanic("invalid memory address or nil pointer dereference")
		}
		v := *p
		if po, ok := v.(Poison); ok {
			m.unsupported("read of poisoned memory: " + po.Why)
		}
		return copyVal(v)
	case SymRef:
		terms := make([]*Term, len(p.Cells))
		for i, c := range p.Cells {
			t, ok := c.(*Term)
			if !ok {
				// non-scalar cells: concretise the index
				i := int(m.Concretize(p.Idx))
				return copyVal(p.Cells[i])
			}
			terms[i] = t
		}
		return m.selectTerm(p.Idx, terms)
	case Poison:
		m.unsupported("load through poisoned pointer: " + p.Why)
	}
	panic(fmt.Sprintf("load: unexpected pointer %T", p))
}

func (m *Machine) store(p Value, v Value) {
	switch p := p.(type) {
	case *Value:
		if p == nil {
			m.rtPanic("invalid memory address or nil pointer dereference")
		}
		m.storeInPlace(p, v)
	case SymRef:
		i := int(m.Concretize(p.Idx))
		m.storeInPlace(&p.Cells[i], v)
	default:
		panic(fmt.Sprintf("store: unexpected pointer %T", p))
	}
}

// storeInPlace writes v into the cell p. Aggregates are written element by element into the
// existing cells, so that addresses of fields / elements taken BEFORE the store (go/ssa computes
// the field addresses of `*z = T{a: x}` first, stores the zero T, then stores through them) keep
// denoting the live object.
func (m *Machine) storeInPlace(p *Value, v Value) {
	switch nv := v.(type) {
	case Struct:
		if old, ok := (*p).(Struct); ok && len(old) == len(nv) {
			for i := range nv {
				m.storeInPlace(&old[i], nv[i])
			}
			return
		}
	case Array:
		if old, ok := (*p).(Array); ok && len(old) == len(nv) {
			for i := range nv {
				m.storeInPlace(&old[i], nv[i])
			}
			return
		}
	}
	m.set(p, copyVal(v))
}

// boundsCheck decides 0 <= idx < n (idx signed 64-bit) or panics like Go.
func (m *Machine) boundsCheck(idx *Term, n int, what string) {
	c := m.C.Cmp(OpUlt, idx, m.C.BV(idx.W, uint64(n))) // unsigned compare covers negatives
	if !m.Decide(c) {
		m.rtPanic(fmt.Sprintf("index out of range [%s] with length %d", m.show(idx), n))
	}
}

func (m *Machine) toInt64(v Value, t types.Type) *Term {
	x := m.asTerm(v)
	if x.W == 64 {
		return x
	}
	if isUnsigned(t) {
		return m.C.Zext(x, 64)
	}
	return m.C.Sext(x, 64)
}

// ---------------------------------------------------------------------------------------

func (m *Machine) eqVal(a, b Value) *Term {
	switch a := a.(type) {
	case *Term:
		bt, ok := b.(*Term)
		if !ok {
			if _, isP := b.(Poison); isP {
				m.unsupported("comparison with poison")
			}
			panic(fmt.Sprintf("eqVal: *Term vs %T", b))
		}
		return m.C.Eq(a, bt)
	case float64:
		return m.C.Bool(a == b.(float64))
	case Str:
		return m.strEq(a, b.(Str))
	case *Value:
		switch b := b.(type) {
		case *Value:
			return m.C.Bool(a == b)
		case DataPtr, SymRef:
			return m.C.False
		}
		panic(fmt.Sprintf("eqVal: pointer vs %T", b))
	case Struct:
		bs := b.(Struct)
		r := m.C.True
		for i := range a {
			r = m.C.And(r, m.eqVal(a[i], bs[i]))
		}
		return r
	case Array:
		bs := b.(Array)
		r := m.C.True
		for i := range a {
			r = m.C.And(r, m.eqVal(a[i], bs[i]))
		}
		return r
	case Iface:
		bi, ok := b.(Iface)
		if !ok {
			panic(fmt.Sprintf("eqVal: iface vs %T", b))
		}
		if a.T == nil || bi.T == nil {
			return m.C.Bool(a.T == nil && bi.T == nil)
		}
		if !types.Identical(a.T, bi.T) {
			return m.C.False
		}
		if !types.Comparable(a.T) {
			panic(targetPanic{runtime: true, msg: "runtime error: comparing uncomparable type " + a.T.String(), stack: m.stackString()})
		}
		return m.eqVal(a.V, bi.V)
	case *Map:
		bm, _ := b.(*Map)
		return m.C.Bool(a == bm)
	case *Chan:
		bc, _ := b.(*Chan)
		return m.C.Bool(a == bc)
	case Slice:
		bs, _ := b.(Slice)
		// only comparison with nil is legal
		return m.C.Bool(a == nil && bs == nil)
	case *Closure:
		switch b := b.(type) {
		case *Closure:
			return m.C.Bool(a == b)
		case *ssa.Function:
			return m.C.Bool(a == nil && b == nil)
		}
	case *ssa.Function:
		switch b := b.(type) {
		case *Closure:
			return m.C.Bool(a == nil && b == nil)
		case *ssa.Function:
			return m.C.Bool(a == b)
		}
	case *Native:
		bn, _ := b.(*Native)
		return m.C.Bool(a == bn)
	case DataPtr:
		return m.C.False
	case complex128:
		return m.C.Bool(a == b.(complex128))
	case Poison:
		m.unsupported("comparison with poison: " + a.Why)
	}
	panic(fmt.Sprintf("eqVal: unexpected %T vs %T", a, b))
}

func (m *Machine) binop(op token.Token, xt, yt types.Type, x, y Value) Value {
	if p, ok := x.(Poison); ok {
		m.unsupported("binop on poison: " + p.Why)
	}
	if p, ok := y.(Poison); ok {
		m.unsupported("binop on poison: " + p.Why)
	}
	switch op {
	case token.EQL:
		return m.eqVal(x, y)
	case token.NEQ:
		return m.C.Not(m.eqVal(x, y))
	}
	switch xv := x.(type) {
	case Str:
		yv := y.(Str)
		switch op {
		case token.ADD:
			return m.strConcat(xv, yv)
		case token.LSS:
			return m.strLess(xv, yv)
		case token.GTR:
			return m.strLess(yv, xv)
		case token.LEQ:
			return m.C.Not(m.strLess(yv, xv))
		case token.GEQ:
			return m.C.Not(m.strLess(xv, yv))
		}
	case float64:
		yv := y.(float64)
		f32 := false
		if b, ok := xt.Underlying().(*types.Basic); ok && b.Kind() == types.Float32 {
			f32 = true
		}
		r := func(f float64) Value {
			if f32 {
				return float64(float32(f))
			}
			return f
		}
		switch op {
		case token.ADD:
			return r(xv + yv)
		case token.SUB:
			return r(xv - yv)
		case token.MUL:
			return r(xv * yv)
		case token.QUO:
			return r(xv / yv)
		case token.LSS:
			return m.C.Bool(xv < yv)
		case token.GTR:
			return m.C.Bool(xv > yv)
		case token.LEQ:
			return m.C.Bool(xv <= yv)
		case token.GEQ:
			return m.C.Bool(xv >= yv)
		}
	case *Term:
		yv := m.asTerm(y)
		if xv.W == 0 {
			switch op {
			case token.LAND, token.AND:
				return m.C.And(xv, yv)
			case token.LOR, token.OR:
				return m.C.Or(xv, yv)
			}
			break
		}
		uns := isUnsigned(xt)
		switch op {
		case token.ADD:
			return m.C.Bin(OpAdd, xv, yv)
		case token.SUB:
			return m.C.Bin(OpSub, xv, yv)
		case token.MUL:
			return m.C.Bin(OpMul, xv, yv)
		case token.QUO, token.REM:
			if m.Decide(m.C.Eq(yv, m.C.BV(yv.W, 0))) {
				m.rtPanic("integer divide by zero")
			}
			if op == token.QUO {
				if uns {
					return m.C.Bin(OpUDiv, xv, yv)
				}
				return m.C.Bin(OpSDiv, xv, yv)
			}
			if uns {
				return m.C.Bin(OpURem, xv, yv)
			}
			return m.C.Bin(OpSRem, xv, yv)
		case token.AND:
			return m.C.Bin(OpBAnd, xv, yv)
		case token.OR:
			return m.C.Bin(OpBOr, xv, yv)
		case token.XOR:
			return m.C.Bin(OpBXor, xv, yv)
		case token.AND_NOT:
			return m.C.Bin(OpBAnd, xv, m.C.BNot(yv))
		case token.SHL, token.SHR:
			// shift count: any integer type
			if !isUnsigned(yt) {
				if m.Decide(m.C.Cmp(OpSlt, yv, m.C.BV(yv.W, 0))) {
					m.rtPanic("negative shift amount")
				}
			}
			w := xv.W
			var cnt *Term
			var big *Term
			if yv.W > w {
				big = m.C.Not(m.C.Cmp(OpUlt, yv, m.C.BV(yv.W, uint64(w))))
				cnt = m.C.Extract(yv, w-1, 0)
			} else {
				cnt = m.C.Zext(yv, w)
				big = m.C.Not(m.C.Cmp(OpUlt, cnt, m.C.BV(w, uint64(w))))
			}
			var sh, over *Term
			switch {
			case op == token.SHL:
				sh, over = m.C.Bin(OpShl, xv, cnt), m.C.BV(w, 0)
			case uns:
				sh, over = m.C.Bin(OpLShr, xv, cnt), m.C.BV(w, 0)
			default:
				sh = m.C.Bin(OpAShr, xv, cnt)
				over = m.C.Bin(OpAShr, xv, m.C.BV(w, uint64(w-1)))
			}
			return m.C.Ite(big, over, sh)
		case token.LSS:
			if uns {
				return m.C.Cmp(OpUlt, xv, yv)
			}
			return m.C.Cmp(OpSlt, xv, yv)
		case token.LEQ:
			if uns {
				return m.C.Cmp(OpUle, xv, yv)
			}
			return m.C.Cmp(OpSle, xv, yv)
		case token.GTR:
			if uns {
				return m.C.Cmp(OpUlt, yv, xv)
			}
			return m.C.Cmp(OpSlt, yv, xv)
		case token.GEQ:
			if uns {
				return m.C.Cmp(OpUle, yv, xv)
			}
			return m.C.Cmp(OpSle, yv, xv)
		}
	}
	panic(fmt.Sprintf("binop: unsupported %s on %T (%v)", op, x, xt))
}

func (m *Machine) unop(instr *ssa.UnOp, x Value) Value {
	switch instr.Op {
	case token.MUL:
		return m.load(x)
	case token.NOT:
		return m.C.Not(m.asTerm(x))
	case token.SUB:
		switch x := x.(type) {
		case *Term:
			return m.C.Neg(x)
		case float64:
			return -x
		}
	case token.XOR:
		return m.C.BNot(m.asTerm(x))
	case token.ARROW:
		ch, _ := x.(*Chan)
		v, ok := m.chanRecv(ch)
		if instr.CommaOk {
			return Tuple{v, m.C.Bool(ok)}
		}
		return v
	}
	panic(fmt.Sprintf("unop: unsupported %s on %T", instr.Op, x))
}

// conv implements ssa.Convert.
func (m *Machine) conv(dst, src types.Type, x Value) Value {
	ud, us := dst.Underlying(), src.Underlying()
	if p, ok := x.(Poison); ok {
		m.unsupported("convert poison: " + p.Why)
	}
	switch ud := ud.(type) {
	case *types.Basic:
		switch {
		case ud.Info()&types.IsInteger != 0:
			switch xv := x.(type) {
			case *Term:
				w := intWidth(ud)
				if xv.W == w {
					return xv
				}
				if w < xv.W {
					return m.C.Extract(xv, w-1, 0)
				}
				if isUnsigned(src) {
					return m.C.Zext(xv, w)
				}
				return m.C.Sext(xv, w)
			case float64:
				w := intWidth(ud)
				if ud.Info()&types.IsUnsigned != 0 {
					return m.C.BV(w, uint64(xv))
				}
				return m.C.BV(w, uint64(int64(xv)))
			case *Value, DataPtr:
				// uintptr(unsafe.Pointer(p)): keep identity by boxing
				m.unsupported("pointer to integer conversion")
			}
		case ud.Info()&types.IsFloat != 0:
			switch xv := x.(type) {
			case *Term:
				u := m.Concretize(xv)
				var f float64
				if isUnsigned(src) {
					f = float64(u)
				} else {
					f = float64(sext64(u, xv.W))
				}
				if ud.Kind() == types.Float32 {
					f = float64(float32(f))
				}
				return f
			case float64:
				if ud.Kind() == types.Float32 {
					return float64(float32(xv))
				}
				return xv
			}
		case ud.Info()&types.IsString != 0:
			switch xv := x.(type) {
			case Str:
				return xv
			case *Term:
				// integer -> string (rune)
				u := m.Concretize(xv)
				r := rune(sext64(u, xv.W))
				if isUnsigned(src) && u > math.MaxInt32 {
					r = utf8.RuneError
				}
				return Str{S: string(r)}
			case Slice:
				if s, ok := us.(*types.Slice); ok {
					if b, ok := s.Elem().Underlying().(*types.Basic); ok && b.Kind() == types.Int32 {
						// []rune -> string
						buf := []rune{}
						for _, e := range xv {
							u := m.Concretize(m.asTerm(e))
							buf = append(buf, rune(int32(u)))
						}
						return Str{S: string(buf)}
					}
				}
				return m.bytesToStr(xv)
			}
		case ud.Kind() == types.UnsafePointer:
			return x
		}
	case *types.Slice:
		if xs, ok := x.(Str); ok {
			if b, ok := ud.Elem().Underlying().(*types.Basic); ok && b.Kind() == types.Int32 {
				// string -> []rune: needs concrete content
				if !xs.Concrete() {
					bs := make([]byte, xs.Len())
					for i := range bs {
						bs[i] = byte(m.Concretize(xs.B[i]))
					}
					xs = Str{S: string(bs)}
				}
				out := Slice{}
				for _, r := range xs.S {
					out = append(out, m.C.BV(32, uint64(uint32(r))))
				}
				return out
			}
			return m.strToBytes(xs)
		}
		return x
	case *types.Pointer:
		return x
	}
	switch x.(type) {
	case *Value, DataPtr, Slice, *Map, Struct:
		return x
	}
	panic(fmt.Sprintf("conv: unsupported %v -> %v (%T)", src, dst, x))
}

// implements reports whether dynamic type t implements interface it.
func (p *Program) implements(t types.Type, it *types.Interface) bool {
	k := [2]types.Type{t, it}
	p.implMu.Lock()
	r, ok := p.implMemo[k]
	p.implMu.Unlock()
	if ok {
		return r
	}
	r = types.Implements(t, it)
	p.implMu.Lock()
	p.implMemo[k] = r
	p.implMu.Unlock()
	return r
}

func (m *Machine) typeAssert(instr *ssa.TypeAssert, x Iface) Value {
	var ok bool
	var v Value
	if it, isI := instr.AssertedType.Underlying().(*types.Interface); isI {
		if x.T != nil && m.Prog.implements(x.T, it) {
			ok = true
			v = x
		}
		if !ok {
			v = Iface{}
		}
	} else {
		if x.T != nil && types.Identical(x.T, instr.AssertedType) {
			ok = true
			v = copyVal(x.V)
		} else {
			v = m.zero(instr.AssertedType)
		}
	}
	if instr.CommaOk {
		return Tuple{v, m.C.Bool(ok)}
	}
	if !ok {
		have := "nil"
		if x.T != nil {
			have = x.T.String()
		}
		panic(targetPanic{runtime: true, msg: fmt.Sprintf("interface conversion: interface is %s, not %s", have, instr.AssertedType), stack: m.stackString()})
	}
	return v
}

// ---------------------------------------------------------------------------------------
// Maps.

func (m *Machine) mapFind(mp *Map, key Value) int {
	if mp == nil {
		return -1
	}
	// fast path: concrete equal
	for i, e := range mp.E {
		c := m.eqVal(e.K, key)
		if c.IsConst() {
			if c.Val != 0 {
				return i
			}
			continue
		}
		if m.Decide(c) {
			return i
		}
	}
	return -1
}

func (m *Machine) mapGet(mp *Map, key Value) (Value, bool) {
	i := m.mapFind(mp, key)
	if i < 0 {
		return nil, false
	}
	return copyVal(mp.E[i].V), true
}

func (m *Machine) mapSet(mp *Map, key, val Value) {
	if mp == nil {
		panic(targetPanic{runtime: false, msg: "assignment to entry in nil map", stack: m.stackString()})
	}
	i := m.mapFind(mp, key)
	old := mp.E
	ne := make([]mapEntry, len(old), len(old)+1)
	copy(ne, old)
	if i >= 0 {
		ne[i].V = copyVal(val)
	} else {
		ne = append(ne, mapEntry{copyVal(key), copyVal(val)})
	}
	m.trail = append(m.trail, trailEntry{mp: mp, oe: old})
	mp.E = ne
}

func (m *Machine) mapDelete(mp *Map, key Value) {
	i := m.mapFind(mp, key)
	if i < 0 {
		return
	}
	old := mp.E
	ne := make([]mapEntry, 0, len(old))
	ne = append(ne, old[:i]...)
	ne = append(ne, old[i+1:]...)
	m.trail = append(m.trail, trailEntry{mp: mp, oe: old})
	mp.E = ne
}

// ---------------------------------------------------------------------------------------
// Range iterators.

type iterator interface {
	next(m *Machine) Tuple
}

type mapIter struct {
	ents []mapEntry
	i    int
	mp   *Map
	kz   Value
	vz   Value
}

func (it *mapIter) next(m *Machine) Tuple {
	for it.i < len(it.ents) {
		e := it.ents[it.i]
		it.i++
		// skip entries deleted during iteration (Go semantics)
		alive := false
		for _, c := range it.mp.E {
			if eq := m.eqVal(c.K, e.K); eq.IsConst() && eq.Val != 0 {
				alive = true
				e.V = c.V
				break
			}
		}
		if !alive {
			continue
		}
		return Tuple{m.C.True, copyVal(e.K), copyVal(e.V)}
	}
	return Tuple{m.C.False, it.kz, it.vz}
}

type strIter struct {
	s Str
	i int
}

func (it *strIter) next(m *Machine) Tuple {
	if it.i >= it.s.Len() {
		return Tuple{m.C.False, m.C.BV(64, 0), m.C.BV(32, 0)}
	}
	pos := it.i
	b := m.strAt(it.s, pos)
	if m.Decide(m.C.Cmp(OpUlt, b, m.C.BV(8, 0x80))) {
		it.i++
		return Tuple{m.C.True, m.C.BV(64, uint64(pos)), m.C.Zext(b, 32)}
	}
	// multi-byte: run the real decoder on the remaining string
	fn := m.Prog.FuncIn("unicode/utf8", "DecodeRuneInString")
	res := m.call(fn, []Value{m.strSlice(it.s, pos, it.s.Len())}).(Tuple)
	size := m.ConcInt(res[1])
	it.i += size
	return Tuple{m.C.True, m.C.BV(64, uint64(pos)), res[0]}
}
