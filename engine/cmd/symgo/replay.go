package main

import (
	"encoding/json"
	"fmt"
	"os"
	"path/filepath"
	"strings"
	"time"
)

// cmdReplay re-runs a stored counterexample natively against /repo's current tree.
// Exit 1 if the violation reproduces, 0 if the harness now passes.
func cmdReplay(args []string) int {
	if len(args) != 1 {
		fmt.Fprintln(os.Stderr, "usage: symgo replay <file>")
		return 2
	}
	data, err := os.ReadFile(args[0])
	if err != nil {
		fmt.Fprintln(os.Stderr, err)
		return 2
	}
	var doc struct {
		Property string        `json:"property"`
		Harness  string        `json:"harness"`
		Tier     string        `json:"tier"`
		Kind     string        `json:"kind"`
		Msg      string        `json:"msg"`
		Draws    []interface{} `json:"draws"`
	}
	if err := json.Unmarshal(data, &doc); err != nil {
		fmt.Fprintln(os.Stderr, err)
		return 2
	}
	prog, err := loadProgramOverlayOnly()
	if err != nil {
		fmt.Fprintln(os.Stderr, err)
		return 2
	}
	scratch, err := os.MkdirTemp("", "symgo-replay1-")
	if err != nil {
		fmt.Fprintln(os.Stderr, err)
		return 2
	}
	defer os.RemoveAll(scratch)
	tape := filepath.Join(scratch, "tape.json")
	td, _ := json.Marshal(doc.Draws)
	os.WriteFile(tape, td, 0o644)
	// outcomes may depend on Go's map order or, for concurrent harnesses, on the goroutine schedule:
	// repeat until the violation shows
	rep := 40
	for _, p := range props {
		for _, hs := range p.Harnesses {
			if hs.Name == doc.Harness && hs.Concurrent {
				rep = 5000
			}
		}
	}
	res, out, err := nativeReplay(prog, []replayEntry{{ID: "r0", Harness: doc.Harness, Tape: tape, Tier: doc.Tier, Kind: doc.Kind, Msg: doc.Msg, Repeat: rep}}, 300*time.Second)
	if err != nil {
		fmt.Fprintln(os.Stderr, err)
		return 2
	}
	r, ok := res["r0"]
	if !ok {
		fmt.Println("no result from native run:\n" + lastLines(out, 10))
		return 2
	}
	fmt.Printf("native outcome: %s %s\n", r.Kind, r.Msg)
	if strings.HasPrefix(doc.Msg, "data race:") && r.Kind != "race" {
		fmt.Println("the Go race detector reported nothing")
		return 0
	}
	if r.Kind == "ok" || r.Kind == "assume-false" {
		return 0
	}
	fmt.Printf("VIOLATION property=%s replay=%s\n", doc.Property, args[0])
	return 1
}
