package larking

import (
	"unicode"
	"unicode/utf8"
)

func init() {
	vfHarnesses["VerifH_match_utf8"] = VerifH_match_utf8
	vfHarnesses["VerifH_template_utf8"] = VerifH_template_utf8
}

// refPathCharsUTF8: the documented path characters, with "letter" and "digit" read as the Unicode
// categories L and N for text beyond ASCII (what the documented grammar's LITERAL / IDENT use);
// spelled out independently of larking's isPath. Invalid UTF-8 is never a path character.
func refPathCharsUTF8(s string) bool {
	for i := 0; i < len(s); {
		if c := s[i]; c < utf8.RuneSelf {
			if !refIsPathByte(c) {
				return false
			}
			i++
			continue
		}
		r, w := utf8.DecodeRuneInString(s[i:])
		if r == utf8.RuneError && w <= 1 {
			return false
		}
		if !unicode.IsLetter(r) && !unicode.IsNumber(r) {
			return false
		}
		i += w
	}
	return true
}

// VerifH_match_utf8 (C01, C02): request paths whose bytes are FULLY symbolic (no ASCII restriction:
// multi-byte UTF-8 letters, non-letters, truncated and invalid sequences) against rule sets with
// unicode literals and variables. Soundness as in VerifH_match_sound; completeness for every path
// whose segments consist of documented path characters (Unicode letters / numbers beyond ASCII).
func VerifH_match_utf8() {
	sets := [][]vfRule{
		{{0, "GET", "/é/{f}"}, {1, "GET", "/é/日"}},
		{{0, "GET", "/{f}"}, {1, "GET", "/{g}/é"}},
		{{0, "GET", "/{f=é/*}:vv"}, {1, "GET", "/é/{g}"}},
		{{0, "GET", "/日/**"}, {1, "GET", "/日/é"}},
	}
	set := sets[vfChoice(len(sets))]
	b := vfBuild(set, vfIdentityOrder(len(set)))
	verb := "GET"
	prefix := "/"
	switch vfChoice(3) {
	case 1:
		prefix = "/é/"
	case 2:
		prefix = "/日/"
	}
	tail := vfString(1 + vfLen(vfBound(2, 4)))
	route := prefix + tail
	nonASCII := false
	for i := 0; i < len(tail); i++ {
		if tail[i] >= 0x80 {
			nonASCII = true
		}
	}
	if nonASCII {
		vfCover("non-ascii-symbolic")
	}
	vfCheckSound(b, route, verb)
	// completeness: only for paths made of documented path characters
	segs, ok := refSplit(route)
	if !ok {
		return
	}
	for _, s := range segs {
		if !refPathCharsUTF8(s) {
			return
		}
	}
	if nonASCII {
		vfCover("non-ascii-valid")
	}
	vfCheckComplete(b, route, verb)
}

// VerifH_template_utf8 (C16): templates "/" + fully symbolic bytes registered on an empty trie: the
// verdict follows the reference grammar with Unicode letters / numbers, never a panic; an accepted
// single-literal template then routes its own text.
func VerifH_template_utf8() {
	in := schemaRoute()
	out := newFakeMD("vf.Resp", strField("r"))
	d0 := &fakeMethod{full: "vf.S.M0", in: in, out: out}
	body := vfString(1 + vfLen(vfBound(3, 4)))
	nonASCII := false
	for i := 0; i < len(body); i++ {
		if body[i] >= 0x80 {
			nonASCII = true
		}
		// keep to literal templates: no structure characters
		vfAssume(body[i] != '/' && body[i] != '{' && body[i] != '}' && body[i] != '*' && body[i] != ':' && body[i] != '=')
	}
	tmpl := "/" + body
	root := newPath()
	err := root.addRule(vfHTTPRule("GET", tmpl), d0, "/vf.S/M0")
	// reference: a LITERAL is a non-empty run of letters / numbers / '_' / '-' / '.'; the lexical
	// start is not fixed by the grammar (non-letter starts are unspecified)
	valid := true
	first := true
	startsLetter := false
	for i := 0; i < len(body); {
		r, w := rune(body[i]), 1
		if r >= utf8.RuneSelf {
			r, w = utf8.DecodeRuneInString(body[i:])
			if r == utf8.RuneError && w <= 1 {
				valid = false
				break
			}
		}
		isL := unicode.IsLetter(r)
		if first {
			startsLetter = isL
			first = false
		}
		if !(isL || unicode.IsNumber(r) || r == '_' || r == '-' || r == '.') {
			valid = false
			break
		}
		i += w
	}
	if !valid {
		vfCheck(err != nil, "a template with a character outside the LITERAL class was accepted")
		vfCover("rejected")
		return
	}
	if !startsLetter {
		return // unspecified
	}
	vfCheck(err == nil, "a well-formed literal template was rejected")
	if nonASCII {
		vfCover("accepted-non-ascii")
	}
	m, _, merr := root.match(tmpl, "GET")
	vfCheck(merr == nil && m != nil && m.name == "/vf.S/M0", "an accepted literal template does not route its own text")
}
