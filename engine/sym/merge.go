package sym

import (
	"go/token"
	"go/types"

	"golang.org/x/tools/go/ssa"
)

// Merged evaluation of small pure predicates: instead of forking at every `||`, a loop-free,
// store-free function whose result is a scalar is evaluated over its whole CFG with block
// guards, phis becoming ite terms. This is an optimisation only: when anything outside the
// supported fragment is reachable (decided by the solver), the engine falls back to ordinary
// forking interpretation of the same SSA.

const maxMergeDepth = 4

func (m *Machine) staticMergeable(fn *ssa.Function, depth int) bool {
	if fn.Blocks == nil || depth > maxMergeDepth || len(fn.FreeVars) > 0 {
		return false
	}
	if len(fn.Blocks) > 64 {
		return false
	}
	res := fn.Signature.Results()
	if res.Len() != 1 {
		return false
	}
	if !isScalar(res.At(0).Type()) {
		return false
	}
	for i := 0; i < fn.Signature.Params().Len(); i++ {
		if !isScalar(fn.Signature.Params().At(i).Type()) {
			return false
		}
	}
	// acyclic?
	state := map[*ssa.BasicBlock]int{}
	var cyc bool
	var dfs func(b *ssa.BasicBlock)
	dfs = func(b *ssa.BasicBlock) {
		state[b] = 1
		for _, s := range b.Succs {
			switch state[s] {
			case 0:
				dfs(s)
			case 1:
				cyc = true
			}
		}
		state[b] = 2
	}
	dfs(fn.Blocks[0])
	if cyc {
		return false
	}
	if fn.Recover != nil {
		return false
	}
	return true
}

func isScalar(t types.Type) bool {
	b, ok := t.Underlying().(*types.Basic)
	return ok && b.Info()&(types.IsInteger|types.IsBoolean) != 0
}

type mergeBail struct{}

// mergeCall evaluates fn(args) as one term. ok=false means "fall back to interpretation".
func (m *Machine) mergeCall(fn *ssa.Function, args []Value) (res Value, ok bool) {
	savedSteps := m.steps
	defer func() {
		if r := recover(); r != nil {
			if _, is := r.(mergeBail); is {
				m.steps = savedSteps
				res, ok = nil, false
				return
			}
			panic(r)
		}
	}()
	return m.mergeEval(fn, args, 0), true
}

func (m *Machine) mergeEval(fn *ssa.Function, args []Value, depth int) *Term {
	if depth > maxMergeDepth {
		panic(mergeBail{})
	}
	C := m.C
	// reverse postorder
	var order []*ssa.BasicBlock
	seen := map[*ssa.BasicBlock]bool{}
	var po func(b *ssa.BasicBlock)
	po = func(b *ssa.BasicBlock) {
		seen[b] = true
		for _, s := range b.Succs {
			if !seen[s] {
				po(s)
			}
		}
		order = append(order, b)
	}
	po(fn.Blocks[0])
	for i, j := 0, len(order)-1; i < j; i, j = i+1, j-1 {
		order[i], order[j] = order[j], order[i]
	}
	guard := map[*ssa.BasicBlock]*Term{fn.Blocks[0]: C.True}
	edge := map[[2]*ssa.BasicBlock]*Term{}
	vals := map[ssa.Value]Value{}
	for i, p := range fn.Params {
		vals[p] = args[i]
	}
	get := func(v ssa.Value) Value {
		switch v := v.(type) {
		case *ssa.Const:
			return m.constValue(v)
		case *ssa.Global:
			return m.global(v)
		case *ssa.Function:
			return v
		}
		x, ok := vals[v]
		if !ok {
			panic(mergeBail{})
		}
		return x
	}
	var result *Term
	haveResult := false
	steps0 := m.steps
	defer func() { m.Stats.Funcs[fn.String()+" (ite-merged)"] += m.steps - steps0 }()
	for _, b := range order {
		g, ok := guard[b]
		if !ok || g == C.False {
			continue
		}
		// is this block "hard"? then it must be dead under pc, otherwise bail.
		dead := false
		checkedDead := false
		requireDead := func() {
			if checkedDead {
				return
			}
			checkedDead = true
			if !m.decideDead(g) {
				panic(mergeBail{})
			}
			dead = true
		}
		for _, in := range b.Instrs {
			if dead {
				break
			}
			m.steps++
			switch in := in.(type) {
			case *ssa.DebugRef:
			case *ssa.Phi:
				var r *Term
				first := true
				for i, p := range b.Preds {
					eg, ok := edge[[2]*ssa.BasicBlock{p, b}]
					if !ok || eg == C.False {
						continue
					}
					v := m.asTermOrBail(get(in.Edges[i]))
					if first {
						r, first = v, false
					} else {
						r = C.Ite(eg, v, r)
					}
				}
				if first {
					panic(mergeBail{})
				}
				vals[in] = r
			case *ssa.BinOp:
				switch in.Op {
				case token.QUO, token.REM:
					y := m.asTermOrBail(get(in.Y))
					if !y.IsConst() || y.Val == 0 {
						requireDead()
						continue
					}
				}
				x, y := get(in.X), get(in.Y)
				if _, ok := x.(*Term); !ok {
					requireDead()
					continue
				}
				if in.Op == token.SHL || in.Op == token.SHR {
					if !isUnsigned(in.Y.Type()) {
						if yt, ok := y.(*Term); !ok || !yt.IsConst() {
							requireDead()
							continue
						}
					}
				}
				vals[in] = m.binop(in.Op, in.X.Type(), in.Y.Type(), x, y)
			case *ssa.UnOp:
				switch in.Op {
				case token.NOT, token.SUB, token.XOR:
					vals[in] = m.unop(in, get(in.X))
				case token.MUL:
					// load: only through a reference produced by IndexAddr on a global array below
					p := get(in.X)
					switch p := p.(type) {
					case SymRef:
						vals[in] = m.load(p)
					case *Value:
						if _, isG := in.X.(*ssa.Global); !isG {
							if _, isIA := in.X.(*ssa.IndexAddr); !isIA {
								requireDead()
								continue
							}
						}
						v := m.load(p)
						if _, ok := v.(*Term); !ok {
							if _, isArr := v.(Array); !isArr {
								requireDead()
								continue
							}
						}
						vals[in] = v
					default:
						requireDead()
						continue
					}
				default:
					requireDead()
					continue
				}
			case *ssa.IndexAddr:
				g, isG := in.X.(*ssa.Global)
				if !isG {
					requireDead()
					continue
				}
				arr, ok := (*m.global(g)).(Array)
				if !ok {
					requireDead()
					continue
				}
				idx := m.toInt64(get(in.Index), in.Index.Type())
				if idx.IsConst() {
					if idx.Val >= uint64(len(arr)) {
						requireDead()
						continue
					}
					vals[in] = &arr[idx.Val]
				} else {
					// provably in range?
					inRange := false
					if idx.Op == OpZext && idx.A[0].W < 63 && (1<<uint(idx.A[0].W)) <= len(arr) {
						inRange = true
					}
					if !inRange {
						c := C.Cmp(OpUlt, idx, C.BV(64, uint64(len(arr))))
						if !c.IsConst() || c.Val == 0 {
							requireDead()
							continue
						}
					}
					vals[in] = SymRef{Cells: arr, Idx: idx}
				}
			case *ssa.Convert:
				x := get(in.X)
				if _, ok := x.(*Term); !ok || !isScalar(in.Type()) {
					requireDead()
					continue
				}
				vals[in] = m.conv(in.Type(), in.X.Type(), x)
			case *ssa.ChangeType:
				vals[in] = get(in.X)
			case *ssa.Call:
				callee := in.Call.StaticCallee()
				if callee == nil || in.Call.IsInvoke() {
					requireDead()
					continue
				}
				fi := m.info(callee)
				if fi.mergeable == 0 {
					fi.mergeable = -1
					if m.staticMergeable(callee, depth+1) {
						fi.mergeable = 1
					}
				}
				cargs := make([]Value, len(in.Call.Args))
				for i, a := range in.Call.Args {
					cargs[i] = get(a)
				}
				if pin, isIntr := lookupIntrinsic(m, callee, callee.String()); isIntr && pureIntrinsics[callee.String()] {
					vals[in] = pin(m, callee, cargs)
					continue
				} else if isIntr || fi.mergeable != 1 {
					requireDead()
					continue
				}
				vals[in] = m.mergeEval(callee, cargs, depth+1)
			case *ssa.If:
				c := m.asTermOrBail(get(in.Cond))
				addEdge(C, guard, edge, b, b.Succs[0], C.And(g, c))
				addEdge(C, guard, edge, b, b.Succs[1], C.And(g, C.Not(c)))
			case *ssa.Jump:
				addEdge(C, guard, edge, b, b.Succs[0], g)
			case *ssa.Return:
				v := m.asTermOrBail(get(in.Results[0]))
				if !haveResult {
					result, haveResult = v, true
				} else {
					result = C.Ite(g, v, result)
				}
			default:
				requireDead()
				continue
			}
		}
	}
	if !haveResult {
		panic(mergeBail{})
	}
	return result
}

func (m *Machine) asTermOrBail(v Value) *Term {
	t, ok := v.(*Term)
	if !ok {
		panic(mergeBail{})
	}
	return t
}

func addEdge(C *Ctx, guard map[*ssa.BasicBlock]*Term, edge map[[2]*ssa.BasicBlock]*Term, from, to *ssa.BasicBlock, g *Term) {
	k := [2]*ssa.BasicBlock{from, to}
	if old, ok := edge[k]; ok {
		g = C.Or(old, g)
	}
	edge[k] = g
	if old, ok := guard[to]; ok {
		guard[to] = C.Or(old, g)
	} else {
		guard[to] = g
	}
}

// decideDead reports whether guard g is unsatisfiable under the path condition. The answer is
// recorded on the decision tape so that re-executions take the same merge / no-merge route
// without consulting the solver.
func (m *Machine) decideDead(g *Term) bool {
	if g.IsConst() {
		return g.Val == 0
	}
	if m.pos < len(m.tape) {
		d := m.tape[m.pos]
		m.pos++
		if d.Site != "dead" {
			m.abort("inconclusive", "tape divergence: expected dead-block record, got "+d.Site)
		}
		return d.Choice == 1
	}
	dead := false
	if m.modelOK && Eval(g, m.model) != 0 {
		dead = false
	} else {
		dead = m.query(g, false) == Unsat
	}
	ch := 0
	if dead {
		ch = 1
	}
	m.tape = append(m.tape, Decision{ch, 2, true, "dead"})
	m.pos++
	return dead
}
