package larking

import (
	"net/url"
)

func init() {
	vfHarnesses["VerifH_params"] = VerifH_params
}

// VerifH_params (C03, C09): query parameters are resolved (proto or JSON name, dotted paths),
// converted per field kind and applied: strings verbatim, bytes as base64, enums by name or
// number, repeated keys appended in order, nested keys creating the nested message; unknown keys
// and paths through repeated / map fields are errors, never a crash.
func VerifH_params() {
	in := schemaParams()
	m := &method{desc: &fakeMethod{full: "vf.S.P", in: in, out: in}, name: "/vf.S/P"}
	msg := newFakeMsg(in)
	values := url.Values{}
	kind := vfChoice(15)
	if kind == 14 {
		vfParamsFloat(m, msg)
		return
	}
	var v1, v2 string
	switch kind {
	case 0:
		v1 = vfString(vfLen(3))
		values["a"] = []string{v1}
	case 1:
		v1 = vfString(vfLen(3))
		values["longName"] = []string{v1}
	case 2:
		v1 = vfString(vfLen(3))
		values["long_name"] = []string{v1}
	case 3:
		v1 = vfString(vfLen(vfBound(4, 6)))
		values["n"] = []string{v1}
	case 4:
		v1 = vfAsciiString(1 + vfLen(3))
		values["e"] = []string{v1}
	case 5:
		v1, v2 = vfString(vfLen(2)), vfString(vfLen(2))
		values["list"] = []string{v1, v2}
	case 6:
		v1 = vfString(vfLen(3))
		values["sub.c"] = []string{v1}
	case 7:
		values["subs.c"] = []string{"x"} // path through a repeated message field
	case 8:
		values["mp.c"] = []string{"x"} // path through a map field
	case 9:
		key := vfAsciiString(1 + vfLen(3))
		known := key == "a" || key == "n" || key == "e" || key == "list" || key == "sub" || key == "subs" || key == "mp" || key == "i" || key == "bo" || key == "l" || key == "u" || key == "fl" || key == "db"
		vfAssume(!known)
		for j := 0; j < len(key); j++ {
			vfAssume(key[j] != '.')
		}
		values[key] = []string{"x"}
	case 11:
		v1 = vfAsciiString(1 + vfLen(4))
		values["bo"] = []string{v1}
	case 12:
		v1 = vfAsciiString(1 + vfLen(3))
		values["l"] = []string{v1}
	case 13:
		v1 = vfAsciiString(1 + vfLen(3))
		values["u"] = []string{v1}
	default:
		v1 = vfAsciiString(1 + vfLen(3))
		values["i"] = []string{v1}
	}
	boundary := -1
	if kind >= 10 && kind != 11 && vfBool() {
		// integer texts around the 32- and 64-bit limits instead of a short symbolic text
		boundary = vfChoice(len(vfBoundaryInts))
		v1 = vfBoundaryInts[boundary].s
		key := "i"
		if kind == 12 {
			key = "l"
		} else if kind == 13 {
			key = "u"
		}
		values = url.Values{key: []string{v1}}
	}
	ps, err := m.parseQueryParams(values)
	if err == nil {
		err = ps.set(msg)
	}
	if boundary >= 0 {
		b := vfBoundaryInts[boundary]
		var fits bool
		switch kind {
		case 12:
			fits = b.fits64
		case 13:
			fits = b.fits64 && b.v >= 0 && b.v <= 4294967295
		default:
			fits = b.fits64 && b.v >= -2147483648 && b.v <= 2147483647
		}
		if !fits {
			vfCheck(err != nil, "an integer text outside the range of the field's type was accepted (coerced) instead of rejected")
			vfCover("int-out-of-range-rejected")
			return
		}
		vfCheck(err == nil, "an integer text within the range of the field's type was rejected")
		switch kind {
		case 12:
			vfCheck(msg.vals["l"].Int() == b.v, "int64 query parameter not converted to its value")
		case 13:
			vfCheck(int64(msg.vals["u"].Uint()) == b.v, "uint32 query parameter not converted to its value")
		default:
			vfCheck(msg.vals["i"].Int() == b.v, "int32 query parameter not converted to its value")
		}
		vfCover("int-at-range-limit")
		return
	}
	switch kind {
	case 0:
		vfCheck(err == nil && msg.str("a") == v1, "string query parameter not delivered verbatim")
		vfCover("string")
	case 1, 2:
		vfCheck(err == nil && msg.str("long_name") == v1, "field addressed by JSON or proto name not delivered")
		vfCover("json-name")
	case 3:
		want, ok := refProtoJSONBytes(v1)
		if ok {
			vfCheck(err == nil, "valid base64 text for a bytes field rejected")
			got := msg.vals["n"].Bytes()
			vfCheck(vfBytesEq(got, want), "bytes query parameter decoded to different bytes")
			vfCover("bytes")
		} else {
			if err == nil {
				vfCover("bytes-lenient") // e.g. non-zero trailing bits: unspecified
			} else {
				vfCover("bytes-rejected")
			}
		}
	case 4:
		num, valid := 0, true
		switch v1 {
		case "ZERO":
			num = 0
		case "ONE":
			num = 1
		case "TWO":
			num = 2
		default:
			num, valid = refJSONInt(v1)
		}
		if valid {
			vfCheck(err == nil && int(msg.vals["e"].Enum()) == num, "enum query parameter not converted to its number")
			vfCover("enum")
		} else {
			// neither a value name nor a JSON integer (e.g. "+1", "01", "1x")
			vfCheck(err != nil, "text that is neither an enum value name nor a JSON integer was accepted for an enum field")
			vfCover("enum-rejected")
		}
	case 5:
		vfCheck(err == nil, "repeated query parameter rejected")
		l := msg.lists["list"]
		vfCheck(l != nil && len(l.items) == 2 && l.items[0].String() == v1 && l.items[1].String() == v2, "repeated query parameter values lost or reordered")
		vfCover("repeated")
	case 6:
		sub := msg.subs["sub"]
		vfCheck(err == nil && sub != nil && sub.str("c") == v1, "nested query parameter did not create the nested message")
		vfCover("nested")
	case 7:
		vfCheck(err != nil, "query path through a repeated field accepted")
		vfCover("through-list")
	case 8:
		vfCheck(err != nil, "query path through a map field accepted")
		vfCover("through-map")
	case 9:
		vfCheck(err != nil, "unknown query parameter accepted")
		vfCheck(msg.sets == 0, "unknown query parameter modified the message")
		vfCover("unknown-key")
	case 11:
		t := refTrimJSONSpace(v1)
		if t == "true" || t == "false" {
			vfCheck(err == nil && msg.vals["bo"].Bool() == (t == "true"), "bool query parameter not converted to its value")
			vfCover("bool")
		} else {
			vfCheck(err != nil, "text that is neither true nor false was accepted for a bool field")
			vfCover("bool-rejected")
		}
	case 12:
		if jn, ok := refJSONInt(v1); ok {
			vfCheck(err == nil && int(msg.vals["l"].Int()) == jn, "int64 query parameter not converted to its value")
			vfCover("int64")
		} else {
			vfCheck(err != nil, "text that is not a JSON integer was accepted for an int64 field")
		}
	case 13:
		if jn, ok := refJSONInt(v1); ok && jn >= 0 && refTrimJSONSpace(v1)[0] != '-' {
			vfCheck(err == nil && int(msg.vals["u"].Uint()) == jn, "uint32 query parameter not converted to its value")
			vfCover("uint32")
		} else {
			vfCheck(err != nil, "text that is not a non-negative JSON integer was accepted for a uint32 field")
			vfCover("uint32-rejected")
		}
	default:
		if jn, ok := refJSONInt(v1); ok {
			vfCheck(err == nil && int(msg.vals["i"].Int()) == jn, "int32 query parameter not converted to its value")
			vfCover("int32")
		} else {
			vfCheck(err != nil, "text that is not a JSON integer was accepted for an int32 field")
			vfCover("int32-rejected")
		}
	}
}

// vfBoundaryInts: integer texts around the limits of the 32- and 64-bit types.
var vfBoundaryInts = []struct {
	s      string
	v      int64
	fits64 bool
}{
	{"2147483647", 2147483647, true},
	{"2147483648", 2147483648, true},
	{"-2147483648", -2147483648, true},
	{"-2147483649", -2147483649, true},
	{"4294967295", 4294967295, true},
	{"4294967296", 4294967296, true},
	{"4294967297", 4294967297, true},
	{"9223372036854775807", 9223372036854775807, true},
	{"9223372036854775808", 0, false},
	{"-9223372036854775808", -9223372036854775808, true},
	{"-9223372036854775809", 0, false},
}

// vfParamsFloat: float / double query parameters on concrete texts (floats are concrete in the
// engine; the text is converted by the host's encoding/json): in-range text is converted to its
// value, text beyond the range of the field's type or not a number is rejected - never coerced
// to infinity or to another value.
func vfParamsFloat(m *method, msg *fakeMsg) {
	cases := []struct {
		key, text string
		ok        bool
		want      float64
	}{
		{"fl", "1.5", true, 1.5},
		{"fl", "-0.25", true, -0.25},
		{"fl", "1e39", false, 0}, // beyond float32
		{"fl", "-1e39", false, 0},
		{"fl", "abc", false, 0},
		{"db", "2.5", true, 2.5},
		{"db", "1e39", true, 1e39}, // fine for a double
		{"db", "1e400", false, 0},  // beyond float64
		{"db", "1.5.2", false, 0},
	}
	c := cases[vfChoice(len(cases))]
	ps, err := m.parseQueryParams(url.Values{c.key: []string{c.text}})
	if err == nil {
		err = ps.set(msg)
	}
	if !c.ok {
		vfCheck(err != nil, "text that is not a number in the range of the float field's type was accepted (coerced) instead of rejected")
		vfCover("float-rejected")
		return
	}
	vfCheck(err == nil, "a float text within the range of the field's type was rejected")
	v, set := msg.vals[c.key]
	vfCheck(set && v.Float() == c.want, "float query parameter not converted to its value")
	vfCover("float")
}
