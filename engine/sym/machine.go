package sym

import (
	"fmt"
	"go/types"
	"sort"
	"strings"
	"time"

	"golang.org/x/tools/go/ssa"
)

// Decision is one entry of the decision tape that identifies a path.
type Decision struct {
	Choice int
	Arity  int
	Forced bool
	Site   string // for divergence detection
}

// Draw is one nondeterministic value drawn by the harness, in call order (the replay tape).
type Draw struct {
	Kind  string  `json:"k"`           // byte, bytes, string, u32, u64, int, len, choice, bool
	Terms []*Term `json:"-"`           // symbolic draws: the variables
	Conc  int64   `json:"v,omitempty"` // forked draws: the concrete value chosen
	N     int     `json:"n,omitempty"`
}

// Outcome of one explored path.
type Outcome struct {
	Kind    string // ok, assume-false, violation, panic, budget, unsupported, inconclusive, known-region
	Msg     string
	Model   Model
	Draws   []Draw
	Tape    []Decision
	Covers  []string
	Known   string // known-finding id whose region this path is in ("" if none)
	Steps   int
	Stack   string
	Forced  int
	Decided int
	Choices int // forked n-ary choices (nondeterministic lengths, menu picks, read schedules)
}

type abortPath struct {
	kind string
	msg  string
}

// targetPanic is a panic raised by the interpreted program (explicit or runtime error).
type targetPanic struct {
	v       Value  // the panic value as an interface value (Iface)
	runtime bool   // runtime error (index out of range, nil deref, ...)
	msg     string // printable
	stack   string
}

// Config is what a run needs to know beyond the program.
type Config struct {
	StepBudget      int
	ConcCap         int             // max values when concretising a symbolic integer
	OpenFindings    map[string]bool // known-finding ids that are open
	ForeignFindings map[string]bool // open findings that belong to another property than the one checked
	Trace           bool
	Thorough        bool
	CrossSolver     string // if set, every assertion query is re-asked to this solver (one-shot) and must agree
}

// Machine is one worker: term context, solver, globals and per-path state.
type Machine struct {
	C       *Ctx
	S       *Solver
	S2      *Solver // one-shot fallback solver (lazily started)
	X       *Solver // cross-check solver (lazily started)
	Prog    *Program
	Cfg     Config
	globals map[*ssa.Global]*Value
	inited  map[*ssa.Package]bool
	initing bool
	trail   []trailEntry
	fnInfo  map[*ssa.Function]*fnInfo
	noIntr  *ssa.Function // callFnNoIntrinsic: interpret this function's source once

	// per-path state
	tape       []Decision
	pos        int
	pc         []*Term
	model      Model
	modelOK    bool
	vars       []*Term
	draws      []Draw
	covers     map[string]bool
	coverList  []string
	known      string
	steps      int
	nvar       int
	siblings   []WorkItem
	frames     []*frame
	pools      map[*Value][]Value // sync.Pool model: pool address -> put objects
	forced     int
	decided    int
	choices    int
	natives    map[string]interface{}
	atoms      map[*Term]bool // atoms already decided on this path
	sch        schedState
	mapReverse bool           // range over maps in reverse insertion order
	mapFlips   int            // remaining individually reversed range statements (adversarial order)
	facts      map[*Term]ival // interval facts implied by the path condition
	rmemo      map[*Term]ival

	// statistics
	Stats struct {
		Paths, Steps               int
		InterpTime, SolverTime     time.Duration
		Funcs                      map[string]int // function -> instructions interpreted
		Intrinsics                 map[string]int
		FeasQueries, AssertQueries int
		ConcQueries                int
		Fallbacks                  int
		Restarts                   int
		CrossAsked, CrossAgreed    int
		CrossSkipped               int
		RangeDecided               int
		ForkSites                  map[string]int
	}
}

type trailEntry struct {
	p   *Value
	old Value
	mp  *Map
	oe  []mapEntry
}

// WorkItem is a path prefix still to be explored.
type WorkItem struct {
	Tape  []Decision
	Model Model
}

func NewMachine(p *Program, solverName string, cfg Config) (*Machine, error) {
	s, err := NewSolver(solverName)
	if err != nil {
		return nil, err
	}
	m := &Machine{C: NewCtx(), S: s, Prog: p, Cfg: cfg,
		globals: map[*ssa.Global]*Value{}, inited: map[*ssa.Package]bool{}, fnInfo: map[*ssa.Function]*fnInfo{}}
	m.resetSched()
	m.Stats.Funcs = map[string]int{}
	m.Stats.Intrinsics = map[string]int{}
	m.Stats.ForkSites = map[string]int{}
	if m.Cfg.StepBudget == 0 {
		m.Cfg.StepBudget = 2000000
	}
	if m.Cfg.ConcCap == 0 {
		m.Cfg.ConcCap = 64
	}
	return m, nil
}

func (m *Machine) Close() {
	m.S.Close()
	if m.S2 != nil {
		m.S2.Close()
	}
	if m.X != nil {
		m.X.Close()
	}
}

func (m *Machine) abort(kind, msg string) {
	panic(abortPath{kind, msg})
}

func (m *Machine) unsupported(msg string) {
	m.abort("unsupported", msg+"\n"+m.stackString())
}

func (m *Machine) stackString() string {
	var sb strings.Builder
	for i := len(m.frames) - 1; i >= 0 && i >= len(m.frames)-12; i-- {
		fr := m.frames[i]
		pos := ""
		if fr.cur != nil {
			pos = m.Prog.SSA.Fset.Position(fr.cur.Pos()).String()
		}
		fmt.Fprintf(&sb, "  at %s %s\n", fr.fn.String(), pos)
	}
	return sb.String()
}

// set stores through a pointer, recording the old value so the path can be undone.
func (m *Machine) set(p *Value, v Value) {
	m.trail = append(m.trail, trailEntry{p: p, old: *p})
	*p = v
}

func (m *Machine) undoTrail(to int) {
	for i := len(m.trail) - 1; i >= to; i-- {
		e := m.trail[i]
		if e.mp != nil {
			e.mp.E = e.oe
		} else {
			*e.p = e.old
		}
	}
	m.trail = m.trail[:to]
}

// ---------------------------------------------------------------------------------------
// Path condition and decisions.

func (m *Machine) assertPC(c *Term) {
	if c == m.C.True {
		return
	}
	m.pc = append(m.pc, c)
	m.S.Assert(c)
	m.noteAtom(c, true)
	if m.modelOK {
		if Eval(c, m.model) == 0 {
			m.modelOK = false
		}
	}
}

// noteAtom records that t has truth value v on this path (splitting conjunctions / negations).
func (m *Machine) noteAtom(t *Term, v bool) {
	switch {
	case t.Op == OpNot:
		m.noteAtom(t.A[0], !v)
	case t.Op == OpAnd && v:
		m.atoms[t] = true
		m.noteAtom(t.A[0], true)
		m.noteAtom(t.A[1], true)
	case t.Op == OpOr && !v:
		m.atoms[t] = false
		m.noteAtom(t.A[0], false)
		m.noteAtom(t.A[1], false)
	default:
		m.atoms[t] = v
		m.factFromAtom(t, v)
	}
	m.rmemo = map[*Term]ival{}
}

// knownAtom looks t up among the atoms already decided on this path.
func (m *Machine) knownAtom(t *Term) (val, ok bool) {
	if t.Op == OpNot {
		v, ok := m.knownAtom(t.A[0])
		return !v, ok
	}
	if v, ok := m.atoms[t]; ok {
		return v, true
	}
	switch t.Op {
	case OpAnd:
		a, oka := m.knownAtom(t.A[0])
		b, okb := m.knownAtom(t.A[1])
		if (oka && !a) || (okb && !b) {
			return false, true
		}
		if oka && okb {
			return true, true
		}
	case OpOr:
		a, oka := m.knownAtom(t.A[0])
		b, okb := m.knownAtom(t.A[1])
		if (oka && a) || (okb && b) {
			return true, true
		}
		if oka && okb {
			return false, true
		}
	}
	return false, false
}

func (m *Machine) site() string {
	if len(m.frames) == 0 {
		return ""
	}
	fr := m.frames[len(m.frames)-1]
	if fr.cur == nil {
		return fr.fn.Name()
	}
	return fmt.Sprintf("%s:%d", fr.fn.Name(), fr.cur.Pos())
}

func (m *Machine) siteLong() string {
	if len(m.frames) == 0 {
		return ""
	}
	fr := m.frames[len(m.frames)-1]
	if fr.cur == nil {
		return fr.fn.String()
	}
	p := m.Prog.SSA.Fset.Position(fr.cur.Pos())
	return fmt.Sprintf("%s %s:%d", fr.fn.String(), p.Filename[strings.LastIndex(p.Filename, "/")+1:], p.Line)
}

func (m *Machine) fetchModel() {
	mod, err := m.S.GetModel(m.vars)
	if err != nil {
		m.abort("inconclusive", "model: "+err.Error())
	}
	m.model = mod
	m.modelOK = true
}

// query asks whether pc ∧ c is satisfiable; on Sat the model is cached if keep is set.
// The incremental solver runs under a short timeout; when it gives up, the same question is put
// to a fresh non-incremental context under the long timeout. Unknown from both is inconclusive.
func (m *Machine) query(c *Term, keep bool) Result {
	t0 := time.Now()
	m.S.Push()
	m.S.Assert(c)
	r := m.S.Check()
	if r == Sat && keep {
		mod, err := m.S.GetModel(m.vars)
		if err == nil {
			m.model = mod
			m.modelOK = true
		}
	}
	m.S.Pop()
	if m.S.Err() != nil {
		// the solver process reported an error (e.g. a timeout that cancelled a push): its state is not
		// trusted any more. Start a fresh process, rebuild the path scope and re-ask one-shot.
		if !m.restartSolver() {
			m.abort("inconclusive", fmt.Sprintf("solver process failed and could not be restarted: %v", m.S.Err()))
		}
		r = Unknown
	}
	if r == Unknown && m.S.Err() == nil {
		m.S.Queries.Unknown-- // re-asked below; counted there
		m.Stats.Fallbacks++
		if m.S2 == nil {
			s2, err := NewSolver(m.S.Name)
			if err == nil {
				m.S2 = s2
			}
		}
		if m.S2 != nil {
			terms := append(append([]*Term{}, m.pc...), c)
			var mod Model
			r, mod = m.S2.OneShot(terms, m.vars, QueryTimeoutMS)
			m.S.Queries.Sat += m.S2.Queries.Sat
			m.S.Queries.Unsat += m.S2.Queries.Unsat
			m.S.Queries.Unknown += m.S2.Queries.Unknown
			m.S.Queries.Errors += m.S2.Queries.Errors
			m.S2.Queries = struct{ Sat, Unsat, Unknown, Errors int }{}
			if r == Sat && keep && mod != nil {
				m.model, m.modelOK = mod, true
			}
			if m.S2.Err() != nil {
				m.S2.Close()
				m.S2 = nil
			}
		}
	}
	m.Stats.SolverTime += time.Since(t0)
	if r == Unknown {
		q := c.String()
		if len(q) > 400 {
			q = q[:400] + "…"
		}
		m.abort("inconclusive", fmt.Sprintf("solver answered unknown/timeout/error (%v) at %s on %s", m.S.Err(), m.siteLong(), q))
	}
	return r
}

// restartSolver replaces a failed solver process and re-establishes the current path scope.
func (m *Machine) restartSolver() bool {
	name := m.S.Name
	q := m.S.Queries
	t := m.S.Time
	depth := m.S.Depth()
	m.S.Close()
	s, err := NewSolver(name)
	if err != nil {
		return false
	}
	s.Queries, s.Time = q, t
	s.Queries.Errors++
	m.S = s
	m.Stats.Restarts++
	for i := 0; i < depth; i++ {
		m.S.Push()
	}
	for _, v := range m.vars {
		m.S.ref(v)
	}
	for _, c := range m.pc {
		m.S.Assert(c)
	}
	return true
}

// Decide returns the truth value of c on this path, forking when both are feasible.
func (m *Machine) Decide(c *Term) bool {
	if c.IsConst() {
		return c.Val != 0
	}
	if v, ok := m.knownAtom(c); ok {
		return v
	}
	if r := m.rngBool(c); r >= 0 {
		m.Stats.RangeDecided++
		return r == 1
	}
	site := ""
	if m.pos < len(m.tape) {
		d := m.tape[m.pos]
		m.pos++
		if d.Arity != 2 {
			m.abort("inconclusive", fmt.Sprintf("tape divergence: expected binary decision at %s got arity %d (%s)", m.site(), d.Arity, d.Site))
		}
		if d.Choice == 1 {
			m.assertPC(c)
			return true
		}
		m.assertPC(m.C.Not(c))
		return false
	}
	site = m.site()
	m.Stats.FeasQueries++
	// Try the cached model first.
	var tOK, fOK bool
	var tKnown, fKnown bool
	if m.modelOK {
		if Eval(c, m.model) != 0 {
			tOK, tKnown = true, true
		} else {
			fOK, fKnown = true, true
		}
	}
	saved, savedOK := m.model, m.modelOK
	var otherModel Model
	if !tKnown {
		r := m.query(c, true)
		tOK = r == Sat
		if tOK && fKnown {
			otherModel = m.model
			m.model, m.modelOK = saved, savedOK
		}
	}
	if !fKnown {
		if !tOK {
			fOK = true // pc is satisfiable, so ¬c must be
		} else {
			keepT, keepTOK := m.model, m.modelOK
			r := m.query(m.C.Not(c), true)
			fOK = r == Sat
			if fOK {
				otherModel = m.model
			}
			m.model, m.modelOK = keepT, keepTOK
		}
	}
	switch {
	case tOK && fOK:
		m.decided++
		m.Stats.ForkSites[m.siteLong()]++
		sib := make([]Decision, len(m.tape), len(m.tape)+1)
		copy(sib, m.tape)
		if tKnown || !fKnown {
			// continue on the true side, sibling takes false
			sib = append(sib, Decision{0, 2, false, site})
			m.siblings = append(m.siblings, WorkItem{sib, otherModel})
			m.tape = append(m.tape, Decision{1, 2, false, site})
			m.pos++
			m.assertPC(c)
			return true
		}
		// model says false: continue false, sibling takes true
		sib = append(sib, Decision{1, 2, false, site})
		m.siblings = append(m.siblings, WorkItem{sib, otherModel})
		m.tape = append(m.tape, Decision{0, 2, false, site})
		m.pos++
		m.assertPC(m.C.Not(c))
		return false
	case tOK:
		m.forced++
		m.tape = append(m.tape, Decision{1, 2, true, site})
		m.pos++
		m.assertPC(c)
		return true
	case fOK:
		m.forced++
		m.tape = append(m.tape, Decision{0, 2, true, site})
		m.pos++
		m.assertPC(m.C.Not(c))
		return false
	}
	m.abort("inconclusive", "both sides infeasible at "+site)
	return false
}

// Choose forks over n concrete alternatives (all feasible by construction).
func (m *Machine) Choose(n int) int {
	if n <= 0 {
		m.abort("assume-false", "empty choice")
	}
	if n == 1 {
		return 0
	}
	m.choices++
	if m.pos < len(m.tape) {
		d := m.tape[m.pos]
		m.pos++
		if d.Arity != n {
			m.abort("inconclusive", fmt.Sprintf("tape divergence: expected %d-ary choice at %s got %d (%s)", n, m.site(), d.Arity, d.Site))
		}
		return d.Choice
	}
	site := m.site()
	for k := n - 1; k >= 1; k-- {
		sib := make([]Decision, len(m.tape), len(m.tape)+1)
		copy(sib, m.tape)
		sib = append(sib, Decision{k, n, false, site})
		var mod Model
		if m.modelOK {
			mod = m.model
		}
		m.siblings = append(m.siblings, WorkItem{sib, mod})
	}
	m.tape = append(m.tape, Decision{0, n, false, site})
	m.pos++
	return 0
}

// Concretize returns a concrete value for t, forking over its feasible values (bounded).
func (m *Machine) Concretize(t *Term) uint64 {
	if t.IsConst() {
		return t.Val
	}
	for i := 0; i < m.Cfg.ConcCap; i++ {
		var v uint64
		if m.pos < len(m.tape) {
			// replaying: the value is not on the tape, but decisions are; recompute candidates deterministically
			// by asking the model cache is impossible here, so we store the candidate value in Site.
			d := m.tape[m.pos]
			var cv uint64
			if _, err := fmt.Sscanf(d.Site, "conc=%d", &cv); err != nil {
				m.abort("inconclusive", "tape divergence in concretize: "+d.Site)
			}
			v = cv
			m.pos++
			c := m.C.Eq(t, m.C.BV(t.W, v))
			if d.Choice == 1 {
				m.assertPC(c)
				return v
			}
			m.assertPC(m.C.Not(c))
			continue
		}
		m.Stats.ConcQueries++
		if !m.modelOK {
			if r := m.query(m.C.True, true); r != Sat {
				m.abort("inconclusive", "pc infeasible in concretize")
			}
		}
		v = Eval(t, m.model)
		c := m.C.Eq(t, m.C.BV(t.W, v))
		site := fmt.Sprintf("conc=%d", v)
		// is another value possible?
		keep, keepOK := m.model, m.modelOK
		r := m.query(m.C.Not(c), true)
		other := m.model
		m.model, m.modelOK = keep, keepOK
		if r == Sat {
			m.decided++
			sib := make([]Decision, len(m.tape), len(m.tape)+1)
			copy(sib, m.tape)
			sib = append(sib, Decision{0, 2, false, site})
			m.siblings = append(m.siblings, WorkItem{sib, other})
			m.tape = append(m.tape, Decision{1, 2, false, site})
		} else {
			m.forced++
			m.tape = append(m.tape, Decision{1, 2, true, site})
		}
		m.pos++
		m.assertPC(c)
		return v
	}
	m.abort("budget", fmt.Sprintf("concretisation cap (%d values) exceeded at %s", m.Cfg.ConcCap, m.site()))
	return 0
}

// ConcInt concretizes v as a signed Go int.
func (m *Machine) ConcInt(v Value) int {
	t := m.asTerm(v)
	u := m.Concretize(t)
	return int(sext64(u, t.W))
}

func (m *Machine) ConcBool(v Value) bool {
	return m.Decide(m.asTerm(v))
}

// ---------------------------------------------------------------------------------------
// Fresh symbols.

func (m *Machine) fresh(prefix string, w int) *Term {
	name := fmt.Sprintf("%s_%d", prefix, m.nvar)
	m.nvar++
	t := m.C.Var(name, w)
	m.vars = append(m.vars, t)
	// declare eagerly so that get-value can mention it
	m.S.ref(t)
	return t
}

// Assume constrains the path to c without exploring ¬c (an assumption is not a fork). The path is
// discarded when c is infeasible.
func (m *Machine) Assume(c *Term) {
	if c.IsConst() {
		if c.Val == 0 {
			m.abort("assume-false", "")
		}
		return
	}
	if v, ok := m.knownAtom(c); ok {
		if !v {
			m.abort("assume-false", "")
		}
		return
	}
	if r := m.rngBool(c); r >= 0 {
		if r == 0 {
			m.abort("assume-false", "")
		}
		return
	}
	if m.pos < len(m.tape) {
		// replaying a feasible prefix: the assumption held
		m.assertPC(c)
		return
	}
	if !(m.modelOK && Eval(c, m.model) != 0) {
		if m.query(c, true) != Sat {
			m.abort("assume-false", "")
		}
	}
	m.assertPC(c)
}

// Check is the harness's property assertion.
func (m *Machine) Check(c *Term, what string) {
	if c.IsConst() {
		if c.Val != 0 {
			return
		}
		if !m.modelOK {
			m.query(m.C.True, true)
		}
		m.abort("violation", what)
	}
	if r := m.rngBool(c); r == 1 {
		return
	}
	m.Stats.AssertQueries++
	if m.modelOK && Eval(c, m.model) == 0 {
		m.abort("violation", what)
	}
	r := m.query(m.C.Not(c), true)
	if m.Cfg.CrossSolver != "" && m.pos >= len(m.tape) {
		m.crossCheck(m.C.Not(c), r)
	}
	if r == Sat {
		m.abort("violation", what)
	}
	m.assertPC(c)
}

// crossCheck re-asks pc ∧ q to a second solver in a fresh context; a different verdict makes the
// run inconclusive (a timeout of the second solver is counted as skipped).
func (m *Machine) crossCheck(q *Term, want Result) {
	if m.X == nil {
		x, err := NewSolver(m.Cfg.CrossSolver)
		if err != nil {
			m.abort("inconclusive", "cross solver: "+err.Error())
		}
		m.X = x
	}
	m.Stats.CrossAsked++
	terms := append(append([]*Term{}, m.pc...), q)
	got, _ := m.X.OneShot(terms, m.vars, 10000)
	if m.X.Err() != nil {
		m.X.Close()
		m.X = nil
		m.Stats.CrossSkipped++
		return
	}
	if got == Unknown {
		m.Stats.CrossSkipped++
		return
	}
	if got != want {
		m.abort("inconclusive", fmt.Sprintf("solver disagreement: %s says %v, %s says %v on %s", m.S.Name, want, m.Cfg.CrossSolver, got, q.String()))
	}
	m.Stats.CrossAgreed++
}

// ---------------------------------------------------------------------------------------
// Running one path.

// RunPath executes the harness along one tape prefix.
func (m *Machine) RunPath(fn *ssa.Function, item WorkItem) (out Outcome, siblings []WorkItem) {
	t0 := time.Now()
	solver0 := m.Stats.SolverTime
	m.tape = append([]Decision(nil), item.Tape...)
	m.pos = 0
	m.pc = m.pc[:0]
	m.model, m.modelOK = item.Model, item.Model != nil
	m.vars = m.vars[:0]
	m.draws = nil
	m.covers = map[string]bool{}
	m.coverList = nil
	m.known = ""
	m.steps = 0
	m.nvar = 0
	m.siblings = nil
	m.frames = m.frames[:0]
	m.pools = map[*Value][]Value{}
	m.natives = map[string]interface{}{}
	m.atoms = map[*Term]bool{}
	m.facts = map[*Term]ival{}
	m.rmemo = map[*Term]ival{}
	m.mapReverse = false
	m.mapFlips = 0
	m.forced, m.decided, m.choices = 0, 0, 0
	m.resetSched()
	mark := len(m.trail)
	m.S.Push()
	out.Kind = "ok"
	func() {
		defer func() {
			if r := recover(); r != nil {
				switch r := r.(type) {
				case abortPath:
					out.Kind, out.Msg = r.kind, r.msg
				case targetPanic:
					out.Kind, out.Msg = "panic", r.msg
					out.Stack = r.stack
				default:
					out.Kind = "unsupported"
					out.Msg = fmt.Sprintf("engine panic: %v\n%s", r, m.stackString())
					if m.Cfg.Trace {
						panic(r)
					}
				}
			}
		}()
		m.call(fn, nil)
	}()
	m.killGors()
	if out.Kind == "violation" || out.Kind == "panic" || out.Kind == "ok" || out.Kind == "budget" {
		// make sure there is a model for the path
		if !m.modelOK && m.S.Err() == nil {
			func() {
				defer func() {
					if r := recover(); r != nil {
						if ap, ok := r.(abortPath); ok {
							out.Kind, out.Msg = ap.kind, ap.msg
						} else {
							panic(r)
						}
					}
				}()
				if r := m.query(m.C.True, true); r != Sat {
					out.Kind, out.Msg = "inconclusive", "path condition unsat at end of path"
				}
			}()
		}
		out.Model = m.model
	}
	m.S.Pop()
	m.undoTrail(mark)
	out.Draws = m.draws
	out.Tape = m.tape
	out.Covers = m.coverList
	out.Known = m.known
	out.Steps = m.steps
	out.Forced, out.Decided, out.Choices = m.forced, m.decided, m.choices
	m.Stats.Paths++
	m.Stats.Steps += m.steps
	m.Stats.InterpTime += time.Since(t0) - (m.Stats.SolverTime - solver0)
	return out, m.siblings
}

// ConcreteDraws turns the draws of a path into concrete replay values under its model.
func ConcreteDraws(draws []Draw, model Model) []map[string]interface{} {
	var out []map[string]interface{}
	for _, d := range draws {
		e := map[string]interface{}{"k": d.Kind}
		switch d.Kind {
		case "bytes", "string":
			b := make([]int, len(d.Terms))
			for i, t := range d.Terms {
				b[i] = int(Eval(t, model))
			}
			e["b"] = b
		case "byte", "u32", "u64", "int", "symbool":
			t := d.Terms[0]
			v := Eval(t, model)
			if d.Kind == "int" {
				e["v"] = sext64(v, t.W)
			} else if d.Kind == "u64" {
				e["v"] = fmt.Sprintf("%d", v)
			} else {
				e["v"] = v
			}
		default:
			e["v"] = d.Conc
		}
		out = append(out, e)
	}
	return out
}

func sortedKeys(m map[string]int) []string {
	var ks []string
	for k := range m {
		ks = append(ks, k)
	}
	sort.Strings(ks)
	return ks
}

var _ = types.Typ
