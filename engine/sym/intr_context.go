package sym

import (
	"go/types"

	"golang.org/x/tools/go/ssa"
)

// context: WithValue is built directly (its reflectlite comparability check is skipped); Value,
// Background, Done/Err of the std types are interpreted from source. WithCancel / WithTimeout
// return a cancelCtx-like value whose cancel function records the cancellation; no timers run.
func init() {
	reg("context.WithValue", func(m *Machine, fn *ssa.Function, args []Value) Value {
		parent := args[0].(Iface)
		if parent.T == nil {
			panic(targetPanic{msg: "cannot create context from nil parent", stack: m.stackString()})
		}
		t := m.Prog.Package("context").Type("valueCtx").Type()
		var cell Value = Struct{parent, args[1], args[2]}
		return Iface{T: types.NewPointer(t), V: &cell}
	})
}
