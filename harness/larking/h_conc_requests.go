package larking

import (
	"context"
	"encoding/base64"
	"io"
	"net/http"
	"net/url"
	"sync"

	"google.golang.org/grpc"
)

func init() {
	vfHarnesses["VerifH_conc_requests"] = VerifH_conc_requests
}

// vfPureCodec has no state of its own (the recording codec's lists would be shared by the two
// requests): Unmarshal copies the bytes into the message, Marshal returns the message's payload.
type vfPureCodec struct{}

func (vfPureCodec) Name() string { return "pure" }
func (c vfPureCodec) Marshal(v interface{}) ([]byte, error) {
	return c.MarshalAppend(nil, v)
}
func (vfPureCodec) MarshalAppend(b []byte, v interface{}) ([]byte, error) {
	m, ok := v.(*fakeMsg)
	if !ok {
		return nil, errVfCodec
	}
	return append(b, m.payload...), nil
}
func (vfPureCodec) Unmarshal(data []byte, v interface{}) error {
	m, ok := v.(*fakeMsg)
	if !ok {
		return errVfCodec
	}
	m.raw = append([]byte(nil), data...)
	m.rawSet++
	return nil
}

// vfYieldReader / vfYieldRW: network I/O is a scheduling point.
type vfYieldReader struct{ vfWholeReader }

func (r *vfYieldReader) Read(p []byte) (int, error) {
	vfYield()
	return r.vfWholeReader.Read(p)
}

type vfYieldRW struct{ *fakeRW }

func (w vfYieldRW) Write(p []byte) (int, error) {
	vfYield()
	n, err := w.fakeRW.Write(p)
	vfYield()
	return n, err
}
func (w vfYieldRW) Flush() { vfYield(); w.fakeRW.Flush() }

type vfEchoUnarySrv struct {
	in, out *fakeMD
}

// vfEchoUnaryHandler replies "R:" + the bytes of its own request.
func vfEchoUnaryHandler(srv interface{}, ctx context.Context, dec func(interface{}) error, _ grpc.UnaryServerInterceptor) (interface{}, error) {
	s := srv.(*vfEchoUnarySrv)
	in := newFakeMsg(s.in)
	if err := dec(in); err != nil {
		return nil, err
	}
	reply := newFakeMsg(s.out)
	reply.payload = append([]byte("R:"), in.raw...)
	return reply, nil
}

// vfPureMarkCompressor: the marking "compression" of vfMarkCompressor without any state of its own
// (the fake must not add shared memory to a concurrency harness).
type vfPureMarkCompressor struct{}

func (vfPureMarkCompressor) Name() string { return "zz" }
func (vfPureMarkCompressor) Compress(w io.Writer) (io.WriteCloser, error) {
	return &vfMarkWriter{w: w}, nil
}
func (vfPureMarkCompressor) Decompress(r io.Reader) (io.Reader, error) {
	all, err := io.ReadAll(r)
	if err != nil {
		return nil, err
	}
	if len(all) < 2 || all[0] != 'Z' || all[1] != ':' {
		return nil, errVfCodec
	}
	return &vfYieldReader{vfWholeReader{data: all[2:]}}, nil
}

// VerifH_conc_requests (C13): two requests served CONCURRENTLY by one mux (every mix of HTTP
// transcoding, gRPC and gRPC-web text; scheduling points at every pool operation, atomic load and
// network read / write): each handler replies with a function of the bytes it received, and each
// client must get exactly the reply to its own request - pooled buffers must not carry bytes from
// one request into the other under any schedule within the context bound.
func VerifH_conc_requests() {
	vfRaceDetect()
	vfPreemptions(vfBound(2, 3))
	in := schemaRoute()
	out := newFakeMD("vf.Resp", strField("r"))
	rule := vfHTTPRule("POST", "/aa/{f}")
	rule.Body = "*"
	md := &fakeMethod{full: "vf.S.M0", in: in, out: out, opts: &fakeOpts{rule: rule}}
	svc := &fakeSvc{full: "vf.S", methods: &fakeMethodList{list: []*fakeMethod{md}}}
	mux, err := NewMux(FilesOption(vfRegistry(svc)), CodecOption("application/x", vfPureCodec{}), CompressorOption("zz", vfPureMarkCompressor{}))
	if err != nil {
		vfFail("NewMux failed")
	}
	sd := &grpc.ServiceDesc{ServiceName: "vf.S", Methods: []grpc.MethodDesc{{MethodName: "M0", Handler: vfEchoUnaryHandler}}}
	if err := mux.registerService(sd, &vfEchoUnarySrv{in: in, out: out}); err != nil {
		vfFail("registerService failed: " + err.Error())
	}
	// one recycled buffer, as a server that has been running has them: both requests compete for it
	seed := make([]byte, 0, 32)
	bytesPool.Put(&seed)
	payloads := [2][]byte{[]byte("AAAAAAAAAAAA"), []byte("bb")}
	var kinds [2]int
	for i := 0; i < 2; i++ {
		kinds[i] = vfChoice(4)
	}
	// compressed calls are paired with gRPC calls only (compressed or not): they share the gRPC pools
	vfAssume(!((kinds[0] == 3 && (kinds[1] == 0 || kinds[1] == 2)) || (kinds[1] == 3 && (kinds[0] == 0 || kinds[0] == 2))))
	build := func(i int) *http.Request {
		p := payloads[i]
		frame := append([]byte{0, 0, 0, 0, byte(len(p))}, p...)
		switch kinds[i] {
		case 3:
			// gRPC with per-message compression: the decompression buffer is pooled as well
			zp := append([]byte("Z:"), p...)
			zframe := append([]byte{1, 0, 0, 0, byte(len(zp))}, zp...)
			return &http.Request{Method: "POST", URL: &url.URL{Path: "/vf.S/M0"},
				Header: http.Header{"Content-Type": []string{"application/grpc+pure"}, "Te": []string{"trailers"}, "Grpc-Encoding": []string{"zz"}},
				Body:   vfNopCloser{&vfYieldReader{vfWholeReader{data: zframe}}}, ContentLength: -1, ProtoMajor: 2}
		case 0:
			return &http.Request{Method: "POST", URL: &url.URL{Path: "/aa/zz"},
				Header: http.Header{"Content-Type": []string{"application/x"}, "Accept": []string{"application/x"}},
				Body:   vfNopCloser{&vfYieldReader{vfWholeReader{data: p}}}, ContentLength: int64(len(p)), ProtoMajor: 1, ProtoMinor: 1}
		case 1:
			return &http.Request{Method: "POST", URL: &url.URL{Path: "/vf.S/M0"},
				Header: http.Header{"Content-Type": []string{"application/grpc+pure"}, "Te": []string{"trailers"}},
				Body:   vfNopCloser{&vfYieldReader{vfWholeReader{data: frame}}}, ContentLength: -1, ProtoMajor: 2}
		}
		text := []byte(base64.StdEncoding.EncodeToString(frame))
		return &http.Request{Method: "POST", URL: &url.URL{Path: "/vf.S/M0"},
			Header: http.Header{"Content-Type": []string{"application/grpc-web-text+pure"}},
			Body:   vfNopCloser{&vfYieldReader{vfWholeReader{data: text}}}, ContentLength: int64(len(text)), ProtoMajor: 1, ProtoMinor: 1}
	}
	check := func(i int, w *fakeRW) {
		want := append([]byte("R:"), payloads[i]...)
		switch kinds[i] {
		case 3:
			plain := append([]byte{0, 0, 0, 0, byte(len(want))}, want...)
			zw := append([]byte("Z:"), want...)
			comp := append([]byte{1, 0, 0, 0, byte(len(zw))}, zw...)
			vfCheck(w.status == 200 && (vfBytesEq(w.body, plain) || vfBytesEq(w.body, comp)), "a compressed gRPC call's response is not the reply to its own request (bytes of a concurrent request leaked in)")
			vfCover("grpc-compressed")
		case 0:
			vfCheck(w.status == 200 && vfBytesEq(w.body, want), "a transcoded response is not the reply to its own request (bytes of a concurrent request leaked in)")
			vfCover("http")
		case 1:
			wantFrame := append([]byte{0, 0, 0, 0, byte(len(want))}, want...)
			vfCheck(w.status == 200 && vfBytesEq(w.body, wantFrame), "a gRPC response is not the reply to its own request (bytes of a concurrent request leaked in)")
			vfCover("grpc")
		default:
			dec, derr := base64.StdEncoding.DecodeString(string(w.body))
			n := len(want)
			vfCheck(derr == nil && len(dec) >= 5+n && dec[0] == 0 && int(dec[4]) == n && vfBytesEq(dec[5:5+n], want), "a gRPC-web response is not the reply to its own request (bytes of a concurrent request leaked in)")
			vfCover("grpc-web-text")
		}
	}
	// Under the engine: the two requests, every schedule within the bound. Natively the schedule is
	// Go's and sync.Pool is per-P, so a replay is a stress run: several copies of the pair in flight,
	// repeated (what makes a pooled buffer change hands between requests observable).
	reps, width := 1, 1
	if !vfSymbolic() {
		reps, width = 40, 6
	}
	for rep := 0; rep < reps; rep++ {
		n := 2 * width
		ws := make([]*fakeRW, n)
		rs := make([]*http.Request, n)
		for k := 0; k < n; k++ {
			ws[k] = newFakeRW()
			rs[k] = build(k % 2)
		}
		var wg sync.WaitGroup
		for k := 0; k < n; k++ {
			k := k
			wg.Add(1)
			go func() {
				defer wg.Done()
				mux.ServeHTTP(vfYieldRW{ws[k]}, rs[k])
				ws[k].finish()
			}()
		}
		wg.Wait()
		for k := 0; k < n; k++ {
			check(k%2, ws[k])
		}
	}
}
