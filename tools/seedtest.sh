#!/bin/bash
# usage: seedtest.sh <patch.diff> <prop> [<prop> ...] : applies a seeded change to /repo, runs the quick checks, reverts.
patch=$1; shift
cd /repo || exit 2
if ! git diff --quiet; then echo "repo dirty"; exit 2; fi
git apply "$patch" || { echo "patch does not apply"; exit 2; }
for p in "$@"; do
  out=$(cd /verif && timeout 1200 ./bin/symgo check -prop $p -tier ${TIER:-quick} 2>&1)
  echo "$out" | grep -m3 "VIOLATION\|harness=" | cut -c1-220
  echo "$out" | grep "INCONCLUSIVE" | head -2 | cut -c1-220
  echo "$out" | grep "exit=" | tail -1
done
git -C /repo checkout -- .
git -C /repo status --short | head -3
