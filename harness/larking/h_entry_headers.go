package larking

import (
	"net/http"
	"net/url"
)

func init() {
	vfHarnesses["VerifH_entry_headers"] = VerifH_entry_headers
}

// VerifH_entry_headers (C09): one protocol header at a time set to arbitrary bytes, on the gRPC,
// gRPC-web and transcoding entries (with a stats handler and interceptors installed or not): message
// encodings, accept-encodings, content encodings, timeouts, upgrade / connection tokens, the
// WebSocket handshake fields, custom '-bin' metadata that is not base64. The mux answers with one
// response and never panics.
func VerifH_entry_headers() {
	var opts []MuxOption
	if vfBool() {
		opts = append(opts, StatsOption(&fakeStats{}))
	}
	mux, _, _ := vfMuxAllFake(opts...)
	keys := []string{"Grpc-Encoding", "Grpc-Accept-Encoding", "Grpc-Timeout", "Content-Encoding", "Accept-Encoding", "Te",
		"Upgrade", "Connection", "Sec-Websocket-Key", "Sec-Websocket-Version", "X-Data-Bin", "Content-Length", "Twirp-Version", "Grpc-Message-Type"}
	key := keys[vfChoice(len(keys))]
	val := vfString(vfLen(vfBound(2, 3)))
	h := http.Header{}
	method, path := "POST", "/vf.S/M0"
	major := 2
	body := []byte{0, 0, 0, 0, 1, 7}
	switch vfChoice(4) {
	case 0:
		h["Content-Type"] = []string{"application/grpc+fake"}
	case 1:
		h["Content-Type"] = []string{"application/grpc-web+fake"}
		major = 1
	case 2:
		h["Content-Type"] = []string{"application/x"}
		path, major = "/aa/zz", 1
		body = []byte("b")
	default:
		// a WebSocket handshake with one field replaced
		method, path, major = "GET", "/aa/zz", 1
		h["Upgrade"] = []string{"websocket"}
		h["Connection"] = []string{"Upgrade"}
		h["Sec-Websocket-Version"] = []string{"13"}
		h["Sec-Websocket-Key"] = []string{"dGhlIHNhbXBsZSBub25jZQ=="}
		body = nil
	}
	h[key] = []string{val}
	r := &http.Request{Method: method, URL: &url.URL{Path: path}, Header: h, Host: "h",
		Body: vfNopCloser{&vfWholeReader{data: body}}, ContentLength: int64(len(body)), ProtoMajor: major, ProtoMinor: 1}
	w := newFakeRW()
	mux.ServeHTTP(w, r)
	w.finish()
	vfCheck(w.committed && w.status >= 100 && w.status <= 599, "no well-formed response")
	vfCover("answered")
}
