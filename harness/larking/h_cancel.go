package larking

import (
	"context"
	"io"
	"net/http"
	"net/url"

	"google.golang.org/grpc"
)

func init() {
	vfHarnesses["VerifH_cancel"] = VerifH_cancel
}

// vfCancelReader is a request body whose client goes away: it delivers data, then - at the point
// where a real body would block waiting for more bytes - the request context is cancelled (what
// net/http does when the client disconnects or resets the stream) and the read fails.
type vfCancelReader struct {
	data   []byte
	pos    int
	cancel context.CancelFunc
	reads  int
}

func (r *vfCancelReader) Read(p []byte) (int, error) {
	r.reads++
	if r.pos < len(r.data) {
		n := copy(p, r.data[r.pos:])
		r.pos += n
		return n, nil
	}
	r.cancel()
	return 0, context.Canceled
}

// VerifH_cancel (C15): the context the handler runs under is cancelled when the request's context
// is (gRPC with and without grpc-timeout, gRPC-web, HTTP transcoding; unary and streaming), and a
// streaming handler waiting in RecvMsg when the client disconnects is released with an error that
// is not a clean end-of-stream.
func VerifH_cancel() {
	in := schemaRoute()
	out := newFakeMD("vf.Resp", strField("r"))
	ctx, cancel := context.WithCancel(context.Background())
	proto := vfChoice(6)
	if proto < 4 {
		mux, srv, _ := vfMuxAllFake()
		var before, after error
		doneClosed := false
		srv.hook = func(hctx context.Context) {
			before = hctx.Err()
			cancel() // the client goes away while the handler runs
			after = hctx.Err()
			select {
			case <-hctx.Done():
				doneClosed = true
			default:
			}
		}
		var r *http.Request
		switch proto {
		case 0:
			r = vfGRPCRequest("application/grpc+fake", nil, nil)
			vfCover("grpc")
		case 1:
			r = vfGRPCRequest("application/grpc+fake", nil, http.Header{"Grpc-Timeout": []string{"1H"}})
			vfCover("grpc-with-timeout")
		case 2:
			r = &http.Request{Method: "POST", URL: &url.URL{Path: "/vf.S/M0"},
				Header: http.Header{"Content-Type": []string{"application/grpc-web+fake"}},
				Body:   vfNopCloser{&vfWholeReader{data: []byte{0, 0, 0, 0, 0}}}, ContentLength: 5, ProtoMajor: 1 + vfChoice(2)}
			vfCover("grpc-web")
		default:
			r = &http.Request{Method: "POST", URL: &url.URL{Path: "/aa/zz"}, Header: http.Header{"Content-Type": []string{"application/x"}},
				Body: vfNopCloser{&vfWholeReader{}}, ProtoMajor: 1, ProtoMinor: 1}
			vfCover("http")
		}
		r = r.WithContext(ctx)
		w := newFakeRW()
		mux.ServeHTTP(w, r)
		vfCheck(srv.calls == 1, "handler not invoked")
		vfCheck(before == nil, "handler context already cancelled before the client went away")
		vfCheck(after == context.Canceled && doneClosed, "cancelling the request did not cancel the handler's context")
		return
	}
	// a streaming handler blocked in RecvMsg
	md := &fakeMethod{full: "vf.S.St", in: in, out: out, cs: true, ss: true, opts: &fakeOpts{}}
	svc := &fakeSvc{full: "vf.S", methods: &fakeMethodList{list: []*fakeMethod{md}}}
	rec := &fakeCodec{name: "fake"}
	mux, err := NewMux(FilesOption(vfRegistry(svc)), CodecOption("application/x", rec))
	if err != nil {
		vfFail("NewMux failed")
	}
	srv := &vfStreamSrv{in: in}
	var streamCtx context.Context
	h := func(s interface{}, stream grpc.ServerStream) error {
		streamCtx = stream.Context()
		return vfStreamHandler(s, stream)
	}
	sd := &grpc.ServiceDesc{ServiceName: "vf.S", Streams: []grpc.StreamDesc{{StreamName: "St", Handler: h, ClientStreams: true, ServerStreams: true}}}
	if err := mux.registerService(sd, srv); err != nil {
		vfFail("registerService failed: " + err.Error())
	}
	if proto == 5 {
		// a streaming handler whose client stops reading: from some Write call on the connection is gone
		for i := 0; i < 2; i++ {
			rp := newFakeMsg(out)
			rp.payload = []byte("rr")
			srv.replies = append(srv.replies, rp)
		}
		r := &http.Request{
			Method: "POST", URL: &url.URL{Path: "/vf.S/St"},
			Header: http.Header{"Content-Type": []string{"application/grpc+fake"}}, Body: vfNopCloser{&vfWholeReader{}}, ContentLength: -1, ProtoMajor: 2,
		}
		r = r.WithContext(ctx)
		w := newFakeRW()
		if vfBool() {
			// the client cancels after the first reply; nothing makes the writes fail, only the call's
			// context tells: the second send must still be refused
			srv.afterFirstSend = cancel
			mux.ServeHTTP(w, r)
			vfCheck(srv.calls == 1, "stream handler not invoked exactly once")
			vfCheck(srv.sendErr != nil, "a handler that keeps sending after the client cancelled was not released with an error")
			vfCover("send-after-cancel")
			return
		}
		w.okWrites = vfLen(3)
		w.onFail = cancel
		mux.ServeHTTP(w, r)
		vfCheck(srv.calls == 1, "stream handler not invoked exactly once")
		if w.failedWrite > 0 && len(w.body) < 2*(5+2) {
			vfCheck(srv.sendErr != nil, "a handler sending to a client that went away was not released with an error")
			vfCover("send-fails")
		} else {
			vfCheck(srv.sendErr == nil, "SendMsg failed although every write succeeded")
			vfCover("send-ok")
		}
		return
	}
	k := vfLen(1) // complete messages before the client goes away
	var body []byte
	for i := 0; i < k; i++ {
		body = append(body, 0, 0, 0, 0, 1, 'p')
	}
	partial := vfLen(5) // bytes of a further frame already sent (0: between messages)
	body = append(body, []byte{0, 0, 0, 0, 2, 'q'}[:partial]...)
	rd := &vfCancelReader{data: body, cancel: cancel}
	r := &http.Request{
		Method: "POST", URL: &url.URL{Path: "/vf.S/St"},
		Header: http.Header{"Content-Type": []string{"application/grpc+fake"}}, Body: vfNopCloser{rd}, ContentLength: -1, ProtoMajor: 2,
	}
	r = r.WithContext(ctx)
	w := newFakeRW()
	mux.ServeHTTP(w, r)
	w.finish()
	vfCheck(srv.calls == 1, "stream handler not invoked exactly once")
	vfCheck(len(srv.got) == k, "the handler did not receive exactly the complete messages sent before the disconnect")
	vfCheck(srv.recvErr != nil && srv.recvErr != io.EOF, "a handler blocked in RecvMsg was not released with an error when the client disconnected")
	vfCheck(streamCtx != nil && streamCtx.Err() == context.Canceled, "the stream's context is not cancelled after the client disconnected")
	if partial == 0 {
		vfCover("stream-between-messages")
	} else {
		vfCover("stream-inside-message")
	}
}
