package larking

import "net/http"

func init() {
	vfHarnesses["VerifH_negotiate_type"] = VerifH_negotiate_type
	vfHarnesses["VerifH_negotiate_raw"] = VerifH_negotiate_raw
}

func vfIsTokenByte(c byte) bool {
	return c > 0x20 && c < 0x7f && c != '(' && c != ')' && c != '<' && c != '>' && c != '@' && c != ',' && c != ';' && c != ':' &&
		c != '\\' && c != '"' && c != '/' && c != '[' && c != ']' && c != '?' && c != '=' && c != '{' && c != '}'
}

type vfRange struct {
	typ, sub string
	q10      int  // q-value times 10
	junk     bool // q-value with more decimals than RFC 9110 allows: whether this range admits is unspecified
}

var vfOffers = []string{"ab/c", "a/b", "a/c", "x/y"} // "ab/c": a type that has another offer's type as a string prefix

func vfRangeMatches(r vfRange, offer string) bool {
	if r.typ == "*" && r.sub == "*" {
		return true
	}
	if r.sub == "*" {
		return len(offer) > len(r.typ) && offer[:len(r.typ)+1] == r.typ+"/"
	}
	return offer == r.typ+"/"+r.sub
}

// VerifH_negotiate_type (C04): for Accept headers of the shape range[;q=v][, range[;q=v]] with
// symbolic tokens and q digits, the negotiated type is an offer admitted by a range with q > 0
// whenever one exists, otherwise the default (the request's own content type).
func VerifH_negotiate_type() {
	n := 1 + vfLen(1)
	var ranges []vfRange
	accept := ""
	var lines []string
	for i := 0; i < n; i++ {
		var r vfRange
		switch vfChoice(6) {
		case 5:
			t := vfByte()
			vfAssume(vfIsTokenByte(t) && t != '*')
			r.typ, r.sub = string([]byte{t}), "*"
		case 0:
			r.typ, r.sub = "*", "*"
		case 1:
			r.typ, r.sub = "a", "*"
		case 2:
			r.typ, r.sub = "a", "b"
		case 3:
			r.typ, r.sub = "x", "y"
		default:
			t, s := vfByte(), vfByte()
			vfAssume(vfIsTokenByte(t) && vfIsTokenByte(s) && t != '*' && s != '*')
			r.typ, r.sub = string([]byte{t}), string([]byte{s})
		}
		r.q10 = 10
		text := r.typ + "/" + r.sub
		switch vfChoice(5) {
		case 4:
			// a q-value with four decimals (one more than the grammar allows): how THIS range is read is
			// unspecified, but it must not swallow the ranges that follow it on the line
			text += ";q=0.9999"
			r.q10, r.junk = 9, true
			vfCover("long-q-value")
		case 0:
		case 1:
			text += ";q=0"
			r.q10 = 0
		case 2:
			text += "; q=1"
		default:
			d := vfByte()
			vfAssume(d >= '0' && d <= '9')
			text += ";q=0." + string([]byte{d})
			r.q10 = vfConc(int(d - '0'))
		}
		ranges = append(ranges, r)
		if i > 0 {
			switch vfChoice(3) {
			case 0:
				accept += ", "
			case 1:
				accept += ","
			default:
				// a further Accept header LINE (RFC 9110 5.3: equivalent to a comma-separated list)
				lines = append(lines, accept)
				accept = ""
				vfCover("several-header-lines")
			}
		}
		accept += text
	}
	lines = append(lines, accept)
	h := http.Header{"Accept": lines}
	got := negotiateContentType(h, vfOffers, "d/e")
	admitted := func(offer string, liberal bool) bool {
		for _, r := range ranges {
			if r.junk && !liberal {
				continue
			}
			if r.q10 > 0 && vfRangeMatches(r, offer) {
				return true
			}
		}
		return false
	}
	any, anyLiberal := false, false
	for _, o := range vfOffers {
		if admitted(o, false) {
			any = true
		}
		if admitted(o, true) {
			anyLiberal = true
		}
	}
	if any {
		isOffer := got == "a/b" || got == "a/c" || got == "x/y" || got == "ab/c"
		vfCheck(isOffer, "an offer is admitted by the Accept header but the default was chosen")
		vfCheck(admitted(got, true), "negotiated content type is not admitted by the Accept header")
		vfCover("negotiated")
	} else if !anyLiberal {
		vfCheck(got == "d/e", "no offer is admitted but something other than the request's content type was chosen")
		vfCover("default")
	}
}

// VerifH_negotiate_raw (C04, C09): arbitrary Accept / Accept-Encoding bytes never crash the
// negotiation and the result is always one of the offers or the default.
func VerifH_negotiate_raw() {
	s := vfString(vfLen(vfBound(5, 6)))
	h := http.Header{"Accept": []string{s}, "Accept-Encoding": []string{s}}
	got := negotiateContentType(h, vfOffers, "d/e")
	vfCheck(got == "a/b" || got == "a/c" || got == "x/y" || got == "ab/c" || got == "d/e", "negotiated content type is neither an offer nor the default")
	enc := negotiateContentEncoding(h, []string{"gz", "br"})
	vfCheck(enc == "gz" || enc == "br" || enc == "identity" || enc == "", "negotiated encoding is neither an offer nor identity")
	vfCover("done")
}
