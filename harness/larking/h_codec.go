package larking

import (
	"io"
)

func init() {
	vfHarnesses["VerifH_proto_roundtrip"] = VerifH_proto_roundtrip
	vfHarnesses["VerifH_proto_wire"] = VerifH_proto_wire
}

// refVarint decodes a protobuf varint per the wire spec: base-128 little endian, at most 10 bytes,
// the 10th byte at most 1. n = bytes consumed; n == 0: need more input; n < 0: malformed.
func refVarint(b []byte) (v uint64, n int) {
	for i := 0; i < len(b); i++ {
		if i == 10 {
			return 0, -1
		}
		c := b[i]
		if i == 9 && c > 1 {
			return 0, -1
		}
		v |= uint64(c&0x7f) << (7 * uint(i))
		if c < 0x80 {
			return v, i + 1
		}
	}
	if len(b) >= 10 {
		return 0, -1
	}
	return 0, 0
}

// VerifH_proto_roundtrip: WriteNext k messages, read them back through every read partition,
// every EOF placement and several buffer capacities, following the documented carry protocol
// (dst[n:] of one call is the start of buf for the next).
func VerifH_proto_roundtrip() {
	var c CodecProto
	k := vfLen(vfBound(2, 3))
	maxSize := vfBound(3, 4)
	var msgs [][]byte
	sink := &vfSink{}
	for i := 0; i < k; i++ {
		m := vfBytes(vfLen(maxSize))
		msgs = append(msgs, m)
		n, err := c.WriteNext(sink, m)
		vfCheck(err == nil && n == len(m), "WriteNext failed or reported a wrong count on a healthy writer")
	}
	wire := sink.buf
	limit := 1 + vfLen(maxSize+1) // 1..maxSize+2
	r := &vfFragReader{data: wire}
	var carry []byte
	buf := make([]byte, 0, vfCapMenu())
	consumed := 0 // bytes of wire that belong to messages already returned
	for i := 0; i < k; i++ {
		b := append(buf[:0], carry...)
		b, n, err := c.ReadNext(b, r, limit)
		if err == io.EOF && len(b) > 0 {
			// lenient reading (DESIGN C17): data arrived together with io.EOF; a correct caller retries
			// with the bytes it holds and the exhausted reader.
			vfCover("eof-with-data")
			b, n, err = c.ReadNext(b, r, limit)
		}
		if len(msgs[i]) > limit {
			vfCheck(err != nil, "message longer than the limit was returned instead of an error")
			vfCheck(n == 0, "error return with n != 0")
			vfCover("over-limit")
			return
		}
		vfCheck(err == nil, "ReadNext failed on a well-formed, complete message within the limit")
		vfCheck(n >= 0 && n <= len(b), "ReadNext returned n outside 0..len(dst)")
		vfCheck(n == len(msgs[i]), "ReadNext returned a wrong message length")
		vfCheck(vfBytesEq(b[:n], msgs[i]), "ReadNext returned different message bytes")
		consumed += 1 + len(msgs[i]) // sizes < 128: one prefix byte
		// dst[n:] must be exactly the bytes read from r beyond this message
		vfCheck(vfBytesEq(b[n:], wire[consumed:r.pos]), "dst[n:] is not the unread remainder of the stream")
		carry = append(carry[:0], b[n:]...)
		buf = b
		vfCover("message")
	}
	b := append(buf[:0], carry...)
	b, n, err := c.ReadNext(b, r, limit)
	vfCheck(err == io.EOF, "clean end of stream not reported as io.EOF")
	vfCheck(n == 0 && len(b) == 0, "end of stream returned data")
	vfCover("clean-eof")
}

// VerifH_proto_wire: ReadNext on arbitrary wire bytes (all 1..10-byte prefixes) and any limit.
func VerifH_proto_wire() {
	var c CodecProto
	w := vfLen(vfBound(11, 13))
	wire := vfBytes(w)
	limit := vfInt(1, 12)                        // sizes up to the limit are enumerated by the engine; prefixes range over all of uint64
	r := &vfFragReader{data: wire, greedy: true} // as much as fits per read ...
	if vfBool() {
		r.maxChunk = 1 // ... or one byte at a time (all partitions: see the round-trip harness)
	}
	buf := make([]byte, 0, vfCapMenu())
	b, n, err := c.ReadNext(buf, r, limit)
	if err == io.EOF && len(b) > 0 {
		// io.EOF although bytes arrived: the retry of a correct caller needs every byte read so far
		vfCheck(vfBytesEq(b, wire[:r.pos]), "io.EOF return lost bytes already consumed from the reader")
		b, n, err = c.ReadNext(b, r, limit)
	}
	vfCheck(n >= 0 && n <= len(b), "ReadNext returned n outside 0..len(dst)")
	if err != nil {
		vfCheck(n == 0, "error return with n != 0")
	}
	size, pn := refVarint(wire)
	switch {
	case pn < 0:
		vfCheck(err != nil, "malformed length prefix accepted")
		vfCover("bad-prefix")
	case pn == 0:
		vfCheck(err != nil, "truncated length prefix accepted")
		vfCover("short-prefix")
	case size > uint64(limit):
		vfCheck(err != nil, "length prefix larger than the limit accepted")
		vfCover("over-limit")
		if size >= 1<<63 {
			vfCover("prefix>=2^63")
		}
	case uint64(w-pn) < size:
		vfCheck(err != nil && err != io.EOF, "truncated message not reported as an error")
		vfCover("truncated")
	default:
		vfCheck(err == nil, "complete message within the limit rejected")
		vfCheck(uint64(n) == size, "wrong message length")
		vfCheck(vfBytesEq(b[:n], wire[pn:pn+int(size)]), "wrong message bytes")
		vfCheck(vfBytesEq(b[n:], wire[pn+int(size):r.pos]), "dst[n:] is not the unread remainder of the stream")
		vfCover("message")
	}
}
