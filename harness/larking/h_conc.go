package larking

import (
	"context"
	"net/http"
	"net/url"
	"sync"

	"google.golang.org/grpc"
	rpb "google.golang.org/grpc/reflection/grpc_reflection_v1alpha"
)

func init() {
	vfHarnesses["VerifH_conc_registration"] = VerifH_conc_registration
}

// ---- backend connections ------------------------------------------------------------------------
// Under the engine a backend connection is an identity (new(grpc.ClientConn)) whose reflection
// conversation is the fake vfReflStream (the engine redirects the reflection client's
// ServerReflectionInfo to vfReflClientFor). Natively vfBackendConn starts a REAL in-process gRPC
// server (bufconn) with a real reflection service describing the same files, and dials it.

var vfConnTable = map[*grpc.ClientConn][]vfSvcSpec{}

func vfBackendConnFake(specs []vfSvcSpec) *grpc.ClientConn {
	cc := new(grpc.ClientConn)
	vfConnTable[cc] = specs
	return cc
}

func vfReflClientFor(cci grpc.ClientConnInterface) rpb.ServerReflection_ServerReflectionInfoClient {
	cc, _ := cci.(*grpc.ClientConn)
	return &vfReflStream{svcs: vfConnTable[cc], yields: true}
}

func vfBackendSetSpecsFake(cc *grpc.ClientConn, specs []vfSvcSpec) { vfConnTable[cc] = specs }

// VerifH_conc_registration (C12): two registration operations (RegisterConn / registerService /
// DropConn - the real functions, with their locking) run CONCURRENTLY with each other and with a
// request for an already-registered method. Every schedule within the context bound is explored
// (scheduling points: mutex, atomic snapshot load / store, pool operations, the reflection round
// trips). Afterwards the published state must contain the effect of BOTH operations (no lost
// update), the request must have been served, and every live method's route must dispatch.
func VerifH_conc_registration() {
	defer vfCloseBackends()
	vfRaceDetect()
	vfPreemptions(vfBound(2, 3))
	if vfBool() {
		vfFailedRegisterConn()
		return
	}
	scenario := vfChoice(3)
	fa, fb := vfFakeSvc(vfSvcA), vfFakeSvc(vfSvcB)
	rec := &fakeCodec{name: "fake"}
	mux, err := NewMux(FilesOption(vfRegistry(fa, fb)), CodecOption("application/x", rec))
	if err != nil {
		vfFail("NewMux failed")
	}
	ma := fa.methods.list[0]
	srvA := &vfServer{in: ma.in, out: ma.out, reply: newFakeMsg(ma.out)}
	srvA.reply.payload = []byte("REPLY")
	sdA := &grpc.ServiceDesc{ServiceName: "vf.A", Methods: []grpc.MethodDesc{{MethodName: "M1", Handler: vfUnaryHandler}, {MethodName: "M2", Handler: vfUnaryHandler}}}
	sdB := &grpc.ServiceDesc{ServiceName: "vf.B", Methods: []grpc.MethodDesc{{MethodName: "M1", Handler: vfUnaryHandler}, {MethodName: "M2", Handler: vfUnaryHandler}}}
	if err := mux.registerService(sdA, srvA); err != nil {
		vfFail("registerService(A) failed")
	}
	ctx := context.Background()
	cc0 := vfBackendConn([]vfSvcSpec{vfSvcB})
	cc1 := vfBackendConn([]vfSvcSpec{vfSvcB})
	if scenario != 0 {
		if err := mux.RegisterConn(ctx, cc0); err != nil {
			vfFail("RegisterConn(cc0) failed: " + err.Error())
		}
	}
	var wg sync.WaitGroup
	var err1, err2 error
	dropped := true
	run := func(f func()) {
		wg.Add(1)
		go func() {
			defer wg.Done()
			f()
		}()
	}
	regConn := func() { err1 = mux.RegisterConn(ctx, cc1) }
	regLocal := func() { err2 = mux.registerService(sdB, &vfServer{}) }
	drop := func() { dropped = mux.DropConn(ctx, cc0) }
	switch scenario {
	case 0:
		run(regConn)
		run(regLocal)
		vfCover("registerconn-registerservice")
	case 1:
		run(regConn)
		run(drop)
		vfCover("registerconn-dropconn")
	default:
		run(regLocal)
		run(drop)
		vfCover("registerservice-dropconn")
	}
	w := newFakeRW()
	run(func() {
		r := &http.Request{Method: "GET", URL: &url.URL{Path: "/v1/xx/yy"}, Header: http.Header{"Accept": []string{"application/x"}},
			Body: vfNopCloser{&vfWholeReader{}}, ProtoMajor: 1, ProtoMinor: 1}
		mux.ServeHTTP(w, r)
	})
	wg.Wait()
	vfCheck(err1 == nil && err2 == nil && dropped, "a registration operation failed")
	vfCheck(w.status == 200 && vfBytesEq(w.body, []byte("REPLY")) && srvA.calls == 1, "a request for an already-registered method was not served while registration ran")
	st := mux.loadState()
	nB1, nB2 := len(st.handlers["/vf.B/M1"]), len(st.handlers["/vf.B/M2"])
	_, has0 := st.conns[cc0]
	_, has1 := st.conns[cc1]
	switch scenario {
	case 0:
		vfCheck(nB1 == 2 && nB2 == 2 && has1 && len(st.conns) == 1, "an update was lost: RegisterConn and RegisterService ran concurrently and one of them is missing from the published state")
	case 1:
		vfCheck(nB1 == 1 && nB2 == 1 && has1 && !has0 && len(st.conns) == 1, "an update was lost: RegisterConn and DropConn ran concurrently and the published state does not show both")
	default:
		vfCheck(nB1 == 1 && nB2 == 1 && !has0 && len(st.conns) == 0, "an update was lost: RegisterService and DropConn ran concurrently and the published state does not show both")
	}
	// a service's routes and handlers are visible together
	mB, _, merr := st.match("/v1/zz", "GET")
	vfCheck(merr == nil && mB != nil && mB.name == "/vf.B/M2", "a live method's route does not dispatch after concurrent registration")
	mA, _, aerr := st.match("/v1/a2/q", "GET")
	vfCheck(aerr == nil && mA != nil && mA.name == "/vf.A/M2", "an untouched service's route was lost")
}

// vfFailedRegisterConn (C12, sequential): a RegisterConn that fails half-way - the backend exposes a
// good service and one whose HTTP rule cannot be bound, in either processing order - must change
// nothing: the published snapshot stays pointer-identical, the connection is not recorded, the
// good service of that backend is not served, earlier registrations keep working.
func vfFailedRegisterConn() {
	vfMapOrder(vfChoice(2)) // addConnHandler ranges over a map of files
	fa := vfFakeSvc(vfSvcA)
	mux, err := NewMux(FilesOption(vfRegistry(fa)))
	if err != nil {
		vfFail("NewMux failed")
	}
	sdA := &grpc.ServiceDesc{ServiceName: "vf.A", Methods: []grpc.MethodDesc{{MethodName: "M1", Handler: vfUnaryHandler}, {MethodName: "M2", Handler: vfUnaryHandler}}}
	if err := mux.registerService(sdA, &vfServer{}); err != nil {
		vfFail("registerService(A) failed")
	}
	ctx := context.Background()
	good := vfBackendConn([]vfSvcSpec{vfSvcB})
	if vfBool() {
		// the failing connection was registered successfully before (with a good service set): the
		// failed re-registration must not drop what it served
		if err := mux.RegisterConn(ctx, good); err != nil {
			vfFail("RegisterConn(good) failed: " + err.Error())
		}
		vfCover("failed-after-earlier-success")
	}
	before := mux.loadState()
	fp := vfFingerprint(before)
	bad := vfBackendConn([]vfSvcSpec{vfSvcB, vfSvcBad})
	rerr := mux.RegisterConn(ctx, bad)
	vfCheck(rerr != nil, "a backend exposing an unbindable rule was registered without error")
	after := mux.loadState()
	vfCheck(after == before, "a failed RegisterConn published a new routing state")
	vfCheck(vfFingerprint(after) == fp, "a failed RegisterConn changed the routing state")
	vfCheck(!mux.DropConn(ctx, bad), "a connection whose registration failed is recorded")
	mA, _, aerr := mux.loadState().match("/v1/xx/yy", "GET")
	vfCheck(aerr == nil && mA != nil && mA.name == "/vf.A/M1", "an earlier registration stopped working after a failed RegisterConn")
	vfCover("failed-registerconn")
}
