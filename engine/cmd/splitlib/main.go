// splitlib is a maintenance tool for the harness overlay: it finds the top-level declarations of
// harness files (h_*.go) that other overlay files use and moves them into lib_shared.go, so that a
// harness file that stops compiling against a changed tree can be dropped without taking other
// harnesses with it.
package main

import (
	"bytes"
	"fmt"
	"go/ast"
	"go/token"
	"go/types"
	"os"
	"path/filepath"
	"sort"
	"strings"

	"golang.org/x/tools/go/packages"
)

func main() {
	repo, hdir := "/repo", "/verif/harness/larking"
	overlay := map[string][]byte{}
	virt2real := map[string]string{}
	ents, _ := os.ReadDir(hdir)
	for _, e := range ents {
		if !strings.HasSuffix(e.Name(), ".go") || strings.HasSuffix(e.Name(), "_test.go") {
			continue
		}
		src, _ := os.ReadFile(filepath.Join(hdir, e.Name()))
		v := filepath.Join(repo, "larking", "zz_verif_"+e.Name())
		overlay[v] = src
		virt2real[v] = filepath.Join(hdir, e.Name())
	}
	cfg := &packages.Config{Mode: packages.LoadAllSyntax, Dir: repo, Overlay: overlay,
		Env: append(os.Environ(), "GOFLAGS=-mod=mod", "GOPROXY=off", "GOSUMDB=off", "GOTOOLCHAIN=local", "CGO_ENABLED=0")}
	pkgs, err := packages.Load(cfg, "larking.io/larking")
	if err != nil || len(pkgs) != 1 || len(pkgs[0].Errors) > 0 {
		fmt.Println("load failed", err, pkgs[0].Errors)
		os.Exit(1)
	}
	pkg := pkgs[0]
	fileOf := func(p token.Pos) string { return pkg.Fset.Position(p).Filename }
	isH := func(f string) bool { return strings.HasPrefix(filepath.Base(f), "zz_verif_h_") }
	// top-level decl objects per file
	type declInfo struct {
		file       string
		start, end token.Pos
		name       string
	}
	declOf := map[types.Object]*declInfo{}
	var all []*declInfo
	recvName := func(fd *ast.FuncDecl) string {
		t := fd.Recv.List[0].Type
		if s, ok := t.(*ast.StarExpr); ok {
			t = s.X
		}
		if id, ok := t.(*ast.Ident); ok {
			return id.Name
		}
		return ""
	}
	methodsOf := map[string][]*declInfo{} // type name -> method decls
	for _, f := range pkg.Syntax {
		fn := fileOf(f.Pos())
		if !isH(fn) {
			continue
		}
		for _, d := range f.Decls {
			switch d := d.(type) {
			case *ast.FuncDecl:
				start := d.Pos()
				if d.Doc != nil {
					start = d.Doc.Pos()
				}
				di := &declInfo{file: fn, start: start, end: d.End(), name: d.Name.Name}
				all = append(all, di)
				if d.Recv != nil {
					methodsOf[recvName(d)] = append(methodsOf[recvName(d)], di)
					continue
				}
				if d.Name.Name == "init" || strings.HasPrefix(d.Name.Name, "VerifH_") {
					continue
				}
				declOf[pkg.TypesInfo.Defs[d.Name]] = di
			case *ast.GenDecl:
				if d.Tok == token.IMPORT {
					continue
				}
				start := d.Pos()
				if d.Doc != nil {
					start = d.Doc.Pos()
				}
				di := &declInfo{file: fn, start: start, end: d.End()}
				all = append(all, di)
				for _, sp := range d.Specs {
					switch sp := sp.(type) {
					case *ast.TypeSpec:
						di.name = sp.Name.Name
						declOf[pkg.TypesInfo.Defs[sp.Name]] = di
					case *ast.ValueSpec:
						for _, n := range sp.Names {
							di.name = n.Name
							declOf[pkg.TypesInfo.Defs[n]] = di
						}
					}
				}
			}
		}
	}
	move := map[*declInfo]bool{}
	changed := true
	for changed {
		changed = false
		for id, obj := range pkg.TypesInfo.Uses {
			di := declOf[obj]
			if di == nil || move[di] {
				continue
			}
			useFile := fileOf(id.Pos())
			// used from another file, or from a declaration that is itself being moved
			foreign := useFile != di.file
			if !foreign {
				for m := range move {
					if m.file == useFile && m.start <= id.Pos() && id.Pos() < m.end {
						foreign = true
					}
				}
			}
			if foreign {
				move[di] = true
				changed = true
				if ms, ok := methodsOf[di.name]; ok {
					for _, md := range ms {
						move[md] = true
					}
				}
			}
		}
	}
	// cut
	byFile := map[string][]*declInfo{}
	for di := range move {
		byFile[di.file] = append(byFile[di.file], di)
	}
	var lib bytes.Buffer
	libPath := filepath.Join(hdir, "lib_shared.go")
	if old, err := os.ReadFile(libPath); err == nil {
		lib.Write(old)
	} else {
		lib.WriteString("package larking\n\n// Declarations shared by several harness files (moved here by tools: engine/cmd/splitlib).\n")
	}
	var files []string
	for f := range byFile {
		files = append(files, f)
	}
	sort.Strings(files)
	for _, f := range files {
		ds := byFile[f]
		sort.Slice(ds, func(i, j int) bool { return ds[i].start < ds[j].start })
		src := overlay[f]
		tf := pkg.Fset.File(ds[0].start)
		var out bytes.Buffer
		last := 0
		for _, di := range ds {
			s, e := tf.Offset(di.start), tf.Offset(di.end)
			out.Write(src[last:s])
			fmt.Fprintf(&lib, "\n// (from %s)\n", strings.TrimPrefix(filepath.Base(f), "zz_verif_"))
			lib.Write(src[s:e])
			lib.WriteString("\n")
			last = e
			fmt.Println("move", di.name, "from", filepath.Base(f))
		}
		out.Write(src[last:])
		os.WriteFile(virt2real[f], out.Bytes(), 0o644)
	}
	os.WriteFile(libPath, lib.Bytes(), 0o644)
}
