package larking

import (
	"encoding/json"
	"fmt"
	"os"
	"sync"
	"testing"
)

// TestVerifReplay replays solver models natively: each entry of the list names a harness and a
// tape of concrete draws; the harness runs against the real build and its outcome is printed as a
// VERIF-REPLAY line for symgo to compare with what the engine predicted.
func TestVerifReplay(t *testing.T) {
	listPath := os.Getenv("VERIF_REPLAY_LIST")
	if listPath == "" {
		t.Skip("VERIF_REPLAY_LIST not set")
	}
	data, err := os.ReadFile(listPath)
	if err != nil {
		t.Fatal(err)
	}
	var list []struct {
		ID      string `json:"id"`
		Harness string `json:"harness"`
		Tape    string `json:"tape"`
		Tier    string `json:"tier"`
		Repeat  int    `json:"repeat"` // run up to Repeat times until the outcome is not ok (Go's map order is random)
	}
	if err := json.Unmarshal(data, &list); err != nil {
		t.Fatal(err)
	}
	for _, e := range list {
		h := vfHarnesses[e.Harness]
		res := map[string]interface{}{"id": e.ID, "harness": e.Harness}
		if h == nil {
			res["kind"] = "error"
			res["msg"] = "unknown harness"
		} else if err := vfLoadTape(e.Tape); err != nil {
			res["kind"] = "error"
			res["msg"] = err.Error()
		} else {
			var kind, msg string
			for try := 0; try <= e.Repeat; try++ {
				if try > 0 {
					vfLoadTape(e.Tape)
				}
				vfS.tier = e.Tier
				kind, msg = vfRun(h)
				if kind != "ok" {
					break
				}
			}
			res["kind"] = kind
			res["msg"] = msg
			res["covers"] = vfS.covers
		}
		out, _ := json.Marshal(res)
		fmt.Printf("VERIF-REPLAY %s\n", out)
	}
}

func vfRun(h func()) (kind, msg string) {
	defer func() {
		if r := recover(); r != nil {
			switch r := r.(type) {
			case vfAssumeFailed:
				kind, msg = "assume-false", ""
			case vfCheckFailed:
				kind, msg = "violation", r.what
			default:
				kind, msg = "panic", fmt.Sprint(r)
			}
		}
	}()
	// real sync.Pools keep buffers of earlier replays; the engine starts every path with empty pools
	bytesPool = sync.Pool{New: bytesPool.New}
	bufPool = sync.Pool{New: bufPool.New}
	h()
	return "ok", ""
}
